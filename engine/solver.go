package main

// One persistent solver process (z3 -in, or cvc5 --incremental) driven over a pipe.
// No push/pop: every term is introduced once by a global define-fun and each
// query is a check-sat-assuming over the path-condition literals, so replayed
// path prefixes cost nothing and definitions survive between paths.

import (
	"bufio"
	"fmt"
	"io"
	"math"
	"os"
	"os/exec"
	"sort"
	"strconv"
	"strings"
	"time"
)

type Solver struct {
	cmd        *exec.Cmd
	in         io.WriteCloser
	out        *bufio.Reader
	log        io.Writer // optional transcript
	declared   map[string]bool
	nSat       int
	nUnsat     int
	nUnknown   int
	nErr       int
	wall       time.Duration
	wallValues time.Duration
	timeout    int // ms
	name       string
}

func NewSolver(kind string, timeoutMs int, transcript io.Writer) (*Solver, error) {
	var cmd *exec.Cmd
	switch kind {
	case "z3", "":
		kind = "z3"
		cmd = exec.Command("z3", "-in")
	case "z3-new":
		cmd = exec.Command("z3-new", "-in")
	case "cvc5":
		cmd = exec.Command("cvc5", "--incremental", "--produce-models", fmt.Sprintf("--tlimit-per=%d", timeoutMs))
	default:
		return nil, fmt.Errorf("unknown solver %q", kind)
	}
	in, err := cmd.StdinPipe()
	if err != nil {
		return nil, err
	}
	outp, err := cmd.StdoutPipe()
	if err != nil {
		return nil, err
	}
	cmd.Stderr = os.Stderr
	if err := cmd.Start(); err != nil {
		return nil, err
	}
	s := &Solver{cmd: cmd, in: in, out: bufio.NewReaderSize(outp, 1<<20), log: transcript,
		declared: map[string]bool{}, timeout: timeoutMs, name: kind}
	if kind == "cvc5" {
		s.send("(set-logic ALL)")
	} else {
		s.send(fmt.Sprintf("(set-option :timeout %d)", timeoutMs))
	}
	s.send("(set-option :produce-models true)")
	return s, nil
}

// Reset drops everything the solver has internalised (definitions are re-sent lazily).
func (s *Solver) Reset() {
	s.send("(reset)")
	if s.name == "cvc5" {
		s.send("(set-logic ALL)")
	} else {
		s.send(fmt.Sprintf("(set-option :timeout %d)", s.timeout))
	}
	s.send("(set-option :produce-models true)")
	s.declared = map[string]bool{}
	for _, t := range tt.tab {
		t.sent = false
	}
}

func (s *Solver) send(line string) {
	if s.log != nil {
		io.WriteString(s.log, line+"\n")
	}
	io.WriteString(s.in, line+"\n")
}

func (s *Solver) Close() {
	if s.cmd != nil {
		s.in.Close()
		s.cmd.Process.Kill()
		s.cmd.Wait()
		s.cmd = nil
	}
}

// define makes sure t (and everything below it) is known to the solver.
func (s *Solver) define(t *Term) {
	if t.sent || t.Op == "const" {
		return
	}
	if t.Op == "var" {
		if !s.declared[t.Name] {
			s.declared[t.Name] = true
			s.send(fmt.Sprintf("(declare-const %s %s)", t.ref(), t.sortStr()))
		}
		t.sent = true
		return
	}
	// iterative post-order to avoid deep recursion
	type fr struct {
		t *Term
		i int
	}
	stack := []fr{{t, 0}}
	for len(stack) > 0 {
		top := &stack[len(stack)-1]
		if top.t.sent || top.t.Op == "const" {
			stack = stack[:len(stack)-1]
			continue
		}
		if top.t.Op == "var" {
			if !s.declared[top.t.Name] {
				s.declared[top.t.Name] = true
				s.send(fmt.Sprintf("(declare-const %s %s)", top.t.ref(), top.t.sortStr()))
			}
			top.t.sent = true
			stack = stack[:len(stack)-1]
			continue
		}
		if top.i < len(top.t.Args) {
			a := top.t.Args[top.i]
			top.i++
			if !a.sent && a.Op != "const" {
				stack = append(stack, fr{a, 0})
			}
			continue
		}
		s.send(fmt.Sprintf("(define-fun %s () %s %s)", top.t.ref(), top.t.sortStr(), top.t.body()))
		top.t.sent = true
		stack = stack[:len(stack)-1]
	}
}

type SatResult int

const (
	Unsat SatResult = iota
	Sat
	Unknown
)

func (r SatResult) String() string { return [...]string{"unsat", "sat", "unknown"}[r] }

// Check decides satisfiability of the conjunction of lits.
func (s *Solver) Check(lits []*Term) SatResult {
	t0 := time.Now()
	defer func() { s.wall += time.Since(t0) }()
	var sb strings.Builder
	sb.WriteString("(check-sat-assuming (")
	n := 0
	for _, l := range lits {
		if l.IsConst() {
			if l.C == 0 {
				s.nUnsat++
				return Unsat
			}
			continue
		}
		s.define(l)
		if n > 0 {
			sb.WriteByte(' ')
		}
		if l.Op == "not" {
			// assumptions must be literals: (not tN) is fine when tN is a defined constant
			sb.WriteString("(not " + l.Args[0].ref() + ")")
		} else {
			sb.WriteString(l.ref())
		}
		n++
	}
	sb.WriteString("))")
	cmd := sb.String()
	if n == 0 {
		// no assumption: the SMT-LIB grammar wants at least one literal in check-sat-assuming (cvc5
		// rejects the empty list)
		cmd = "(check-sat)"
	}
	s.send(cmd)
	line := s.readLine()
	switch line {
	case "sat":
		s.nSat++
		return Sat
	case "unsat":
		s.nUnsat++
		return Unsat
	case "unknown", "timeout":
		s.nUnknown++
		return Unknown
	}
	s.nErr++
	fmt.Fprintf(os.Stderr, "solver: unexpected answer %q\n", line)
	return Unknown
}

func (s *Solver) readLine() string {
	for {
		line, err := s.out.ReadString('\n')
		if err != nil {
			return "(error \"solver died: " + err.Error() + "\")"
		}
		line = strings.TrimSpace(line)
		if line == "" {
			continue
		}
		return line
	}
}

// Values returns the model values of the given terms after a Sat answer.
func (s *Solver) Values(ts []*Term) (map[int]uint64, error) {
	t0 := time.Now()
	defer func() { s.wallValues += time.Since(t0) }()
	res := map[int]uint64{}
	var q []*Term
	for _, t := range ts {
		if t.IsConst() {
			res[t.ID] = t.C
			continue
		}
		s.define(t)
		q = append(q, t)
	}
	// chunk to keep lines moderate
	for len(q) > 0 {
		n := len(q)
		if n > 200 {
			n = 200
		}
		chunk := q[:n]
		q = q[n:]
		var sb strings.Builder
		sb.WriteString("(get-value (")
		for i, t := range chunk {
			if i > 0 {
				sb.WriteByte(' ')
			}
			sb.WriteString(t.ref())
		}
		sb.WriteString("))")
		s.send(sb.String())
		txt, err := s.readSexp()
		if err != nil {
			return nil, err
		}
		vals, err := parseValues(txt)
		if err != nil {
			return nil, fmt.Errorf("%v in %q", err, txt)
		}
		if len(vals) != len(chunk) {
			return nil, fmt.Errorf("get-value: got %d values for %d terms: %q", len(vals), len(chunk), txt)
		}
		for i, t := range chunk {
			res[t.ID] = vals[i]
		}
	}
	return res, nil
}

// readSexp reads one balanced s-expression from the solver.
func (s *Solver) readSexp() (string, error) {
	var sb strings.Builder
	depth := 0
	started := false
	inBar := false
	for {
		c, err := s.out.ReadByte()
		if err != nil {
			return "", err
		}
		if !started {
			if c == ' ' || c == '\n' || c == '\r' || c == '\t' {
				continue
			}
			started = true
		}
		sb.WriteByte(c)
		if c == '|' {
			inBar = !inBar
		}
		if inBar {
			continue
		}
		if c == '(' {
			depth++
		} else if c == ')' {
			depth--
			if depth == 0 {
				break
			}
		} else if depth == 0 && (c == '\n') {
			break
		}
	}
	txt := sb.String()
	if strings.HasPrefix(strings.TrimSpace(txt), "(error") {
		s.nErr++
		return "", fmt.Errorf("solver error: %s", txt)
	}
	return txt, nil
}

// parseValues parses "((t1 #x..) (t2 true) ...)" into the value list, in order.
func parseValues(txt string) ([]uint64, error) {
	var vals []uint64
	i := 0
	n := len(txt)
	skipWS := func() {
		for i < n && (txt[i] == ' ' || txt[i] == '\n' || txt[i] == '\t' || txt[i] == '\r') {
			i++
		}
	}
	skipWS()
	if i >= n || txt[i] != '(' {
		return nil, fmt.Errorf("parse: expected (")
	}
	i++
	for {
		skipWS()
		if i >= n {
			return nil, fmt.Errorf("parse: unexpected end")
		}
		if txt[i] == ')' {
			break
		}
		if txt[i] != '(' {
			return nil, fmt.Errorf("parse: expected pair")
		}
		i++
		skipWS()
		// skip the term reference (symbol, |quoted| or (not x))
		if txt[i] == '|' {
			i++
			for i < n && txt[i] != '|' {
				i++
			}
			i++
		} else if txt[i] == '(' {
			d := 0
			for i < n {
				if txt[i] == '(' {
					d++
				} else if txt[i] == ')' {
					d--
					if d == 0 {
						i++
						break
					}
				}
				i++
			}
		} else {
			for i < n && txt[i] != ' ' && txt[i] != '\n' {
				i++
			}
		}
		skipWS()
		// value
		start := i
		if txt[i] == '(' {
			// (_ bvN w)
			d := 0
			for i < n {
				if txt[i] == '(' {
					d++
				} else if txt[i] == ')' {
					d--
					if d == 0 {
						i++
						break
					}
				}
				i++
			}
		} else {
			for i < n && txt[i] != ')' && txt[i] != ' ' && txt[i] != '\n' {
				i++
			}
		}
		tok := txt[start:i]
		v, err := parseVal(tok)
		if err != nil {
			return nil, err
		}
		vals = append(vals, v)
		skipWS()
		if i >= n || txt[i] != ')' {
			return nil, fmt.Errorf("parse: expected ) after value")
		}
		i++
	}
	return vals, nil
}

func parseVal(tok string) (uint64, error) {
	switch {
	case tok == "true":
		return 1, nil
	case tok == "false":
		return 0, nil
	case strings.HasPrefix(tok, "#x"):
		return strconv.ParseUint(tok[2:], 16, 64)
	case strings.HasPrefix(tok, "#b"):
		return strconv.ParseUint(tok[2:], 2, 64)
	case strings.HasPrefix(tok, "(_ bv"):
		f := strings.Fields(tok[5:])
		return strconv.ParseUint(f[0], 10, 64)
	}
	return 0, fmt.Errorf("parse: bad value %q", tok)
}

func (s *Solver) Stats() map[string]interface{} {
	return map[string]interface{}{
		"solver": s.name, "sat": s.nSat, "unsat": s.nUnsat, "unknown": s.nUnknown,
		"errors": s.nErr, "solver_s": math.Round(s.wall.Seconds()*1000) / 1000,
		"model_s": math.Round(s.wallValues.Seconds()*1000) / 1000,
	}
}

func sortedKeys(m map[string]*Term) []string {
	ks := make([]string, 0, len(m))
	for k := range m {
		ks = append(ks, k)
	}
	sort.Strings(ks)
	return ks
}
