package main

import (
	"fmt"
	"go/token"
	"go/types"
	"math"
	"unicode/utf8"

	"golang.org/x/tools/go/ssa"
)

func (m *Machine) unop(fr *frame, instr *ssa.UnOp, x value) value {
	switch instr.Op {
	case token.ARROW:
		c, _ := x.(*chanV)
		v, ok := m.chanRecv(c)
		if !instr.CommaOk {
			return v
		}
		return tuple{v, mkBool(ok)}
	case token.MUL:
		p := m.ptr(x)
		return load(p)
	case token.SUB:
		t := m.asTerm(x)
		if b, ok := instr.X.Type().Underlying().(*types.Basic); ok && isFloat(b) {
			if t.IsConst() {
				if t.W == 32 {
					return mkConst(32, f32bits(-f32frombits(uint32(t.C))))
				}
				return mkConst(64, f64bits(-f64frombits(t.C)))
			}
			// flip sign bit
			return tBin("bvxor", t, mkConst(t.W, uint64(1)<<uint(t.W-1)))
		}
		return tNeg(t)
	case token.NOT:
		return tNot(m.asTerm(x))
	case token.XOR:
		return tBvNot(m.asTerm(x))
	}
	panic(fmt.Sprintf("invalid unary op %s", instr.Op))
}

func (m *Machine) floatCmp(op string, b *types.Basic, x, y *Term) *Term {
	if x.IsConst() && y.IsConst() {
		var fx, fy float64
		if x.W == 32 {
			fx, fy = float64(f32frombits(uint32(x.C))), float64(f32frombits(uint32(y.C)))
		} else {
			fx, fy = f64frombits(x.C), f64frombits(y.C)
		}
		switch op {
		case "==":
			return mkBool(fx == fy)
		case "!=":
			return mkBool(fx != fy)
		case "<":
			return mkBool(fx < fy)
		case "<=":
			return mkBool(fx <= fy)
		case ">":
			return mkBool(fx > fy)
		case ">=":
			return mkBool(fx >= fy)
		}
	}
	// exact IEEE-754 comparison over the bit patterns (no rounding is involved in comparing)
	w := x.W
	mbits := 52
	if w == 32 {
		mbits = 23
	}
	absMask := mkConst(w, (uint64(1)<<uint(w-1))-1)
	expMask := mkConst(w, ((uint64(1)<<uint(w-1))-1)&^((uint64(1)<<uint(mbits))-1))
	ax, ay := tBin("bvand", x, absMask), tBin("bvand", y, absMask)
	nan := tOr(tCmp("bvugt", ax, expMask), tCmp("bvugt", ay, expMask))
	zero := mkConst(w, 0)
	bothZero := tAnd(tEq(ax, zero), tEq(ay, zero))
	sx, sy := tCmp("bvugt", x, absMask), tCmp("bvugt", y, absMask)
	eq := tAnd(tNot(nan), tOr(tEq(x, y), bothZero))
	lt := func(sx, sy, ax, ay *Term) *Term {
		// x < y for non-NaN operands
		neg := tAnd(sx, tNot(sy))       // x negative, y positive: true unless both are zeros
		pos := tAnd(tNot(sx), tNot(sy)) // both positive: by magnitude
		both := tAnd(sx, sy)            // both negative: reversed magnitude
		return tAnd(tNot(nan), tOr(tAnd(neg, tNot(bothZero)), tOr(tAnd(pos, tCmp("bvult", ax, ay)), tAnd(both, tCmp("bvugt", ax, ay)))))
	}
	switch op {
	case "==":
		return eq
	case "!=":
		return tNot(eq)
	case "<":
		return lt(sx, sy, ax, ay)
	case "<=":
		return tOr(lt(sx, sy, ax, ay), eq)
	case ">":
		return lt(sy, sx, ay, ax)
	case ">=":
		return tOr(lt(sy, sx, ay, ax), eq)
	}
	m.abort("floating-point comparison %s is not encoded", op)
	return nil
}

func (m *Machine) binop(op token.Token, t types.Type, x, y value) value {
	// string ops
	if xs, ok := x.(strV); ok {
		ys := y.(strV)
		switch op {
		case token.ADD:
			if xs.sym == nil && ys.sym == nil {
				return strV{s: xs.s + ys.s, taint: xs.taint || ys.taint}
			}
			return strFromTerms(append(append([]*Term(nil), xs.Bytes()...), ys.Bytes()...), xs.taint || ys.taint)
		case token.EQL:
			return m.strEq(xs, ys)
		case token.NEQ:
			return tNot(m.strEq(xs, ys))
		case token.LSS:
			return m.strLess(xs, ys)
		case token.GTR:
			return m.strLess(ys, xs)
		case token.LEQ:
			return tNot(m.strLess(ys, xs))
		case token.GEQ:
			return tNot(m.strLess(xs, ys))
		}
		m.abort("string binop %s", op)
	}
	switch op {
	case token.EQL:
		return m.equalsT(t, x, y)
	case token.NEQ:
		return tNot(m.equalsT(t, x, y))
	}
	a, ok1 := x.(*Term)
	b, ok2 := y.(*Term)
	if !ok1 || !ok2 {
		if o, ok := x.(opaqueV); ok {
			m.abort("arithmetic on opaque value from %s", o.src)
		}
		if o, ok := y.(opaqueV); ok {
			m.abort("arithmetic on opaque value from %s", o.src)
		}
		m.abort("binop %s on %T,%T", op, x, y)
	}
	bt, _ := t.Underlying().(*types.Basic)
	if bt != nil && bt.Info()&types.IsUntyped != 0 {
		bt = types.Default(bt).(*types.Basic)
	}
	if bt != nil && isFloat(bt) {
		return m.floatBinop(op, bt, a, b)
	}
	if a.W == 0 {
		// booleans
		switch op {
		case token.AND, token.LAND:
			return tAnd(a, b)
		case token.OR, token.LOR:
			return tOr(a, b)
		}
		m.abort("bool binop %s", op)
	}
	signed := bt != nil && isSigned(bt)
	switch op {
	case token.ADD:
		return tBin("bvadd", a, b)
	case token.SUB:
		return tBin("bvsub", a, b)
	case token.MUL:
		return tBin("bvmul", a, b)
	case token.QUO, token.REM:
		if b.IsConst() {
			if b.C == 0 {
				m.targetPanic("runtime error: integer divide by zero")
			}
		} else if m.branch(tEq(b, mkConst(b.W, 0))) {
			m.targetPanic("runtime error: integer divide by zero")
		}
		if op == token.QUO {
			if signed {
				return tBin("bvsdiv", a, b)
			}
			return tBin("bvudiv", a, b)
		}
		if signed {
			return tBin("bvsrem", a, b)
		}
		return tBin("bvurem", a, b)
	case token.AND:
		return tBin("bvand", a, b)
	case token.OR:
		return tBin("bvor", a, b)
	case token.XOR:
		return tBin("bvxor", a, b)
	case token.AND_NOT:
		return tBin("bvand", a, tBvNot(b))
	case token.SHL, token.SHR:
		// shift count has its own (unsigned or signed) type and width
		sh := b
		if sh.W != a.W {
			if sh.W > a.W {
				// saturate: any count >= width gives 0 / sign fill
				big := tCmp("bvuge", sh, mkConst(sh.W, uint64(a.W)))
				sh = tIte(big, mkConst(a.W, uint64(a.W)), tExtract(a.W-1, 0, sh))
			} else {
				sh = tZext(sh, a.W)
			}
		}
		if op == token.SHL {
			return tBin("bvshl", a, sh)
		}
		if signed {
			return tBin("bvashr", a, sh)
		}
		return tBin("bvlshr", a, sh)
	case token.LSS:
		if signed {
			return tCmp("bvslt", a, b)
		}
		return tCmp("bvult", a, b)
	case token.LEQ:
		if signed {
			return tCmp("bvsle", a, b)
		}
		return tCmp("bvule", a, b)
	case token.GTR:
		if signed {
			return tCmp("bvsgt", a, b)
		}
		return tCmp("bvugt", a, b)
	case token.GEQ:
		if signed {
			return tCmp("bvsge", a, b)
		}
		return tCmp("bvuge", a, b)
	}
	m.abort("binop %s not supported", op)
	return nil
}

func (m *Machine) floatBinop(op token.Token, bt *types.Basic, a, b *Term) value {
	switch op {
	case token.LSS:
		return m.floatCmp("<", bt, a, b)
	case token.LEQ:
		return m.floatCmp("<=", bt, a, b)
	case token.GTR:
		return m.floatCmp(">", bt, a, b)
	case token.GEQ:
		return m.floatCmp(">=", bt, a, b)
	}
	if !(a.IsConst() && b.IsConst()) {
		m.abort("floating-point arithmetic %s on symbolic operands is not encoded", op)
	}
	if a.W == 32 {
		x, y := f32frombits(uint32(a.C)), f32frombits(uint32(b.C))
		var r float32
		switch op {
		case token.ADD:
			r = x + y
		case token.SUB:
			r = x - y
		case token.MUL:
			r = x * y
		case token.QUO:
			r = x / y
		default:
			m.abort("float op %s", op)
		}
		return mkConst(32, f32bits(r))
	}
	x, y := f64frombits(a.C), f64frombits(b.C)
	var r float64
	switch op {
	case token.ADD:
		r = x + y
	case token.SUB:
		r = x - y
	case token.MUL:
		r = x * y
	case token.QUO:
		r = x / y
	default:
		m.abort("float op %s", op)
	}
	return mkConst(64, f64bits(r))
}

func (m *Machine) conv(tDst, tSrc types.Type, x value) value {
	utSrc := tSrc.Underlying()
	utDst := tDst.Underlying()
	if o, ok := x.(opaqueV); ok {
		return opaqueV{t: tDst, src: o.src}
	}
	switch utSrc := utSrc.(type) {
	case *types.Pointer:
		if b, ok := utDst.(*types.Basic); ok && b.Kind() == types.UnsafePointer {
			return x
		}
		return x
	case *types.Slice:
		// []byte or []rune -> string
		if _, ok := utDst.(*types.Basic); ok {
			xs, _ := x.([]value)
			ek := utSrc.Elem().Underlying().(*types.Basic).Kind()
			if ek == types.Byte {
				bs := make([]*Term, len(xs))
				for i, e := range xs {
					bs[i] = e.(*Term)
				}
				return strFromTerms(bs, false)
			}
			// runes
			var buf []byte
			for _, e := range xs {
				t := e.(*Term)
				if !t.IsConst() {
					m.abort("[]rune->string on symbolic rune")
				}
				buf = utf8.AppendRune(buf, rune(t.SVal()))
			}
			return mkStr(string(buf))
		}
		// slice -> array (Go 1.20) or slice->slice named conversion
		if at, ok := utDst.(*types.Array); ok {
			xs := x.([]value)
			if int64(len(xs)) < at.Len() {
				m.targetPanic("runtime error: cannot convert slice to array")
			}
			a := make(arrayV, at.Len())
			for i := range a {
				a[i] = copyVal(xs[i])
			}
			return a
		}
		return x
	case *types.Basic:
		if utSrc.Info()&types.IsUntyped != 0 {
			utSrc = types.Default(utSrc).(*types.Basic)
		}
		if utSrc.Kind() == types.UnsafePointer {
			return x
		}
		// string source
		if s, ok := x.(strV); ok {
			switch utDst := utDst.(type) {
			case *types.Slice:
				ek := utDst.Elem().Underlying().(*types.Basic).Kind()
				if ek == types.Byte {
					bs := s.Bytes()
					res := make([]value, len(bs))
					for i, b := range bs {
						res[i] = b
					}
					return res
				}
				cs, ok := s.Concrete()
				if !ok {
					m.abort("string->[]rune on symbolic string")
				}
				var res []value
				for _, r := range cs {
					res = append(res, mkConst(32, uint64(r)))
				}
				if res == nil {
					res = []value{}
				}
				return res
			case *types.Basic:
				return s
			}
			m.abort("conversion of string to %v", tDst)
		}
		t := m.asTerm(x)
		dst, ok := utDst.(*types.Basic)
		if !ok {
			m.abort("conversion %v -> %v", tSrc, tDst)
		}
		// integer -> string
		if utSrc.Info()&types.IsInteger != 0 && dst.Kind() == types.String {
			if !t.IsConst() {
				m.abort("integer->string conversion on symbolic value")
			}
			return mkStr(string(rune(t.SVal())))
		}
		dw := basicWidth(dst)
		switch {
		case utSrc.Info()&types.IsInteger != 0 && dst.Info()&types.IsInteger != 0:
			if dw <= t.W {
				return tExtract(dw-1, 0, t)
			}
			if isSigned(utSrc) {
				return tSext(t, dw)
			}
			return tZext(t, dw)
		case utSrc.Info()&types.IsInteger != 0 && isFloat(dst):
			if !t.IsConst() {
				m.abort("int->float conversion on symbolic value")
			}
			var f float64
			if isSigned(utSrc) {
				f = float64(t.SVal())
			} else {
				f = float64(t.C)
			}
			if dw == 32 {
				return mkConst(32, f32bits(float32(f)))
			}
			return mkConst(64, f64bits(f))
		case isFloat(utSrc) && isFloat(dst):
			if t.W == dw {
				return t
			}
			if t.W == 32 && dw == 64 {
				if !t.IsConst() {
					m.needFP = true
				}
				return tF32toF64(t)
			}
			return m.f64to32(t)
		case isFloat(utSrc) && dst.Info()&types.IsInteger != 0:
			if !t.IsConst() {
				m.abort("float->int conversion on symbolic value")
			}
			var f float64
			if t.W == 32 {
				f = float64(f32frombits(uint32(t.C)))
			} else {
				f = f64frombits(t.C)
			}
			if isSigned(dst) {
				return mkConst(dw, uint64(int64(f)))
			}
			return mkConst(dw, uint64(f))
		case utSrc.Kind() == types.Bool && dst.Kind() == types.Bool:
			return t
		}
	case *types.Array, *types.Struct, *types.Map, *types.Chan, *types.Signature, *types.Interface:
		return x
	}
	m.abort("unsupported conversion: %s -> %s (%T)", tSrc, tDst, x)
	return nil
}

var _ = math.MaxInt

// ---- maps ----

func (m *Machine) keyEq(mp *mapV, a, b value) *Term {
	return m.equalsT(mp.keyT, a, b)
}

func (m *Machine) mapFind(mp *mapV, key value) *mapEnt {
	for _, e := range mp.ents {
		eq := m.keyEq(mp, e.k, key)
		if m.branch(eq) {
			return e
		}
	}
	return nil
}

func (m *Machine) mapInsert(mp *mapV, key, v value) {
	if e := m.mapFind(mp, key); e != nil {
		e.v = v
		return
	}
	mp.ents = append(mp.ents, &mapEnt{k: copyVal(key), v: v})
}

func (m *Machine) mapDelete(mp *mapV, key value) {
	for i, e := range mp.ents {
		if m.branch(m.keyEq(mp, e.k, key)) {
			mp.ents = append(mp.ents[:i:i], mp.ents[i+1:]...)
			return
		}
	}
}

func (m *Machine) lookup(instr *ssa.Lookup, x, idx value) value {
	switch x := x.(type) {
	case *mapV:
		var v value
		ok := false
		if x != nil {
			if e := m.mapFind(x, idx); e != nil {
				v = copyVal(e.v)
				ok = true
			}
		}
		if !ok {
			v = zero(instr.X.Type().Underlying().(*types.Map).Elem())
		}
		if instr.CommaOk {
			return tuple{v, mkBool(ok)}
		}
		return v
	case strV:
		i := m.index(m.asTerm(idx), x.Len(), instr.Index.Type())
		return x.At(i)
	case opaqueV:
		m.abort("lookup in opaque map from %s", x.src)
	}
	panic(fmt.Sprintf("unexpected x type in Lookup: %T", x))
}

// ---- range iterators ----

type iter interface {
	next(m *Machine) tuple
}

type mapIter struct {
	ents []*mapEnt
	mp   *mapV
	i    int
}

func (it *mapIter) next(m *Machine) tuple {
	m.mapRead(it.mp)
	for it.i < len(it.ents) {
		e := it.ents[it.i]
		it.i++
		// skip entries deleted during iteration
		live := false
		for _, c := range it.mp.ents {
			if c == e {
				live = true
				break
			}
		}
		if live {
			return tuple{tTrue, copyVal(e.k), copyVal(e.v)}
		}
	}
	return tuple{tFalse, nil, nil}
}

type strIter struct {
	s   string
	pos int
}

func (it *strIter) next(m *Machine) tuple {
	if it.pos >= len(it.s) {
		return tuple{tFalse, mkConst(64, 0), mkConst(32, 0)}
	}
	r, sz := utf8.DecodeRuneInString(it.s[it.pos:])
	p := it.pos
	it.pos += sz
	return tuple{tTrue, mkConst(64, uint64(p)), mkConst(32, uint64(r))}
}

func (m *Machine) rangeIter(x value, t types.Type) iter {
	switch x := x.(type) {
	case *mapV:
		if x == nil {
			return &mapIter{mp: &mapV{}}
		}
		ents := append([]*mapEnt(nil), x.ents...)
		if m.mapOrderNondet && len(ents) > 1 && len(ents) <= 3 {
			// explicit symbolic permutation of iteration order
			perm := []*mapEnt{}
			rest := ents
			for len(rest) > 0 {
				k := m.choose("choose", len(rest))
				perm = append(perm, rest[k])
				rest = append(append([]*mapEnt(nil), rest[:k]...), rest[k+1:]...)
			}
			ents = perm
		}
		return &mapIter{ents: ents, mp: x}
	case strV:
		cs, ok := x.Concrete()
		if !ok {
			// iterate bytes as runes only when all < 0x80 is implied; otherwise give up
			m.abort("range over symbolic string")
		}
		return &strIter{s: cs}
	}
	panic(fmt.Sprintf("cannot range over %T", x))
}
