package main

// Environment models: which packages are interpreted from their real SSA, which calls are
// modelled natively, and which are opaque. Every entry here is part of the trusted base.

import (
	"fmt"
	"go/types"
	"math"
	"net"
	"os"
	"path/filepath"
	"reflect"
	"regexp"
	"sort"
	"strconv"
	"strings"
	"time"
	"unicode"

	"golang.org/x/tools/go/ssa"
)

type externalFn func(m *Machine, caller *frame, fn *ssa.Function, args []value) value

const symPkgSuffix = "/internal/zzverif/sym"

// interpreted std packages (pure Go, cheap initialisers)
var interpStd = map[string]bool{
	"errors": true, "io": true, "bytes": true, "encoding/binary": true, "sort": true,
	"unicode/utf8": true, "math/bits": true, "context": true, "slices": true, "cmp": true,
	"internal/itoa": true, "math": true, "container/list": true, "internal/byteorder": true,
	"bufio": true,
}

func pkgPathOf(fn *ssa.Function) string {
	if fn.Pkg != nil {
		return fn.Pkg.Pkg.Path()
	}
	// synthetic wrappers (promoted methods of an embedded interface or struct...): the wrapper belongs to
	// the package of the receiver's type, whatever package declares the method it forwards to
	if fn.Synthetic != "" && fn.Signature.Recv() != nil {
		if n := namedOf(fn.Signature.Recv().Type()); n != nil && n.Obj().Pkg() != nil {
			return n.Obj().Pkg().Path()
		}
	}
	if o := fn.Object(); o != nil && o.Pkg() != nil {
		return o.Pkg().Path()
	}
	if fn.Origin() != nil {
		return pkgPathOf(fn.Origin())
	}
	// wrappers / bound methods: derive from the receiver's or the underlying method's package
	if fn.Signature.Recv() != nil {
		if n := namedOf(fn.Signature.Recv().Type()); n != nil && n.Obj().Pkg() != nil {
			return n.Obj().Pkg().Path()
		}
	}
	return ""
}

func namedOf(t types.Type) *types.Named {
	for {
		switch tt := t.(type) {
		case *types.Pointer:
			t = tt.Elem()
		case *types.Named:
			return tt
		case *types.Alias:
			t = types.Unalias(tt)
		default:
			return nil
		}
	}
}

func isRepoPkg(path string) bool {
	return strings.HasPrefix(path, "github.com/lugu/qiloop")
}

var externCache = map[*ssa.Function]externalFn{}
var externCached = map[*ssa.Function]bool{}

func (m *Machine) external(fn *ssa.Function) externalFn {
	if externCached[fn] {
		return externCache[fn]
	}
	e := m.externalUncached(fn)
	externCached[fn] = true
	externCache[fn] = e
	return e
}

func (m *Machine) externalUncached(fn *ssa.Function) externalFn {
	path := pkgPathOf(fn)
	name := fn.String()
	if strings.HasSuffix(path, symPkgSuffix) {
		short := fn.Name()
		if f, ok := symIntrinsics[short]; ok {
			return f
		}
		return func(m *Machine, caller *frame, fn *ssa.Function, args []value) value {
			m.abort("unknown sym intrinsic %s", short)
			return nil
		}
	}
	if f, ok := models[name]; ok {
		return f
	}
	if fn.Synthetic == "package initializer" {
		return nil
	}
	// calls to another package's init from an initializer are skipped: packages are initialised lazily
	if fn.Name() == "init" && fn.Signature.Recv() == nil && fn.Signature.Params().Len() == 0 && fn.Parent() == nil && fn.Synthetic != "" {
		return nil
	}
	if isRepoPkg(path) {
		return nil
	}
	if interpStd[path] {
		if fn.Blocks == nil {
			return opaqueStub(name)
		}
		return nil
	}
	if path == "net" && fn.Blocks != nil && fn.Prog != nil {
		// net.Pipe is pure Go (channels, a mutex, a once): its file is interpreted from the real SSA so that
		// in-process connections (server.Client, local sessions) have their real, unbuffered semantics
		if strings.HasSuffix(fn.Prog.Fset.Position(fn.Pos()).Filename, "/net/pipe.go") {
			return nil
		}
	}
	if path == "" {
		// synthetic wrapper without package (e.g. bound method closures): interpret
		if fn.Blocks != nil {
			return nil
		}
	}
	if name == "strings.TrimSpace" {
		native := bridgeCall(name, nativeBridge[name])
		return func(m *Machine, caller *frame, fn *ssa.Function, args []value) value {
			if sv, ok := args[0].(strV); ok && sv.sym != nil {
				return m.trimSpaceSym(sv)
			}
			return native(m, caller, fn, args)
		}
	}
	if name == "strings.ToValidUTF8" && fn.Blocks != nil {
		// interpreted from its real source (strings.Builder is modelled, unicode/utf8 is interpreted): invalid
		// byte sequences in a symbolic string are the solver's to find
		return nil
	}
	switch name {
	case "strings.TrimRight", "strings.TrimLeft", "strings.Trim":
		native := bridgeCall(name, nativeBridge[name])
		left, right := name != "strings.TrimRight", name != "strings.TrimLeft"
		return func(m *Machine, caller *frame, fn *ssa.Function, args []value) value {
			if sv, ok := args[0].(strV); ok && sv.sym != nil {
				if cs, ok2 := args[1].(strV); ok2 {
					if cut, conc := cs.Concrete(); conc {
						return m.trimCutsetSym(sv, cut, left, right)
					}
				}
			}
			return native(m, caller, fn, args)
		}
	}
	if nf, ok := nativeBridge[name]; ok {
		return bridgeCall(name, nf)
	}
	switch path {
	case "log":
		if strings.Contains(name, "Fatal") || strings.Contains(name, "Panic") {
			return func(m *Machine, caller *frame, fn *ssa.Function, args []value) value {
				m.targetPanic("log.Fatal/Panic called")
				return nil
			}
		}
		return func(m *Machine, caller *frame, fn *ssa.Function, args []value) value {
			return zeroResults(fn)
		}
	case "reflect":
		return reflectModel(name)
	}
	return opaqueStub(name)
}

// strings.Builder: the contents live in a side table keyed by the builder's address (a Builder must not be
// copied after first use — the library panics on that; the model does not check it). Taint is kept.
type builderState struct {
	bs    []*Term
	taint bool
}

func (m *Machine) builderOf(p value) *builderState {
	ptr, ok := p.(*value)
	if !ok || ptr == nil {
		m.targetPanic("runtime error: invalid memory address or nil pointer dereference (strings.Builder)")
	}
	if m.builders == nil {
		m.builders = map[*value]*builderState{}
	}
	b := m.builders[ptr]
	if b == nil {
		b = &builderState{}
		m.builders[ptr] = b
	}
	return b
}

func init() {
	builderModels = func() {
		models["(*strings.Builder).WriteString"] = func(m *Machine, c *frame, fn *ssa.Function, a []value) value {
			b, sv := m.builderOf(a[0]), a[1].(strV)
			b.bs = append(b.bs, sv.Bytes()...)
			b.taint = b.taint || sv.taint
			return tuple{mkConst(64, uint64(sv.Len())), ifaceV{}}
		}
		models["(*strings.Builder).WriteByte"] = func(m *Machine, c *frame, fn *ssa.Function, a []value) value {
			b := m.builderOf(a[0])
			b.bs = append(b.bs, m.asTerm(a[1]))
			return ifaceV{}
		}
		models["(*strings.Builder).WriteRune"] = func(m *Machine, c *frame, fn *ssa.Function, a []value) value {
			b, r := m.builderOf(a[0]), m.asTerm(a[1])
			if !r.IsConst() {
				m.abort("strings.Builder.WriteRune of a symbolic rune")
			}
			enc := string(rune(r.SVal()))
			b.bs = append(b.bs, mkStr(enc).Bytes()...)
			return tuple{mkConst(64, uint64(len(enc))), ifaceV{}}
		}
		models["(*strings.Builder).Write"] = func(m *Machine, c *frame, fn *ssa.Function, a []value) value {
			b := m.builderOf(a[0])
			sl, _ := a[1].([]value)
			for _, e := range sl {
				b.bs = append(b.bs, m.asTerm(e))
			}
			return tuple{mkConst(64, uint64(len(sl))), ifaceV{}}
		}
		models["(*strings.Builder).String"] = func(m *Machine, c *frame, fn *ssa.Function, a []value) value {
			b := m.builderOf(a[0])
			return strFromTerms(append([]*Term(nil), b.bs...), b.taint)
		}
		models["(*strings.Builder).Len"] = func(m *Machine, c *frame, fn *ssa.Function, a []value) value {
			return mkConst(64, uint64(len(m.builderOf(a[0]).bs)))
		}
		models["(*strings.Builder).Reset"] = func(m *Machine, c *frame, fn *ssa.Function, a []value) value {
			b := m.builderOf(a[0])
			b.bs, b.taint = nil, false
			return nil
		}
		models["(*strings.Builder).Cap"] = func(m *Machine, c *frame, fn *ssa.Function, a []value) value {
			return mkConst(64, uint64(len(m.builderOf(a[0]).bs)))
		}
		models["(*strings.Builder).Grow"] = func(m *Machine, c *frame, fn *ssa.Function, a []value) value { return nil }
	}
}

var builderModels func()

// sync.Cond: Wait releases the Locker, parks the goroutine until a Signal (which wakes the longest-waiting
// goroutine, as the runtime's notify list does) or a Broadcast (all of them), then takes the Locker again.
// No spurious wake-ups. The Locker must be a *sync.Mutex or a *sync.RWMutex (its write side).
type condTicket struct{ woken bool }

func (m *Machine) condLocker(p value) (lock, unlock func()) {
	ptr, ok := p.(*value)
	if !ok || ptr == nil {
		m.targetPanic("runtime error: invalid memory address or nil pointer dereference (sync.Cond)")
	}
	st, ok := (*ptr).(structV)
	if !ok {
		m.abort("sync.Cond of unexpected shape %T", *ptr)
	}
	for _, f := range st {
		if iv, isI := f.(ifaceV); isI && iv.t != nil {
			if mp, isP := iv.v.(*value); isP {
				return func() { m.mutexLock(mp) }, func() { m.mutexUnlock(mp) }
			}
		}
	}
	m.abort("sync.Cond: Locker is not a *sync.Mutex / *sync.RWMutex")
	return nil, nil
}

func init() {
	condModels = func() {
		models["sync.NewCond"] = func(m *Machine, c *frame, fn *ssa.Function, a []value) value {
			pt := fn.Signature.Results().At(0).Type().(*types.Pointer)
			st := zero(pt.Elem()).(structV)
			sty := pt.Elem().Underlying().(*types.Struct)
			for i := 0; i < sty.NumFields(); i++ {
				if sty.Field(i).Name() == "L" {
					st[i] = a[0]
				}
			}
			cell := new(value)
			*cell = st
			return cell
		}
		models["(*sync.Cond).Wait"] = func(m *Machine, c *frame, fn *ssa.Function, a []value) value {
			lock, unlock := m.condLocker(a[0])
			ptr := a[0].(*value)
			if m.condQ == nil {
				m.condQ = map[*value][]*condTicket{}
			}
			t := &condTicket{}
			m.condQ[ptr] = append(m.condQ[ptr], t)
			unlock()
			m.block(func() bool { return t.woken }, "Cond.Wait")
			m.hbAcquire(ptr, "cond")
			lock()
			return nil
		}
		wake := func(all bool) externalFn {
			return func(m *Machine, c *frame, fn *ssa.Function, a []value) value {
				ptr, ok := a[0].(*value)
				if !ok || ptr == nil {
					m.targetPanic("runtime error: invalid memory address or nil pointer dereference (sync.Cond)")
				}
				m.hbRelease(ptr, "cond")
				q := m.condQ[ptr]
				for len(q) > 0 {
					q[0].woken = true
					q = q[1:]
					if !all {
						break
					}
				}
				if m.condQ != nil {
					m.condQ[ptr] = q
				}
				m.preemptPoint()
				return nil
			}
		}
		models["(*sync.Cond).Signal"] = wake(false)
		models["(*sync.Cond).Broadcast"] = wake(true)
	}
}

var condModels func()

func opaqueStub(name string) externalFn {
	return func(m *Machine, caller *frame, fn *ssa.Function, args []value) value {
		m.opaqueCalls[name]++
		return m.opaqueResult(fn.Signature.Results(), name)
	}
}

// ---- lazy package initialisation ----

func (m *Machine) ensureInit(p *ssa.Package) {
	if p == nil || m.initDone[p] {
		return
	}
	m.initDone[p] = true
	path := p.Pkg.Path()
	if !(isRepoPkg(path) || interpStd[path]) {
		return
	}
	if strings.HasSuffix(path, symPkgSuffix) {
		return
	}
	init := p.Func("init")
	if init == nil || init.Blocks == nil {
		return
	}
	// run in a fresh frame; dependency init calls are skipped (see callInit)
	m.inInit++
	defer func() { m.inInit-- }()
	m.callSSA(nil, 0, init, nil, nil)
}

func (m *Machine) initPackagesFor(fn *ssa.Function) {
	if fn.Pkg != nil {
		m.ensureInit(fn.Pkg)
	}
}

// ---- models ----

var models map[string]externalFn
var symIntrinsics map[string]externalFn

func init() {
	models = map[string]externalFn{
		// sync
		"(*sync.Mutex).Lock": func(m *Machine, c *frame, fn *ssa.Function, a []value) value { m.mutexLock(a[0].(*value)); return nil },
		"(*sync.Mutex).Unlock": func(m *Machine, c *frame, fn *ssa.Function, a []value) value {
			m.mutexUnlock(a[0].(*value))
			return nil
		},
		"(*sync.Mutex).TryLock": func(m *Machine, c *frame, fn *ssa.Function, a []value) value {
			return mkBool(m.mutexTryLock(a[0].(*value)))
		},
		"(*sync.RWMutex).Lock": func(m *Machine, c *frame, fn *ssa.Function, a []value) value { m.mutexLock(a[0].(*value)); return nil },
		"(*sync.RWMutex).Unlock": func(m *Machine, c *frame, fn *ssa.Function, a []value) value {
			m.mutexUnlock(a[0].(*value))
			return nil
		},
		"(*sync.RWMutex).RLock": func(m *Machine, c *frame, fn *ssa.Function, a []value) value { m.mutexRLock(a[0].(*value)); return nil },
		"(*sync.RWMutex).RUnlock": func(m *Machine, c *frame, fn *ssa.Function, a []value) value {
			m.mutexRUnlock(a[0].(*value))
			return nil
		},
		"(*sync.WaitGroup).Add": func(m *Machine, c *frame, fn *ssa.Function, a []value) value {
			s := m.wgOf(a[0].(*value))
			s.n += m.asTerm(a[1]).SVal()
			if s.n < 0 {
				m.targetPanic("sync: negative WaitGroup counter")
			}
			return nil
		},
		"(*sync.WaitGroup).Done": func(m *Machine, c *frame, fn *ssa.Function, a []value) value {
			s := m.wgOf(a[0].(*value))
			s.n--
			if s.n < 0 {
				m.targetPanic("sync: negative WaitGroup counter")
			}
			m.hbRelease(s, "wg")
			m.preemptPoint()
			return nil
		},
		"(*sync.WaitGroup).Wait": func(m *Machine, c *frame, fn *ssa.Function, a []value) value {
			s := m.wgOf(a[0].(*value))
			m.block(func() bool { return s.n == 0 }, "WaitGroup.Wait")
			m.hbAcquire(s, "wg")
			return nil
		},
		"(*sync.Once).Do": func(m *Machine, c *frame, fn *ssa.Function, a []value) value {
			p := a[0].(*value)
			s := m.onces[p]
			if s == nil {
				s = &onceState{}
				m.onces[p] = s
			}
			if s.done {
				m.hbAcquire(s, "once")
				return nil
			}
			if s.running {
				m.block(func() bool { return s.done }, "Once.Do")
				m.hbAcquire(s, "once")
				return nil
			}
			s.running = true
			m.call(c, 0, a[1], nil)
			s.done = true
			m.hbRelease(s, "once")
			return nil
		},
		// sync.Pool: Get returns the most recently Put object if any (worst case for aliasing), else New()
		"(*sync.Pool).Get": func(m *Machine, c *frame, fn *ssa.Function, a []value) value {
			p := a[0].(*value)
			m.hbAcquire(p, "pool")
			if l := m.pools[p]; len(l) > 0 {
				v := l[len(l)-1]
				m.pools[p] = l[:len(l)-1]
				return v
			}
			// field New is the last field of sync.Pool
			st := (*p).(structV)
			newFn := st[len(st)-1]
			switch f := newFn.(type) {
			case *ssa.Function:
				if f == nil {
					return ifaceV{}
				}
			}
			return m.call(c, 0, newFn, nil)
		},
		"(*sync.Pool).Put": func(m *Machine, c *frame, fn *ssa.Function, a []value) value {
			p := a[0].(*value)
			m.hbRelease(p, "pool")
			m.pools[p] = append(m.pools[p], a[1])
			return nil
		},
		// net.Buffers.WriteTo on a writer that is not a net.Conn: exactly the library's loop (one Write per
		// buffer, the count added up, NO retry after a short write without error, consume(n)).
		"(*net.Buffers).WriteTo": func(m *Machine, c *frame, fn *ssa.Function, a []value) value {
			vp := a[0].(*value)
			bufs, _ := (*vp).([]value)
			iv, ok := a[1].(ifaceV)
			if !ok || iv.t == nil {
				m.targetPanic("runtime error: invalid memory address or nil pointer dereference")
			}
			wt := m.prog.ImportedPackage("io").Type("Writer").Object().Type().Underlying().(*types.Interface)
			f := m.lookupMethod(iv.t, wt.Method(0))
			if f == nil {
				m.abort("net.Buffers.WriteTo: no Write method on %v", iv.t)
			}
			total := int64(0)
			var err value = ifaceV{}
			for _, b := range bufs {
				res := m.call(c, 0, f, []value{iv.v, b}).(tuple)
				nb := m.concretize(m.asTerm(res[0]), "net.Buffers.WriteTo count", 1<<20, true, nil)
				total += nb
				if e, isI := res[1].(ifaceV); isI && e.t != nil {
					err = e
					break
				}
			}
			// consume(total)
			n := total
			for len(bufs) > 0 {
				b0, _ := bufs[0].([]value)
				if int64(len(b0)) > n {
					bufs[0] = b0[n:]
					break
				}
				n -= int64(len(b0))
				bufs = bufs[1:]
			}
			*vp = bufs
			return tuple{mkConst(64, uint64(total)), err}
		},
		// os.Pipe / *os.File on a pipe: an in-engine byte queue. Contract modelled (package os, internal/poll):
		// Write blocks never (unbounded kernel buffer: stated), writes all of b as ONE step that no other
		// Write on the same File interleaves with (the fd write lock is held for the whole call), after a
		// scheduling point; Read blocks until data or the write end is closed, returns at most len(b).
		"os.Pipe": func(m *Machine, c *frame, fn *ssa.Function, a []value) value {
			ft := fn.Signature.Results().At(0).Type().(*types.Pointer).Elem()
			ps := &pipeState{}
			var rc, wc value = zero(ft), zero(ft)
			r, w := &rc, &wc
			m.files[r] = &fileState{p: ps}
			m.files[w] = &fileState{p: ps, w: true}
			return tuple{r, w, ifaceV{}}
		},
		"(*os.File).Write": func(m *Machine, c *frame, fn *ssa.Function, a []value) value {
			f := m.files[a[0].(*value)]
			if f == nil {
				m.abort("os.File.Write on a file that is not a modelled pipe")
			}
			m.preemptPoint()
			if f.closed || !f.w || f.p.rclosed {
				return tuple{mkConst(64, 0), m.newError(mkStr("write: file already closed or broken pipe"))}
			}
			b := a[1].([]value)
			m.hbRelease("ioSync", "io")
			f.p.buf = append(f.p.buf, b...)
			return tuple{mkConst(64, uint64(len(b))), ifaceV{}}
		},
		"(*os.File).Read": func(m *Machine, c *frame, fn *ssa.Function, a []value) value {
			f := m.files[a[0].(*value)]
			if f == nil {
				m.abort("os.File.Read on a file that is not a modelled pipe")
			}
			b := a[1].([]value)
			if len(b) == 0 {
				return tuple{mkConst(64, 0), ifaceV{}}
			}
			m.block(func() bool { return len(f.p.buf) > 0 || f.p.wclosed || f.closed }, "pipe read")
			if f.closed {
				return tuple{mkConst(64, 0), m.newError(mkStr("read: file already closed"))}
			}
			if len(f.p.buf) == 0 {
				eof := m.prog.ImportedPackage("io").Members["EOF"].(*ssa.Global)
				return tuple{mkConst(64, 0), *m.global(eof)}
			}
			n := copy(b, f.p.buf)
			f.p.buf = f.p.buf[n:]
			m.hbAcquire("ioSync", "io")
			return tuple{mkConst(64, uint64(n)), ifaceV{}}
		},
		"(*os.File).Close": func(m *Machine, c *frame, fn *ssa.Function, a []value) value {
			f := m.files[a[0].(*value)]
			if f == nil {
				m.abort("os.File.Close on a file that is not a modelled pipe")
			}
			if f.closed {
				return m.newError(mkStr("close: file already closed"))
			}
			f.closed = true
			if f.w {
				f.p.wclosed = true
			} else {
				f.p.rclosed = true
			}
			return ifaceV{}
		},
		"(*os.File).Fd": func(m *Machine, c *frame, fn *ssa.Function, a []value) value {
			return mkConst(64, 3)
		},
		// sync.Map as an association list with Go's interface-key equality
		"(*sync.Map).Load": func(m *Machine, c *frame, fn *ssa.Function, a []value) value {
			mp := m.syncMapOf(a[0].(*value))
			if e := m.mapFind(mp, a[1]); e != nil {
				return tuple{e.v, tTrue}
			}
			return tuple{ifaceV{}, tFalse}
		},
		"(*sync.Map).Store": func(m *Machine, c *frame, fn *ssa.Function, a []value) value {
			m.mapInsert(m.syncMapOf(a[0].(*value)), a[1], a[2])
			return nil
		},
		"(*sync.Map).LoadOrStore": func(m *Machine, c *frame, fn *ssa.Function, a []value) value {
			mp := m.syncMapOf(a[0].(*value))
			if e := m.mapFind(mp, a[1]); e != nil {
				return tuple{e.v, tTrue}
			}
			m.mapInsert(mp, a[1], a[2])
			return tuple{a[2], tFalse}
		},
		"(*sync.Map).Delete": func(m *Machine, c *frame, fn *ssa.Function, a []value) value {
			m.mapDelete(m.syncMapOf(a[0].(*value)), a[1])
			return nil
		},
		// runtime
		"runtime.SetFinalizer": func(m *Machine, c *frame, fn *ssa.Function, a []value) value { return nil },
		"runtime.KeepAlive":    func(m *Machine, c *frame, fn *ssa.Function, a []value) value { return nil },
		"runtime.Gosched":      func(m *Machine, c *frame, fn *ssa.Function, a []value) value { m.preemptPoint(); return nil },
		"runtime.GC":           func(m *Machine, c *frame, fn *ssa.Function, a []value) value { return nil },
		// time
		// a clock that does not advance: Now() is always the same non-zero instant (wall 0, ext = 1e9 "ns");
		// Add / Sub / Until / comparisons are exact arithmetic on it; timers fire nondeterministically
		"time.Now": func(m *Machine, c *frame, fn *ssa.Function, a []value) value {
			t := zero(fn.Signature.Results().At(0).Type()).(structV)
			t[1] = m.nowTerm()
			return t
		},
		"time.Since": func(m *Machine, c *frame, fn *ssa.Function, a []value) value {
			return tBin("bvsub", m.nowTerm(), timeExt(m, a[0]))
		},
		"time.Until": func(m *Machine, c *frame, fn *ssa.Function, a []value) value {
			return tBin("bvsub", timeExt(m, a[0]), m.nowTerm())
		},
		"(time.Time).Add": func(m *Machine, c *frame, fn *ssa.Function, a []value) value {
			t := copyVal(a[0]).(structV)
			t[1] = tBin("bvadd", timeExt(m, a[0]), m.asTerm(a[1]))
			return t
		},
		"(time.Time).IsZero": func(m *Machine, c *frame, fn *ssa.Function, a []value) value {
			t := a[0].(structV)
			return tAnd(tEq(m.asTerm(t[0]), mkConst(64, 0)), tEq(m.asTerm(t[1]), mkConst(64, 0)))
		},
		"(time.Time).After": func(m *Machine, c *frame, fn *ssa.Function, a []value) value {
			return tCmp("bvsgt", timeExt(m, a[0]), timeExt(m, a[1]))
		},
		"(time.Time).Before": func(m *Machine, c *frame, fn *ssa.Function, a []value) value {
			return tCmp("bvslt", timeExt(m, a[0]), timeExt(m, a[1]))
		},
		"(time.Time).Equal": func(m *Machine, c *frame, fn *ssa.Function, a []value) value {
			return tEq(timeExt(m, a[0]), timeExt(m, a[1]))
		},
		// time.AfterFunc: f runs in its own goroutine once the timer fires (at any time, or when nothing
		// else can run) unless Stop came first
		"time.AfterFunc": func(m *Machine, c *frame, fn *ssa.Function, a []value) value {
			tt := fn.Signature.Results().At(0).Type().(*types.Pointer).Elem()
			var cell value = zero(tt)
			p := &cell
			st := &afterFuncState{}
			m.afterFuncs[p] = st
			f := a[1]
			elemT := tt.Underlying().(*types.Struct).Field(0).Type().Underlying().(*types.Chan).Elem()
			m.spawn("time.AfterFunc", func() {
				ch := m.makeChan(1, elemT)
				ch.timer = true
				ch.buf = append(ch.buf, zero(ch.elemT))
				m.chanRecv(ch)
				if st.stopped {
					return
				}
				st.fired = true
				m.call(nil, 0, f, nil)
			})
			return p
		},
		"time.Sleep": func(m *Machine, c *frame, fn *ssa.Function, a []value) value { m.preemptPoint(); return nil },
		"time.After": func(m *Machine, c *frame, fn *ssa.Function, a []value) value {
			ch := m.makeChan(1, fn.Signature.Results().At(0).Type().Underlying().(*types.Chan).Elem())
			ch.timer = true
			ch.buf = append(ch.buf, zero(ch.elemT))
			return ch
		},
		// time.NewTimer: a timer that may or may not have fired whenever somebody looks (like time.After);
		// Stop reports whether it stopped the timer before it fired and disarms it; Reset re-arms it.
		"time.NewTimer": func(m *Machine, c *frame, fn *ssa.Function, a []value) value {
			tt := fn.Signature.Results().At(0).Type().(*types.Pointer).Elem()
			st := tt.Underlying().(*types.Struct)
			var cell value = zero(tt)
			ch := m.makeChan(1, st.Field(0).Type().Underlying().(*types.Chan).Elem())
			ch.timer = true
			ch.buf = append(ch.buf, zero(ch.elemT))
			cell.(structV)[0] = ch
			return &cell
		},
		"(*time.Timer).Stop": func(m *Machine, c *frame, fn *ssa.Function, a []value) value {
			p := a[0].(*value)
			if st := m.afterFuncs[p]; st != nil {
				if st.fired || st.stopped {
					return tFalse
				}
				st.stopped = true
				return tTrue
			}
			ch, _ := (*p).(structV)[0].(*chanV)
			if ch == nil {
				return tFalse
			}
			if !ch.fired {
				m.maybeFire(ch)
			}
			if ch.fired {
				return tFalse
			}
			ch.timer = false // never fires any more
			ch.buf = nil
			return tTrue
		},
		"(*time.Timer).Reset": func(m *Machine, c *frame, fn *ssa.Function, a []value) value {
			p := a[0].(*value)
			ch, _ := (*p).(structV)[0].(*chanV)
			if ch == nil {
				return tFalse
			}
			was := ch.timer && !ch.fired
			ch.timer, ch.fired = true, false
			ch.buf = []value{zero(ch.elemT)}
			return mkBool(was)
		},
		"(time.Time).Sub": func(m *Machine, c *frame, fn *ssa.Function, a []value) value {
			return tBin("bvsub", timeExt(m, a[0]), timeExt(m, a[1]))
		},
		"(time.Duration).String": func(m *Machine, c *frame, fn *ssa.Function, a []value) value { return mkStr("0s") },
		"(time.Time).Second":     func(m *Machine, c *frame, fn *ssa.Function, a []value) value { return mkConst(64, 0) },
		"(time.Time).Nanosecond": func(m *Machine, c *frame, fn *ssa.Function, a []value) value { return mkConst(64, 0) },
		"(time.Duration).Seconds": func(m *Machine, c *frame, fn *ssa.Function, a []value) value {
			if t := m.asTerm(a[0]); t.IsConst() {
				return mkConst(64, math.Float64bits(time.Duration(t.SVal()).Seconds()))
			}
			return mkConst(64, 0)
		},
		"(time.Time).UnixNano":        func(m *Machine, c *frame, fn *ssa.Function, a []value) value { return mkConst(64, 0) },
		"(time.Time).Unix":            func(m *Machine, c *frame, fn *ssa.Function, a []value) value { return mkConst(64, 0) },
		"(time.Duration).Nanoseconds": func(m *Machine, c *frame, fn *ssa.Function, a []value) value { return a[0] },
		// math/rand: nondeterministic
		"math/rand.Uint32": func(m *Machine, c *frame, fn *ssa.Function, a []value) value {
			// nondeterministic; code that redraws on collision is explored for up to 3 draws per path
			m.randDraws++
			if m.clockTicks {
				// selftest: concrete inputs only — a fixed sequence of distinct pseudo-random values
				return mkConst(32, uint64(uint32(0x2545F491*uint32(m.randDraws)+0x9E3779B9)))
			}
			if m.randDraws > 3 {
				m.outside("more than 3 rand.Uint32 draws on one path")
			}
			return m.fresh("rand.Uint32", 32)
		},
		"math/rand.Uint64": func(m *Machine, c *frame, fn *ssa.Function, a []value) value { return m.fresh("rand.Uint64", 64) },
		"math/rand.Int": func(m *Machine, c *frame, fn *ssa.Function, a []value) value {
			// 63-bit random identifiers: assumed not to collide with earlier draws on the same path
			t := m.fresh("rand.Int", 64)
			cond := tCmp("bvsge", t, mkConst(64, 0))
			for _, p := range m.randInts {
				cond = tAnd(cond, tNot(tEq(t, p)))
			}
			m.randInts = append(m.randInts, t)
			m.assume(cond)
			return t
		},
		"math/rand.Seed": func(m *Machine, c *frame, fn *ssa.Function, a []value) value { return nil },
		// math
		"math.Float32bits":     func(m *Machine, c *frame, fn *ssa.Function, a []value) value { return a[0] },
		"math.Float32frombits": func(m *Machine, c *frame, fn *ssa.Function, a []value) value { return a[0] },
		"math.Float64bits":     func(m *Machine, c *frame, fn *ssa.Function, a []value) value { return a[0] },
		"math.Float64frombits": func(m *Machine, c *frame, fn *ssa.Function, a []value) value { return a[0] },
		// machine/process identity: fixed
		"github.com/lugu/qiloop/bus/util.MachineID": func(m *Machine, c *frame, fn *ssa.Function, a []value) value { return mkStr("verif-machine-id") },
		"github.com/lugu/qiloop/bus/util.NewUnixAddr": func(m *Machine, c *frame, fn *ssa.Function, a []value) value {
			m.labelCnt["unixaddr"]++
			return mkStr(fmt.Sprintf("unix:///tmp/verif-sock-%d", m.labelCnt["unixaddr"]))
		},
		"github.com/lugu/qiloop/bus/util.ProcessID": func(m *Machine, c *frame, fn *ssa.Function, a []value) value { return mkConst(32, 4242) },
		// os
		"os.Getpid": func(m *Machine, c *frame, fn *ssa.Function, a []value) value { return mkConst(64, 4242) },
		"os.Getenv": func(m *Machine, c *frame, fn *ssa.Function, a []value) value { return mkStr("") },
		"os.Hostname": func(m *Machine, c *frame, fn *ssa.Function, a []value) value {
			return tuple{mkStr("verifhost"), ifaceV{}}
		},
		// bytealg / internal helpers used by bytes & strings
		"internal/bytealg.MakeNoZero": func(m *Machine, c *frame, fn *ssa.Function, a []value) value {
			n := m.asTerm(a[0])
			return m.makeSlice(types.Typ[types.Byte], n, n, "bytealg.MakeNoZero")
		},
		"internal/bytealg.IndexByte": func(m *Machine, c *frame, fn *ssa.Function, a []value) value {
			b := a[0].([]value)
			for i, e := range b {
				if m.branch(tEq(e.(*Term), m.asTerm(a[1]))) {
					return mkConst(64, uint64(i))
				}
			}
			return mkConst(64, ^uint64(0))
		},
		"internal/bytealg.IndexByteString": func(m *Machine, c *frame, fn *ssa.Function, a []value) value {
			s := a[0].(strV)
			for i := 0; i < s.Len(); i++ {
				if m.branch(tEq(s.At(i), m.asTerm(a[1]))) {
					return mkConst(64, uint64(i))
				}
			}
			return mkConst(64, ^uint64(0))
		},
		"internal/bytealg.Equal": func(m *Machine, c *frame, fn *ssa.Function, a []value) value {
			return bytesEqTerm(a[0].([]value), a[1].([]value))
		},
		"bytes.Equal": func(m *Machine, c *frame, fn *ssa.Function, a []value) value {
			x, _ := a[0].([]value)
			y, _ := a[1].([]value)
			return bytesEqTerm(x, y)
		},
		"bytes.Compare": func(m *Machine, c *frame, fn *ssa.Function, a []value) value {
			x, _ := a[0].([]value)
			y, _ := a[1].([]value)
			xs, ys := sliceToStr(x), sliceToStr(y)
			lt := m.strLess(xs, ys)
			eq := m.strEq(xs, ys)
			return tIte(eq, mkConst(64, 0), tIte(lt, mkConst(64, ^uint64(0)), mkConst(64, 1)))
		},
		// errors
		"errors.Is": func(m *Machine, c *frame, fn *ssa.Function, a []value) value {
			// the library's loop: compare, ask an Is method, unwrap (single-error chains)
			err := a[0]
			for depth := 0; depth < 32; depth++ {
				iv, ok := err.(ifaceV)
				if !ok || iv.t == nil {
					return tFalse
				}
				if tv, ok := a[1].(ifaceV); ok && tv.t != nil && types.Identical(iv.t, tv.t) && types.Comparable(iv.t) {
					if m.branch(m.equalsT(nil, err, a[1])) {
						return tTrue
					}
				}
				ms := types.NewMethodSet(iv.t)
				find := func(name string) *ssa.Function {
					for i := 0; i < ms.Len(); i++ {
						if f, ok := ms.At(i).Obj().(*types.Func); ok && f.Name() == name {
							return m.prog.LookupMethod(iv.t, f.Pkg(), name)
						}
					}
					return nil
				}
				if f := find("Is"); f != nil && f.Signature.Params().Len() == 2 && f.Signature.Results().Len() == 1 {
					if r, ok := m.call(c, 0, f, []value{iv.v, a[1]}).(*Term); ok && m.branch(r) {
						return tTrue
					}
				}
				f := find("Unwrap")
				if f == nil || f.Signature.Results().Len() != 1 {
					return tFalse
				}
				if _, isSlice := f.Signature.Results().At(0).Type().Underlying().(*types.Slice); isSlice {
					m.abort("errors.Is over a multi-error Unwrap is not modelled")
				}
				err = m.call(c, 0, f, []value{iv.v})
			}
			m.abort("errors.Is: chain longer than 32")
			return nil
		},
		// sort.Slice uses reflect.Swapper natively: insertion sort through the less closure
		"sort.Slice": func(m *Machine, c *frame, fn *ssa.Function, a []value) value {
			m.sortSlice(c, a[0], a[1], false)
			return nil
		},
		"sort.SliceStable": func(m *Machine, c *frame, fn *ssa.Function, a []value) value {
			m.sortSlice(c, a[0], a[1], true)
			return nil
		},
		// fmt
		"fmt.Sprintf": func(m *Machine, c *frame, fn *ssa.Function, a []value) value {
			return m.sprintf(c, a[0].(strV), a[1])
		},
		"fmt.Errorf": func(m *Machine, c *frame, fn *ssa.Function, a []value) value {
			msg := m.sprintf(c, a[0].(strV), a[1])
			// a single %w verb: the result wraps that operand (errors.Is / errors.As / Unwrap see it)
			if fs, ok := a[0].(strV).Concrete(); ok && strings.Count(fs, "%w") == 1 {
				idx := 0
				for i := 0; i+1 < len(fs); i++ {
					if fs[i] != '%' {
						continue
					}
					if fs[i+1] == '%' {
						i++
						continue
					}
					if fs[i+1] == 'w' {
						break
					}
					idx++
				}
				if args, ok := a[1].([]value); ok && idx < len(args) {
					if iv, ok := args[idx].(ifaceV); ok && iv.t != nil {
						if fp := m.prog.ImportedPackage("fmt"); fp != nil && fp.Type("wrapError") != nil {
							t := fp.Type("wrapError").Object().Type()
							var cell value = structV{msg, iv}
							return ifaceV{t: types.NewPointer(t), v: &cell}
						}
					}
				}
			}
			return m.newError(msg)
		},
		"(*fmt.wrapError).Error": func(m *Machine, c *frame, fn *ssa.Function, a []value) value {
			return (*m.ptr(a[0])).(structV)[0]
		},
		"(*fmt.wrapError).Unwrap": func(m *Machine, c *frame, fn *ssa.Function, a []value) value {
			return (*m.ptr(a[0])).(structV)[1]
		},
		"fmt.Sprint": func(m *Machine, c *frame, fn *ssa.Function, a []value) value {
			return m.sprint(c, a[0], false)
		},
		"fmt.Sprintln": func(m *Machine, c *frame, fn *ssa.Function, a []value) value {
			return m.sprint(c, a[0], true)
		},
		"fmt.Printf":  func(m *Machine, c *frame, fn *ssa.Function, a []value) value { return tuple{mkConst(64, 0), ifaceV{}} },
		"fmt.Println": func(m *Machine, c *frame, fn *ssa.Function, a []value) value { return tuple{mkConst(64, 0), ifaceV{}} },
		"fmt.Print":   func(m *Machine, c *frame, fn *ssa.Function, a []value) value { return tuple{mkConst(64, 0), ifaceV{}} },
		"fmt.Fprintf": func(m *Machine, c *frame, fn *ssa.Function, a []value) value {
			s := m.sprintf(c, a[1].(strV), a[2]).(strV)
			return m.writeTo(c, a[0], s)
		},
		"fmt.Fprint": func(m *Machine, c *frame, fn *ssa.Function, a []value) value {
			s := m.sprint(c, a[1], false).(strV)
			return m.writeTo(c, a[0], s)
		},
		"fmt.Fprintln": func(m *Machine, c *frame, fn *ssa.Function, a []value) value {
			s := m.sprint(c, a[1], true).(strV)
			return m.writeTo(c, a[0], s)
		},
		// sync/atomic on plain words
		"sync/atomic.AddUint32":            atomicAdd,
		"sync/atomic.AddInt32":             atomicAdd,
		"sync/atomic.AddUint64":            atomicAdd,
		"sync/atomic.AddInt64":             atomicAdd,
		"sync/atomic.LoadUint32":           atomicLoad,
		"sync/atomic.LoadInt32":            atomicLoad,
		"sync/atomic.LoadUint64":           atomicLoad,
		"sync/atomic.LoadInt64":            atomicLoad,
		"sync/atomic.StoreUint32":          atomicStore,
		"sync/atomic.StoreInt32":           atomicStore,
		"sync/atomic.StoreUint64":          atomicStore,
		"sync/atomic.StoreInt64":           atomicStore,
		"sync/atomic.CompareAndSwapInt32":  atomicCAS,
		"sync/atomic.CompareAndSwapUint32": atomicCAS,
		"sync/atomic.CompareAndSwapInt64":  atomicCAS,
		"sync/atomic.CompareAndSwapUint64": atomicCAS,
		// sync/atomic.Value: one cell per Value, sequentially consistent, every access a scheduling point
		"(*sync/atomic.Value).Load": func(m *Machine, c *frame, fn *ssa.Function, a []value) value {
			m.preemptPoint()
			p := m.ptr(a[0])
			m.hbAcqRel(p)
			if v, ok := m.atomicVals[p]; ok {
				return v
			}
			return ifaceV{}
		},
		"(*sync/atomic.Value).Store": func(m *Machine, c *frame, fn *ssa.Function, a []value) value {
			m.preemptPoint()
			p := m.ptr(a[0])
			m.hbAcqRel(p)
			if iv, ok := a[1].(ifaceV); !ok || iv.t == nil {
				m.targetPanic("sync/atomic: store of nil value into Value")
			}
			m.atomicVals[p] = a[1]
			return nil
		},
		"(*sync/atomic.Value).Swap": func(m *Machine, c *frame, fn *ssa.Function, a []value) value {
			m.preemptPoint()
			p := m.ptr(a[0])
			m.hbAcqRel(p)
			old, ok := m.atomicVals[p]
			if !ok {
				old = ifaceV{}
			}
			m.atomicVals[p] = a[1]
			return old
		},
	}
	initSymIntrinsics()
	builderModels()
	condModels()
	// regexp on concrete arguments: native (used by signature.ValidName/CleanName)
	models["regexp.MustCompile"] = func(m *Machine, c *frame, fn *ssa.Function, a []value) value {
		p, ok := a[0].(strV).Concrete()
		if !ok {
			m.abort("regexp.MustCompile with symbolic pattern")
		}
		return nativeObj{v: regexp.MustCompile(p)}
	}
	reArg := func(m *Machine, v value, what string) string {
		s, ok := v.(strV)
		if !ok {
			m.abort("regexp: %s is %T", what, v)
		}
		cs, ok := s.Concrete()
		if !ok || s.taint {
			m.abort("regexp on symbolic %s", what)
		}
		return cs
	}
	models["(*regexp.Regexp).ReplaceAllString"] = func(m *Machine, c *frame, fn *ssa.Function, a []value) value {
		re := a[0].(nativeObj).v.(*regexp.Regexp)
		return mkStr(re.ReplaceAllString(reArg(m, a[1], "source"), reArg(m, a[2], "replacement")))
	}
	models["(*regexp.Regexp).MatchString"] = func(m *Machine, c *frame, fn *ssa.Function, a []value) value {
		re := a[0].(nativeObj).v.(*regexp.Regexp)
		return mkBool(re.MatchString(reArg(m, a[1], "source")))
	}
	models["(*regexp.Regexp).FindString"] = func(m *Machine, c *frame, fn *ssa.Function, a []value) value {
		re := a[0].(nativeObj).v.(*regexp.Regexp)
		return mkStr(re.FindString(reArg(m, a[1], "source")))
	}
}

// nativeObj wraps a host object handed out by a native model (immutable from the target's view).
type nativeObj struct{ v interface{} }

func atomicAdd(m *Machine, c *frame, fn *ssa.Function, a []value) value {
	m.preemptPoint()
	m.hbAcqRel(m.ptr(a[0])) // an atomic operation is a synchronisation point: other goroutines may run before it
	p := m.ptr(a[0])
	n := tBin("bvadd", (*p).(*Term), m.asTerm(a[1]))
	*p = n
	return n
}
func atomicLoad(m *Machine, c *frame, fn *ssa.Function, a []value) value {
	m.preemptPoint()
	m.hbAcqRel(m.ptr(a[0]))
	return *m.ptr(a[0])
}
func atomicStore(m *Machine, c *frame, fn *ssa.Function, a []value) value {
	m.preemptPoint()
	m.hbAcqRel(m.ptr(a[0]))
	*m.ptr(a[0]) = a[1]
	return nil
}
func atomicCAS(m *Machine, c *frame, fn *ssa.Function, a []value) value {
	m.preemptPoint()
	m.hbAcqRel(m.ptr(a[0]))
	p := m.ptr(a[0])
	if m.branch(tEq((*p).(*Term), m.asTerm(a[1]))) {
		*p = a[2]
		return tTrue
	}
	return tFalse
}

func (m *Machine) wgOf(p *value) *wgState {
	s := m.wgs[p]
	if s == nil {
		s = &wgState{}
		m.wgs[p] = s
	}
	return s
}

func bytesEqTerm(x, y []value) *Term {
	if len(x) != len(y) {
		return tFalse
	}
	r := tTrue
	for i := range x {
		r = tAnd(r, tEq(x[i].(*Term), y[i].(*Term)))
	}
	return r
}

func sliceToStr(x []value) strV {
	bs := make([]*Term, len(x))
	for i, e := range x {
		bs[i] = e.(*Term)
	}
	return strFromTerms(bs, false)
}

func (m *Machine) sortSlice(c *frame, sl value, less value, stable bool) {
	var s []value
	switch v := sl.(type) {
	case ifaceV:
		s, _ = v.v.([]value)
	case []value:
		s = v
	}
	lessAt := func(i, j int) bool {
		r := m.call(c, 0, less, []value{mkConst(64, uint64(i)), mkConst(64, uint64(j))})
		return m.branch(m.asTerm(r))
	}
	if len(s) > 1 {
		m.sliceAccess(&s[0], false)
	}
	swapped := false
	for i := 1; i < len(s); i++ {
		for j := i; j > 0 && lessAt(j, j-1); j-- {
			if !swapped {
				swapped = true
				m.sliceAccess(&s[0], true)
			}
			s[j], s[j-1] = s[j-1], s[j]
		}
	}
}

// newError builds an error value of dynamic type *errors.errorString.
func (m *Machine) newError(msg value) value {
	ep := m.prog.ImportedPackage("errors")
	if ep == nil {
		m.abort("errors package not loaded")
	}
	t := ep.Type("errorString").Object().Type()
	var cell value = structV{msg}
	return ifaceV{t: types.NewPointer(t), v: &cell}
}

func (m *Machine) writeTo(c *frame, w value, s strV) value {
	bs := s.Bytes()
	sl := make([]value, len(bs))
	for i, b := range bs {
		sl[i] = b
	}
	iv, ok := w.(ifaceV)
	if !ok || iv.t == nil {
		m.abort("Fprintf to %T", w)
	}
	wt := m.prog.ImportedPackage("io").Type("Writer").Object().Type().Underlying().(*types.Interface)
	meth := wt.Method(0)
	f := m.lookupMethod(iv.t, meth)
	if f == nil {
		m.abort("Fprintf: no Write method on %v", iv.t)
	}
	return m.call(c, 0, f, []value{iv.v, sl})
}

// ---- fmt model ----

const symPlaceholder = "?"

// goArg converts an interface-boxed engine value into a Go value for the real fmt.
func (m *Machine) goArg(c *frame, v value, taint *bool) interface{} {
	iv, ok := v.(ifaceV)
	if !ok {
		if o, ok := v.(opaqueV); ok {
			*taint = true
			return "<opaque " + o.src + ">"
		}
		*taint = true
		return describe(v)
	}
	if iv.t == nil {
		return nil
	}
	// error / Stringer first
	if s, ok := m.callStringMethod(c, iv, "Error"); ok {
		if s.taint || s.sym != nil {
			*taint = true
		}
		return fmtString(s.String())
	}
	if s, ok := m.callStringMethod(c, iv, "String"); ok {
		if s.taint || s.sym != nil {
			*taint = true
		}
		return fmtString(s.String())
	}
	switch x := iv.v.(type) {
	case *Term:
		b, _ := iv.t.Underlying().(*types.Basic)
		if b == nil {
			*taint = true
			return describe(x)
		}
		if !x.IsConst() {
			*taint = true
			return fmtString(symPlaceholder)
		}
		switch b.Kind() {
		case types.Bool:
			return x.C != 0
		case types.Int:
			return int(x.SVal())
		case types.Int8:
			return int8(x.SVal())
		case types.Int16:
			return int16(x.SVal())
		case types.Int32:
			return int32(x.SVal())
		case types.Int64:
			return int64(x.SVal())
		case types.Uint:
			return uint(x.C)
		case types.Uint8:
			return uint8(x.C)
		case types.Uint16:
			return uint16(x.C)
		case types.Uint32:
			return uint32(x.C)
		case types.Uint64:
			return uint64(x.C)
		case types.Uintptr:
			return uintptr(x.C)
		case types.Float32:
			return f32frombits(uint32(x.C))
		case types.Float64:
			return f64frombits(x.C)
		}
	case strV:
		if x.taint || x.sym != nil {
			*taint = true
		}
		return x.String()
	case []value:
		if sl, ok := iv.t.Underlying().(*types.Slice); ok {
			if eb, ok := sl.Elem().Underlying().(*types.Basic); ok && eb.Kind() == types.Byte {
				buf := make([]byte, len(x))
				for i, e := range x {
					t := e.(*Term)
					if !t.IsConst() {
						*taint = true
						buf[i] = '?'
					} else {
						buf[i] = byte(t.C)
					}
				}
				return buf
			}
			// generic slice: format elements
			var parts []interface{}
			for _, e := range x {
				parts = append(parts, m.goArg(c, ifaceV{t: sl.Elem(), v: e}, taint))
			}
			return parts
		}
	case reflVal:
		// fmt prints the concrete value a reflect.Value holds
		if x.t == nil {
			return "<invalid reflect.Value>"
		}
		return m.goArg(c, ifaceV{t: x.t, v: x.get()}, taint)
	case structV:
		st, _ := iv.t.Underlying().(*types.Struct)
		if st != nil && m.fmtExact && st.NumFields() > 0 {
			// a concrete structure with exported members only, under a verb that does not print type names:
			// rendered by the real fmt through a structure of the same member names and kinds
			var fields []reflect.StructField
			var vals []reflect.Value
			ok, sub := true, false
			for i := 0; i < st.NumFields() && ok; i++ {
				g := m.goArg(c, ifaceV{t: st.Field(i).Type(), v: x[i]}, &sub)
				if !st.Field(i).Exported() || g == nil || sub {
					ok = false
					break
				}
				fields = append(fields, reflect.StructField{Name: st.Field(i).Name(), Type: reflect.TypeOf(g)})
				vals = append(vals, reflect.ValueOf(g))
			}
			if ok {
				rv := reflect.New(reflect.StructOf(fields)).Elem()
				for i, v := range vals {
					rv.Field(i).Set(v)
				}
				return rv.Interface()
			}
		}
		if st != nil {
			mp := map[string]interface{}{}
			for i := 0; i < st.NumFields(); i++ {
				mp[st.Field(i).Name()] = m.goArg(c, ifaceV{t: st.Field(i).Type(), v: x[i]}, taint)
			}
			*taint = true // rendering differs from the real fmt
			return mp
		}
	case *value:
		*taint = true
		if x == nil {
			return nil
		}
		return fmt.Sprintf("%p", x)
	case ifaceV:
		return m.goArg(c, x, taint)
	}
	*taint = true
	return describe(iv.v)
}

// fmtString formats like a plain string for %s/%v but must also work with %d etc.: keep it a string.
type fmtString string

func (f fmtString) Format(s fmt.State, verb rune) { fmt.Fprint(s, string(f)) }

func (m *Machine) callStringMethod(c *frame, iv ifaceV, name string) (strV, bool) {
	ms := m.prog.MethodSets.MethodSet(iv.t)
	for i := 0; i < ms.Len(); i++ {
		sel := ms.At(i)
		f := sel.Obj().(*types.Func)
		if f.Name() != name {
			continue
		}
		sig := f.Type().(*types.Signature)
		if sig.Params().Len() != 0 || sig.Results().Len() != 1 {
			return strV{}, false
		}
		if b, ok := sig.Results().At(0).Type().Underlying().(*types.Basic); !ok || b.Kind() != types.String {
			return strV{}, false
		}
		if p, ok := iv.v.(*value); ok && p == nil {
			return mkStr("<nil>"), true
		}
		fn := m.prog.MethodValue(sel)
		if fn == nil {
			return strV{}, false
		}
		if isModelType(iv.t) {
			return strV{}, false
		}
		r := m.call(c, 0, fn, []value{iv.v})
		if s, ok := r.(strV); ok {
			return s, true
		}
		return mkStr("<opaque>"), true
	}
	return strV{}, false
}

func isModelType(t types.Type) bool {
	n := namedOf(t)
	if n == nil || n.Obj().Pkg() == nil {
		return false
	}
	switch n.Obj().Pkg().Path() {
	case "time", "reflect", "net", "os", "net/url":
		return true
	}
	return false
}

func (m *Machine) sprintf(c *frame, format strV, args value) value {
	f, ok := format.Concrete()
	if !ok {
		m.abort("Sprintf with symbolic format")
	}
	f = strings.ReplaceAll(f, "%w", "%v")
	sl, _ := args.([]value)
	taint := format.taint
	m.fmtExact = !strings.Contains(f, "%T") && !strings.Contains(f, "#v")
	defer func() { m.fmtExact = false }()
	gargs := make([]interface{}, len(sl))
	for i, a := range sl {
		gargs[i] = m.goArg(c, a, &taint)
	}
	return strV{s: fmt.Sprintf(f, gargs...), taint: taint}
}

func (m *Machine) sprint(c *frame, args value, ln bool) value {
	sl, _ := args.([]value)
	taint := false
	m.fmtExact = true
	defer func() { m.fmtExact = false }()
	gargs := make([]interface{}, len(sl))
	for i, a := range sl {
		gargs[i] = m.goArg(c, a, &taint)
	}
	if ln {
		return strV{s: fmt.Sprintln(gargs...), taint: taint}
	}
	return strV{s: fmt.Sprint(gargs...), taint: taint}
}

// ---- native bridge for pure functions on concrete arguments ----

var nativeBridge = map[string]interface{}{
	"net.SplitHostPort": net.SplitHostPort,
	"strings.Contains":  strings.Contains, "strings.HasPrefix": strings.HasPrefix, "strings.HasSuffix": strings.HasSuffix,
	"strings.TrimPrefix": strings.TrimPrefix, "strings.TrimSuffix": strings.TrimSuffix, "strings.Split": strings.Split,
	"strings.Join": strings.Join, "strings.Index": strings.Index, "strings.ToLower": strings.ToLower,
	"strings.ToUpper": strings.ToUpper, "strings.Title": strings.Title, "strings.Replace": strings.Replace,
	"strings.ReplaceAll": strings.ReplaceAll, "strings.EqualFold": strings.EqualFold, "strings.Fields": strings.Fields,
	"strings.TrimSpace": strings.TrimSpace, "strings.Repeat": strings.Repeat, "strings.Compare": strings.Compare,
	"strings.Trim": strings.Trim, "strings.TrimLeft": strings.TrimLeft, "strings.TrimRight": strings.TrimRight,
	"strings.LastIndex": strings.LastIndex, "strings.Count": strings.Count, "strings.SplitN": strings.SplitN,
	"strings.IndexByte": strings.IndexByte, "strings.ContainsRune": strings.ContainsRune, "strings.IndexRune": strings.IndexRune,
	"strings.ContainsAny": strings.ContainsAny,
	"strconv.Itoa":        strconv.Itoa, "strconv.Quote": strconv.Quote, "strconv.FormatInt": strconv.FormatInt,
	"strconv.FormatUint": strconv.FormatUint,
	"unicode.IsUpper":    unicode.IsUpper, "unicode.IsLower": unicode.IsLower, "unicode.IsLetter": unicode.IsLetter,
	"unicode.IsDigit": unicode.IsDigit, "unicode.ToUpper": unicode.ToUpper, "unicode.ToLower": unicode.ToLower,
	"unicode.IsSpace":    unicode.IsSpace,
	"path/filepath.Base": filepath.Base, "path/filepath.Join": filepath.Join, "path/filepath.Dir": filepath.Dir,
}

func bridgeCall(name string, nf interface{}) externalFn {
	rv := reflect.ValueOf(nf)
	rt := rv.Type()
	return func(m *Machine, caller *frame, fn *ssa.Function, args []value) value {
		var in []reflect.Value
		taint := false
		for i, a := range args {
			var pt reflect.Type
			if rt.IsVariadic() && i >= rt.NumIn()-1 {
				pt = rt.In(rt.NumIn() - 1)
				if i == rt.NumIn()-1 {
					// variadic args arrive as one slice
					g, ok := m.toGo(a, pt, &taint)
					if !ok {
						m.abort("native call %s with symbolic/unsupported argument %d", name, i)
					}
					for k := 0; k < g.Len(); k++ {
						in = append(in, g.Index(k))
					}
					continue
				}
			} else {
				pt = rt.In(i)
			}
			g, ok := m.toGo(a, pt, &taint)
			if !ok {
				m.abort("native call %s with symbolic/unsupported argument %d (%s)", name, i, describe(a))
			}
			in = append(in, g)
		}
		out := rv.Call(in)
		res := fn.Signature.Results()
		switch len(out) {
		case 0:
			return nil
		case 1:
			return m.fromGo(out[0], res.At(0).Type(), taint)
		}
		t := make(tuple, len(out))
		for i := range out {
			t[i] = m.fromGo(out[i], res.At(i).Type(), taint)
		}
		return t
	}
}

func (m *Machine) toGo(v value, rt reflect.Type, taint *bool) (reflect.Value, bool) {
	switch rt.Kind() {
	case reflect.String:
		s, ok := v.(strV)
		if !ok {
			return reflect.Value{}, false
		}
		cs, ok := s.Concrete()
		if !ok {
			return reflect.Value{}, false
		}
		if s.taint {
			*taint = true
		}
		return reflect.ValueOf(cs).Convert(rt), true
	case reflect.Int, reflect.Int8, reflect.Int16, reflect.Int32, reflect.Int64:
		t, ok := v.(*Term)
		if !ok || !t.IsConst() {
			return reflect.Value{}, false
		}
		return reflect.ValueOf(t.SVal()).Convert(rt), true
	case reflect.Uint, reflect.Uint8, reflect.Uint16, reflect.Uint32, reflect.Uint64:
		t, ok := v.(*Term)
		if !ok || !t.IsConst() {
			return reflect.Value{}, false
		}
		return reflect.ValueOf(t.C).Convert(rt), true
	case reflect.Bool:
		t, ok := v.(*Term)
		if !ok || !t.IsConst() {
			return reflect.Value{}, false
		}
		return reflect.ValueOf(t.C != 0), true
	case reflect.Slice:
		sl, ok := v.([]value)
		if !ok {
			return reflect.Value{}, false
		}
		out := reflect.MakeSlice(rt, len(sl), len(sl))
		for i, e := range sl {
			g, ok := m.toGo(e, rt.Elem(), taint)
			if !ok {
				return reflect.Value{}, false
			}
			out.Index(i).Set(g)
		}
		return out, true
	}
	return reflect.Value{}, false
}

func (m *Machine) fromGo(rv reflect.Value, t types.Type, taint bool) value {
	switch rv.Kind() {
	case reflect.String:
		return strV{s: rv.String(), taint: taint}
	case reflect.Bool:
		return mkBool(rv.Bool())
	case reflect.Int, reflect.Int8, reflect.Int16, reflect.Int32, reflect.Int64:
		return mkConst(basicWidth(t.Underlying().(*types.Basic)), uint64(rv.Int()))
	case reflect.Uint, reflect.Uint8, reflect.Uint16, reflect.Uint32, reflect.Uint64:
		return mkConst(basicWidth(t.Underlying().(*types.Basic)), rv.Uint())
	case reflect.Slice:
		et := t.Underlying().(*types.Slice).Elem()
		if rv.IsNil() {
			return []value(nil)
		}
		out := make([]value, rv.Len())
		for i := range out {
			out[i] = m.fromGo(rv.Index(i), et, taint)
		}
		return out
	}
	if rv.Kind() == reflect.Interface && rv.Type().String() == "error" {
		if rv.IsNil() {
			return ifaceV{}
		}
		return m.newError(mkStr(rv.Interface().(error).Error()))
	}
	m.abort("fromGo: unsupported kind %v", rv.Kind())
	return nil
}

// modelMethod returns an engine implementation for a method invoked on an interface whose
// dynamic value is an engine-native model (reflect types/values).
func (m *Machine) modelMethod(recv ifaceV, meth *types.Func) value {
	switch recv.v.(type) {
	case reflType:
		return reflTypeMethod(meth.Name())
	}
	return nil
}

var _ = sort.Strings
var _ = os.Getpid

func (m *Machine) randBudgetScale() int { return 2 }

func (m *Machine) syncMapOf(p *value) *mapV {
	m.hbAcqRel(p) // every sync.Map operation synchronises with the others (adds edges only)
	mp := m.syncMaps[p]
	if mp == nil {
		mp = &mapV{keyT: types.NewInterfaceType(nil, nil), elT: types.NewInterfaceType(nil, nil)}
		m.syncMaps[p] = mp
	}
	return mp
}

const timeNowExt = 1000000000

// nowExt: the engine's clock. The checks run on a constant clock (part of their stated environment);
// `symgo selftest` lets it tick (1 µs per reading) because some of the repository's tests require elapsed
// times to be non-zero.
// nowTerm: one reading of the clock. Under sym.SymbolicClock(true) every reading is a fresh symbolic instant
// constrained only to be no earlier than the previous reading (and below 2^61 ns, so that durations do not
// wrap): the time that passes between two steps of a scenario is the solver's to choose. Such inputs are
// labelled "rand.clock": a counterexample that depends on them is reported as an engine trace (elapsed
// time cannot be forced in a native run).
func (m *Machine) nowTerm() *Term {
	if !m.symClock {
		return mkConst(64, m.nowExt())
	}
	t := m.fresh("rand.clock", 64)
	prev := m.prevNow
	if prev == nil {
		prev = mkConst(64, timeNowExt)
	}
	m.assume(tAnd(tCmp("bvsge", t, prev), tCmp("bvslt", t, mkConst(64, 1<<61))))
	m.prevNow = t
	return t
}

func (m *Machine) nowExt() uint64 {
	if m.clockTicks {
		m.clock += 1000
	}
	return timeNowExt + m.clock
}

type afterFuncState struct{ stopped, fired bool }

// timeExt: the "ext" field of a time.Time value (nanoseconds on the engine's clock).
func timeExt(m *Machine, v value) *Term {
	t, ok := v.(structV)
	if !ok || len(t) < 2 {
		m.abort("time.Time value of unexpected shape %T", v)
	}
	return m.asTerm(t[1])
}

// trimSpaceSym: strings.TrimSpace on a string with symbolic bytes (concrete length). The bytes at the
// two ends are case-split: ASCII white space (\t \n \v \f \r and space) is trimmed, any other ASCII
// byte stops the trimming; a byte >= 0x80 at a trimming boundary would need rune decoding (U+0085,
// U+00A0, U+2000...) and is cut as outside the bound.
// trimCutsetSym: strings.Trim/TrimLeft/TrimRight of a string with symbolic bytes by a concrete ASCII cutset:
// the bytes at the trimmed ends are case-split on membership. A non-ASCII cutset, or a non-ASCII byte at a
// trimming boundary (rune decoding), is cut as outside the bound.
func (m *Machine) trimCutsetSym(sv strV, cut string, left, right bool) value {
	for i := 0; i < len(cut); i++ {
		if cut[i] >= 0x80 {
			m.outside("strings.Trim*: non-ASCII cutset")
		}
	}
	bs := sv.Bytes()
	inCut := func(b *Term) bool {
		if m.branch(tCmp("bvuge", b, mkConst(8, 0x80))) {
			m.outside("strings.Trim*: non-ASCII byte at a trimming boundary")
		}
		c := tFalse
		for i := 0; i < len(cut); i++ {
			c = tOr(c, tEq(b, mkConst(8, uint64(cut[i]))))
		}
		return m.branch(c)
	}
	lo, hi := 0, len(bs)
	for left && lo < hi && inCut(bs[lo]) {
		lo++
	}
	for right && hi > lo && inCut(bs[hi-1]) {
		hi--
	}
	return strFromTerms(append([]*Term(nil), bs[lo:hi]...), sv.taint)
}

func (m *Machine) trimSpaceSym(sv strV) value {
	bs := sv.Bytes()
	isSpace := func(b *Term) bool {
		if m.branch(tCmp("bvuge", b, mkConst(8, 0x80))) {
			m.outside("strings.TrimSpace: non-ASCII byte at a trimming boundary")
		}
		sp := tOr(tEq(b, mkConst(8, ' ')), tAnd(tCmp("bvuge", b, mkConst(8, 9)), tCmp("bvule", b, mkConst(8, 13))))
		return m.branch(sp)
	}
	lo, hi := 0, len(bs)
	for lo < hi && isSpace(bs[lo]) {
		lo++
	}
	for hi > lo && isSpace(bs[hi-1]) {
		hi--
	}
	return strFromTerms(append([]*Term(nil), bs[lo:hi]...), sv.taint)
}
