package main

// Native oracle for signature.Parse on concrete strings + engine model of Parse.

import (
	"bufio"
	"encoding/hex"
	"encoding/json"
	"fmt"
	"io"
	"os"
	"os/exec"
	"path/filepath"
	"strings"

	"golang.org/x/tools/go/ssa"
)

type sigNode struct {
	K       string     `json:"k"`
	Sig     string     `json:"sig"`
	Name    string     `json:"name"`
	Elems   []*sigNode `json:"elems"`
	Members []string   `json:"members"`
	Err     string     `json:"err"`
}

type sigOracleProc struct {
	cmd   *exec.Cmd
	in    io.WriteCloser
	out   *bufio.Reader
	cache map[string]*sigNode
	calls int
}

var oracleBin string // path of the pre-built oracle test binary (set by -sigoracle or built on demand)
var oracleCfg struct{ repo, harness, modfile, scratch string }
var theOracle *sigOracleProc

func buildSigOracle(repo, harnessDir, modfile, scratch string) (string, error) {
	overlay := map[string]string{
		filepath.Join(repo, "meta/signature/zz_verif_sigoracle_test.go"): filepath.Join(harnessDir, "oracle/sigoracle_test.go"),
	}
	ovData, _ := json.Marshal(map[string]interface{}{"Replace": overlay})
	ovFile := filepath.Join(scratch, "overlay_sigoracle.json")
	if err := os.WriteFile(ovFile, ovData, 0644); err != nil {
		return "", err
	}
	bin := filepath.Join(scratch, "sigoracle.test")
	args := []string{"test", "-c", "-vet=off", "-overlay", ovFile, "-o", bin}
	if modfile != "" {
		args = append(args, "-modfile="+modfile)
	}
	args = append(args, "./meta/signature")
	cmd := exec.Command("go", args...)
	cmd.Dir = repo
	cmd.Env = append(os.Environ(), "GOFLAGS=-mod=mod", "GOPROXY=off", "GOSUMDB=off", "GOTOOLCHAIN=local")
	out, err := cmd.CombinedOutput()
	if err != nil {
		return "", fmt.Errorf("building signature oracle: %v\n%s", err, out)
	}
	return bin, nil
}

func getOracle() (*sigOracleProc, error) {
	if theOracle != nil {
		return theOracle, nil
	}
	if oracleBin == "" {
		scratch, err := os.MkdirTemp("", "verif-oracle-")
		if err != nil {
			return nil, err
		}
		oracleCfg.scratch = scratch
		b, err := buildSigOracle(oracleCfg.repo, oracleCfg.harness, oracleCfg.modfile, scratch)
		if err != nil {
			return nil, err
		}
		oracleBin = b
	}
	cmd := exec.Command(oracleBin, "-test.run", "^TestVerifSigOracle$")
	cmd.Env = append(os.Environ(), "VERIF_SIGORACLE=1")
	in, err := cmd.StdinPipe()
	if err != nil {
		return nil, err
	}
	outp, err := cmd.StdoutPipe()
	if err != nil {
		return nil, err
	}
	if err := cmd.Start(); err != nil {
		return nil, err
	}
	theOracle = &sigOracleProc{cmd: cmd, in: in, out: bufio.NewReaderSize(outp, 1<<20), cache: map[string]*sigNode{}}
	return theOracle, nil
}

func closeOracle() {
	if theOracle != nil {
		theOracle.in.Close()
		theOracle.cmd.Process.Kill()
		theOracle.cmd.Wait()
		theOracle = nil
	}
	if oracleCfg.scratch != "" {
		os.RemoveAll(oracleCfg.scratch)
	}
}

func (o *sigOracleProc) parse(s string) (*sigNode, error) {
	if n, ok := o.cache[s]; ok {
		return n, nil
	}
	o.calls++
	fmt.Fprintf(o.in, "%s\n", hex.EncodeToString([]byte(s)))
	for {
		line, err := o.out.ReadString('\n')
		if err != nil {
			return nil, fmt.Errorf("signature oracle died: %v", err)
		}
		if strings.HasPrefix(line, "ORACLE ") {
			var n sigNode
			if err := json.Unmarshal([]byte(strings.TrimPrefix(strings.TrimSpace(line), "ORACLE ")), &n); err != nil {
				return nil, err
			}
			o.cache[s] = &n
			return &n, nil
		}
	}
}

var basicCtor = map[string]string{
	"i": "NewIntType", "I": "NewUintType", "l": "NewLongType", "L": "NewULongType", "s": "NewStringType",
	"b": "NewBoolType", "f": "NewFloatType", "d": "NewDoubleType", "v": "NewVoidType", "m": "NewValueType",
	"o": "NewObjectType", "X": "NewUnknownType", "c": "NewInt8Type", "C": "NewUint8Type", "w": "NewInt16Type",
	"W": "NewUint16Type",
}

func (m *Machine) sigPkg() *ssa.Package {
	p := m.prog.ImportedPackage("github.com/lugu/qiloop/meta/signature")
	if p == nil {
		m.abort("package meta/signature not loaded")
	}
	return p
}

// buildSigType rebuilds the oracle's tree with the interpreted constructors of the code under test.
func (m *Machine) buildSigType(c *frame, n *sigNode) value {
	p := m.sigPkg()
	callF := func(name string, args ...value) value {
		f := p.Func(name)
		if f == nil {
			m.abort("signature.%s not found", name)
		}
		return m.call(c, 0, f, args)
	}
	typeIface := p.Type("Type").Object().Type()
	_ = typeIface
	toIface := func(v value, ctor string) value {
		// constructors returning concrete pointer types must be boxed into signature.Type
		if iv, ok := v.(ifaceV); ok {
			return iv
		}
		f := p.Func(ctor)
		return ifaceV{t: f.Signature.Results().At(0).Type(), v: v}
	}
	switch n.K {
	case "basic":
		ctor, ok := basicCtor[n.Sig]
		if !ok {
			// MetaObject-typed constructor etc.
			m.abort("oracle returned basic type with unknown signature %q", n.Sig)
		}
		return callF(ctor)
	case "nil":
		return ifaceV{}
	case "list":
		return toIface(callF("NewListType", m.buildSigType(c, n.Elems[0])), "NewListType")
	case "map":
		return toIface(callF("NewMapType", m.buildSigType(c, n.Elems[0]), m.buildSigType(c, n.Elems[1])), "NewMapType")
	case "tuple":
		var ts []value
		for _, e := range n.Elems {
			ts = append(ts, m.buildSigType(c, e))
		}
		if ts == nil {
			ts = []value{}
		}
		return toIface(callF("NewTupleType", ts), "NewTupleType")
	case "struct":
		var ms []value
		for i, e := range n.Elems {
			ms = append(ms, callF("NewMemberType", mkStr(n.Members[i]), m.buildSigType(c, e)))
		}
		if ms == nil {
			ms = []value{}
		}
		return toIface(callF("NewStructType", mkStr(n.Name), ms), "NewStructType")
	}
	m.abort("oracle node kind %q", n.K)
	return nil
}

// sigCatalogue: signatures a symbolic signature string is compared against (by length).
var sigCatalogue = []string{
	"i", "I", "l", "L", "s", "b", "f", "d", "m", "o", "X", "v", "c", "C", "w", "W",
	"[i]", "[s]", "[m]", "[b]", "[W]", "[v]", "()", "(i)", "(s)", "(m)", "(ss)", "(sb)", "(iI)",
	"{sI}", "{sm}", "{Is}", "{ii}", "[[i]]", "[(s)]", "[()]", "([i])", "([m])", "{s[m]}", "[{sI}]",
	"()<P>", "(s)<P,a>", "(sb)<P,a,b>", "(i)<P,a>", "(m)<P,a>",
	"(ff)<Pair<float>,value,confidence>", "{Iv}", "{vv}", "[[v]]",
	// grammatical but inconsistent annotations (more / fewer names than members)
	"()<P,a>", "(i)<P,a,b>", "(ii)<P,a>", "[(i)<P,a,b>]", "(i)<P>",
}

func init() {
	models["github.com/lugu/qiloop/meta/signature.Parse"] = func(m *Machine, c *frame, fn *ssa.Function, a []value) value {
		s := a[0].(strV)
		if s.taint {
			m.abort("signature.Parse on a string formatted from symbolic data")
		}
		cs, ok := s.Concrete()
		if !ok {
			// fork over the catalogue entries of the same length; anything else is outside the bound
			for _, cand := range sigCatalogue {
				if len(cand) != s.Len() {
					continue
				}
				if m.branch(m.strEq(s, mkStr(cand))) {
					cs, ok = cand, true
					break
				}
			}
			if !ok {
				m.outside("symbolic signature string (len %d) not in the engine's signature catalogue", s.Len())
			}
		}
		if cached, ok := m.sigCache[cs]; ok && false {
			return cached
		}
		o, err := getOracle()
		if err != nil {
			m.abort("signature oracle unavailable: %v", err)
		}
		n, err := o.parse(cs)
		if err != nil {
			m.abort("signature oracle: %v", err)
		}
		switch n.K {
		case "error":
			return tuple{ifaceV{}, m.newError(strV{s: n.Err, taint: true})}
		case "panic":
			m.targetPanic("signature.Parse panicked natively: " + n.Err)
		case "unsupported":
			m.abort("signature oracle cannot dump %s", n.Err)
		}
		t := m.buildSigType(c, n)
		return tuple{t, ifaceV{}}
	}
}
