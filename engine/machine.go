package main

// Machine: per-path interpreter state, decision log (re-execution DFS), path
// condition, assertions, goroutine scheduler.

import (
	"fmt"
	"go/token"
	"go/types"
	"os"
	"sort"
	"strings"
	"time"

	"golang.org/x/tools/go/ssa"
)

// ---- decision log ----

type decision struct {
	kind   string   // "br", "val", "sched", "choose"
	alts   []uint64 // feasible alternatives, in exploration order
	choice int
	resid  bool // for "val": values beyond the enumeration cap exist (residual path, explored last)
	site   string
}

// ---- outcomes ----

type abortPath struct {
	kind   string // "inconclusive", "outside-bound", "pruned", "done", "violation-stop"
	reason string
}

type killG struct{}

type targetPanic struct {
	v     value
	where string
	fn    string
}

type Violation struct {
	Label   string            `json:"label"`
	Kind    string            `json:"kind"` // assert, panic, deadlock, alloc, loop
	Site    string            `json:"site"`
	Detail  string            `json:"detail"`
	Inputs  []InputVal        `json:"inputs"`
	Sched   []int             `json:"sched,omitempty"`
	Trace   []string          `json:"trace,omitempty"`
	Extra   map[string]string `json:"extra,omitempty"`
	Harness string            `json:"harness"`
}

type InputVal struct {
	Label string `json:"label"`
	W     int    `json:"w"`
	Val   uint64 `json:"val"`
}

type Options struct {
	MaxLen        int   // cap for enumerating a symbolic length/size (values above -> residual)
	MaxMat        int   // largest slice the engine materialises (default 8192)
	MaxEnum       int   // cap for enumerating any other symbolic integer that must be concrete
	LoopBudget    int   // max iterations of any one loop header per frame activation with symbolic exit
	StepBudget    int64 // instructions per path
	Preempt       int   // preemptive context switches allowed
	MaxPaths      int
	AllocBudget   int64 // bytes: an allocation whose symbolic size can exceed this is a finding (0 = off)
	StopAtFirst   bool
	Trace         bool
	QueryTimeout  int
	CheckPanics   bool // uncaught target panic = violation
	CheckDeadlock bool
}

type Machine struct {
	prog     *ssa.Program
	solver   *Solver
	opts     Options
	baseOpts Options
	harness  string

	// exploration (persist across paths)
	log         []*decision
	paths       int
	pathsDone   int
	pathsPruned int
	pathsOut    int // outside-bound residuals
	pathsInconc int
	inconcWhy   map[string]int
	outWhy      map[string]int
	decisions   int
	violations  []*Violation
	reached     map[string]int
	reachModel  map[string][]InputVal
	obligations int
	discharged  int
	funcs       map[*ssa.Function]int // functions interpreted -> #instr executed
	opaqueCalls map[string]int
	samples     []map[string]interface{}
	maxSteps    int64
	start       time.Time
	knownSupp   map[string]int

	// per path
	pos            int
	pc             []*Term
	globals        map[*ssa.Global]*value
	inputs         []*Term // symbolic inputs created on this path, in order
	inputLbl       []string
	labelCnt       map[string]int
	steps          int64
	gs             []*G
	cur            *G
	done           chan *abortPath
	sched          []int
	preempts       int
	schedOff       bool // sym.Schedules(false): the default schedule only, no delay is spent
	timerChoice    bool // a timer's "has it fired yet" was decided on this path: not reproducible natively
	mutexes        map[*value]*mutexState
	wgs            map[*value]*wgState
	atomicVals     map[*value]value // contents of sync/atomic.Value cells
	onces          map[*value]*onceState
	conds          map[*value]*condState
	chanSeq        int
	observed       []string
	pathNotes      []string
	finished       bool
	initDone       map[*ssa.Package]bool
	sigCache       map[string]value
	ghost          map[string]*Term
	reflTypes      map[string]value
	timers         []*chanV
	ptrIDs         map[*value]int
	inInit         int
	syncMaps       map[*value]*mapV
	pools          map[*value][]value
	files          map[*value]*fileState
	afterFuncs     map[*value]*afterFuncState
	syncVC         map[hbKey]vclock
	mapRaces       map[*mapV]*mapRaceState
	sliceRaces     map[*value]*mapRaceState
	raceSeen       map[string]bool
	overrides      map[string]value
	racyScope      string
	randInts       []*Term
	forkSites      map[string]int
	randDraws      int
	siteFn         string
	resetEvery     int
	needFP         bool
	mapOrderNondet bool

	// selftest (the repository's own tests under the interpreter)
	entryArgs     func() []value
	clockTicks    bool
	condQ         map[*value][]*condTicket
	symClock      bool
	prevNow       *Term
	builders      map[*value]*builderState
	fmtExact      bool // fmt model: the verbs in use do not print type names
	testFailWhere string
	clock         uint64
	baseOverrides map[string]value
	afterPath     func()
	testFailed    bool
	testSkipped   bool
	testCleanups  []value
}

type G struct {
	id         int
	resume     chan bool
	state      int // 0 runnable, 1 blocked, 2 dead
	ready      func() bool
	what       string
	name       string
	started    bool
	stack      []*frame
	vc         vclock   // happens-before vector clock (race.go)
	waitTimers []*chanV // unfired timer channels this goroutine is blocked on
}

func (m *Machine) abort(format string, args ...interface{}) {
	panic(&abortPath{kind: "inconclusive", reason: fmt.Sprintf(format, args...)})
}

func (m *Machine) outside(format string, args ...interface{}) {
	panic(&abortPath{kind: "outside-bound", reason: fmt.Sprintf(format, args...)})
}

func (m *Machine) targetPanic(msg string) {
	panic(targetPanic{v: ifaceV{t: m.runtimeErrorType(), v: mkStr(msg)}, where: m.where(), fn: m.curFn()})
}

var rtErrType types.Type

func (m *Machine) runtimeErrorType() types.Type {
	if rtErrType == nil {
		if p := m.prog.ImportedPackage("runtime"); p != nil {
			if t := p.Type("errorString"); t != nil {
				rtErrType = t.Object().Type()
			}
		}
		if rtErrType == nil {
			rtErrType = types.Typ[types.String]
		}
	}
	return rtErrType
}

func (m *Machine) where() string {
	if m.cur == nil || len(m.cur.stack) == 0 {
		return ""
	}
	fr := m.cur.stack[len(m.cur.stack)-1]
	return fr.posString()
}

func (m *Machine) stackTrace() []string {
	var out []string
	if m.cur == nil {
		return out
	}
	for i := len(m.cur.stack) - 1; i >= 0 && len(out) < 24; i-- {
		fr := m.cur.stack[i]
		out = append(out, fr.fn.String()+" "+fr.posString())
	}
	return out
}

// ---- path condition & decisions ----

func (m *Machine) addPC(c *Term) {
	if c.IsConst() {
		return
	}
	m.pc = append(m.pc, c)
	if len(m.pc) > 800 {
		m.abort("path condition exceeds 800 literals (input-dependent loop?) at %s in %s", m.where(), m.curFn())
	}
}

func (m *Machine) check(extra ...*Term) SatResult {
	lits := make([]*Term, 0, len(m.pc)+len(extra))
	lits = append(lits, m.pc...)
	lits = append(lits, extra...)
	return m.solver.Check(lits)
}

// nextDecision replays a recorded decision or records a new one.
func (m *Machine) nextDecision(kind string, compute func() *decision) *decision {
	if m.pos < len(m.log) {
		d := m.log[m.pos]
		if d.kind != kind {
			panic(fmt.Sprintf("engine: decision log mismatch at %d: have %s want %s (site %s vs %s) — non-deterministic replay",
				m.pos, d.kind, kind, d.site, m.where()))
		}
		m.pos++
		return d
	}
	d := compute()
	d.kind = kind
	d.site = m.where()
	if len(d.alts) > 1 {
		m.forkSites[kind+" "+d.site] += len(d.alts) - 1
	}
	m.log = append(m.log, d)
	m.pos++
	m.decisions++
	return d
}

// branch decides a symbolic condition, forking when both sides are feasible.
func (m *Machine) branch(c *Term) bool {
	if c.IsConst() {
		return c.C != 0
	}
	d := m.nextDecision("br", func() *decision {
		d := &decision{}
		r1 := m.check(c)
		if r1 == Unknown {
			m.abort("solver unknown on branch condition")
		}
		if r1 == Unsat {
			d.alts = []uint64{0}
			return d
		}
		r2 := m.check(tNot(c))
		if r2 == Unknown {
			m.abort("solver unknown on branch condition")
		}
		if r2 == Unsat {
			d.alts = []uint64{1}
			return d
		}
		d.alts = []uint64{1, 0}
		return d
	})
	v := d.alts[d.choice] != 0
	if len(d.alts) > 1 {
		if v {
			m.addPC(c)
		} else {
			m.addPC(tNot(c))
		}
	}
	// when only one side is feasible the literal is implied by pc: no need to add it
	return v
}

// concretize forces t to a concrete value, forking over its feasible values (<= cap of them,
// in increasing order of discovery); if more exist the remaining ones form a residual path that
// is cut as outside the bound (after onResidual has had a chance to check obligations).
func (m *Machine) concretize(t *Term, what string, capN int, signed bool, onResidual func(resid *Term)) int64 {
	if t.IsConst() {
		if signed {
			return t.SVal()
		}
		return int64(t.C)
	}
	d := m.nextDecision("val", func() *decision {
		d := &decision{}
		var excl []*Term
		// 1. probe small values directly (no model extraction needed)
		probeN := capN
		small := tCmp("bvult", t, mkConst(t.W, uint64(probeN)))
		if r := m.check(small); r == Sat {
			// recursive range splitting: whole infeasible ranges cost one query
			var probe func(a, b uint64)
			probe = func(a, b uint64) {
				if len(d.alts) >= capN {
					return
				}
				var in *Term
				if a == b {
					in = tEq(t, mkConst(t.W, a))
				} else {
					in = tAnd(tCmp("bvuge", t, mkConst(t.W, a)), tCmp("bvule", t, mkConst(t.W, b)))
				}
				r := m.check(in)
				if r == Unknown {
					m.abort("solver unknown while enumerating %s", what)
				}
				if r == Unsat {
					return
				}
				if a == b {
					d.alts = append(d.alts, a)
					return
				}
				mid := a + (b-a)/2
				probe(a, mid)
				probe(mid+1, b)
			}
			probe(0, uint64(probeN-1))
			excl = append(excl, tNot(small))
		} else if r == Unknown {
			m.abort("solver unknown while enumerating %s", what)
		} else {
			excl = append(excl, tNot(small))
		}
		// 2. remaining values (>= probeN): model-based enumeration in increasing order
		lo := uint64(probeN)
		for len(d.alts) < capN {
			r := m.check(excl...)
			if r == Unknown {
				m.abort("solver unknown while enumerating %s", what)
			}
			if r == Unsat {
				break
			}
			vals, err := m.solver.Values([]*Term{t})
			if err != nil {
				m.abort("get-value failed: %v", err)
			}
			v := vals[t.ID]
			v = m.minimize(t, lo, v, excl)
			lo = v + 1
			d.alts = append(d.alts, v)
			excl = append(excl, tNot(tEq(t, mkConst(t.W, v))))
		}
		if len(d.alts) == capN {
			r := m.check(excl...)
			if r == Unknown {
				m.abort("solver unknown while enumerating %s", what)
			}
			if r == Sat {
				d.resid = true
				d.alts = append(d.alts, ^uint64(0)) // marker for the residual alternative
			}
		}
		if len(d.alts) == 0 {
			m.abort("no feasible value for %s (pc unsat?)", what)
		}
		return d
	})
	if d.resid && d.choice == len(d.alts)-1 {
		// residual: t differs from all enumerated values
		resid := tTrue
		for _, a := range d.alts[:len(d.alts)-1] {
			resid = tAnd(resid, tNot(tEq(t, mkConst(t.W, a))))
		}
		m.addPC(resid)
		if onResidual != nil {
			onResidual(resid)
		}
		m.outside("%s > enumeration cap %d at %s", what, capN, m.where())
	}
	v := d.alts[d.choice]
	if len(d.alts) > 1 {
		m.addPC(tEq(t, mkConst(t.W, v)))
	}
	c := mkConst(t.W, v)
	if signed {
		return c.SVal()
	}
	return int64(c.C)
}

// minimize finds the smallest unsigned value of t consistent with pc and excl, starting from a model value.
func (m *Machine) minimize(t *Term, lo, v uint64, excl []*Term) uint64 {
	hi := v // invariant: some feasible value in [lo,hi], hi feasible
	if v < lo {
		// values below lo are all excluded/infeasible only when enumeration is ascending; a wrapped
		// or out-of-order model value restarts the search from 0
		lo = 0
	}
	for iter := 0; lo < hi && iter < 70; iter++ {
		mid := lo + (hi-lo)/2
		ex := append(append([]*Term(nil), excl...), tCmp("bvule", t, mkConst(t.W, mid)))
		r := m.check(ex...)
		if r == Sat {
			vals, err := m.solver.Values([]*Term{t})
			if err != nil {
				return hi
			}
			hi = vals[t.ID]
		} else if r == Unsat {
			lo = mid + 1
		} else {
			return hi
		}
	}
	return hi
}

// choose forks over n alternatives unconditionally (scheduler / harness choice).
func (m *Machine) choose(kind string, n int) int {
	if n <= 1 {
		return 0
	}
	d := m.nextDecision(kind, func() *decision {
		d := &decision{}
		for i := 0; i < n; i++ {
			d.alts = append(d.alts, uint64(i))
		}
		return d
	})
	return int(d.alts[d.choice])
}

// ---- symbolic inputs ----

func (m *Machine) fresh(label string, w int) *Term {
	k := m.labelCnt[label]
	m.labelCnt[label] = k + 1
	name := label
	if k > 0 {
		name = fmt.Sprintf("%s#%d", label, k)
	}
	name = fmt.Sprintf("%s:%d", name, w)
	t := mkVar(name, w)
	m.inputs = append(m.inputs, t)
	m.inputLbl = append(m.inputLbl, label)
	return t
}

func (m *Machine) modelInputs() ([]InputVal, map[string]uint64, error) {
	vals, err := m.solver.Values(m.inputs)
	if err != nil {
		return nil, nil, err
	}
	var out []InputVal
	mm := map[string]uint64{}
	for i, t := range m.inputs {
		out = append(out, InputVal{Label: m.inputLbl[i], W: t.W, Val: vals[t.ID]})
		mm[t.Name] = vals[t.ID]
	}
	return out, mm, nil
}

// ---- assertions ----

func (m *Machine) assume(c *Term) {
	if c.IsConst() {
		if c.C == 0 {
			panic(&abortPath{kind: "pruned", reason: "assume(false)"})
		}
		return
	}
	d := m.nextDecision("br", func() *decision {
		r := m.check(c)
		if r == Unknown {
			m.abort("solver unknown on assume")
		}
		if r == Unsat {
			return &decision{alts: []uint64{0}}
		}
		return &decision{alts: []uint64{1}}
	})
	if d.alts[0] == 0 {
		panic(&abortPath{kind: "pruned", reason: "assume infeasible"})
	}
	m.addPC(c)
}

func (m *Machine) assert(c *Term, label string) {
	m.obligations++
	if c.IsConst() && c.C != 0 {
		m.discharged++
		return
	}
	// Is the negation reachable?
	d := m.nextDecision("br", func() *decision {
		r := m.check(tNot(c))
		if r == Unknown {
			m.abort("solver unknown on assertion %q", label)
		}
		if r == Unsat {
			return &decision{alts: []uint64{1}}
		}
		// violation: record it now (once, at discovery)
		m.recordViolation("assert", label, "assertion can be false", nil)
		r2 := m.check(c)
		if r2 == Sat {
			return &decision{alts: []uint64{1}, resid: true}
		}
		return &decision{alts: []uint64{0}}
	})
	if d.alts[0] == 0 {
		panic(&abortPath{kind: "violation-stop", reason: "assertion " + label + " always false here"})
	}
	if !d.resid {
		m.discharged++
	}
	m.addPC(c)
}

// recordViolation extracts a model for the current solver state (last check was Sat).
func (m *Machine) recordViolation(kind, label, detail string, extra map[string]string) {
	if kind != "assert" {
		// engine-detected outcomes are keyed by the function they occur in (stable across line edits)
		fn := m.curFn()
		if m.siteFn != "" {
			fn = m.siteFn
		}
		label = label + "@" + shortFn(fn)
	}
	ins, _, err := m.modelInputs()
	if err != nil {
		m.abort("model extraction failed for violation %q: %v", label, err)
	}
	if m.timerChoice {
		if extra == nil {
			extra = map[string]string{}
		}
		extra["timer-dependent"] = "true"
	}
	v := &Violation{Label: label, Kind: kind, Site: m.where(), Detail: detail, Inputs: ins,
		Sched: append([]int(nil), m.sched...), Trace: m.stackTrace(), Extra: extra, Harness: m.harness}
	m.violations = append(m.violations, v)
	if m.opts.Trace {
		fmt.Fprintf(os.Stderr, "VIOLATION candidate %s/%s at %s\n", kind, label, v.Site)
	}
}

// violationNow is for violations detected outside an assertion (panic, deadlock...): pc is sat by invariant.
func (m *Machine) violationNow(kind, label, detail string, extra map[string]string) {
	r := m.check()
	if r != Sat {
		m.abort("pc not sat when recording %s (%v)", kind, r)
	}
	m.recordViolation(kind, label, detail, extra)
}

func (m *Machine) reach(label string) {
	m.reached[label]++
	if _, ok := m.reachModel[label]; !ok {
		if m.check() == Sat {
			if ins, _, err := m.modelInputs(); err == nil {
				m.reachModel[label] = ins
			}
		}
	}
}

// ---- exploration driver ----

type RunResult struct {
	Harness     string
	Paths       int
	Done        int
	Pruned      int
	Outside     int
	Inconc      int
	InconcWhy   map[string]int
	OutWhy      map[string]int
	Decisions   int
	Violations  []*Violation
	Reached     map[string]int
	ReachModel  map[string][]InputVal
	Obligations int
	Discharged  int
	Funcs       map[string]int
	Opaque      map[string]int
	Solver      map[string]interface{}
	Wall        float64
	Truncated   bool
	Samples     []map[string]interface{}
	MaxSteps    int64
	ForkSites   map[string]int
}

func NewMachine(prog *ssa.Program, solver *Solver, opts Options) *Machine {
	return &Machine{prog: prog, solver: solver, opts: opts, baseOpts: opts,
		inconcWhy: map[string]int{}, outWhy: map[string]int{}, reached: map[string]int{},
		reachModel: map[string][]InputVal{}, funcs: map[*ssa.Function]int{}, opaqueCalls: map[string]int{},
		knownSupp: map[string]int{}, forkSites: map[string]int{}}
}

// Explore runs fn (a niladic harness function) over all paths.
func (m *Machine) Explore(fn *ssa.Function) *RunResult {
	m.start = time.Now()
	m.harness = fn.String()
	truncated := false
	for {
		m.paths++
		out := m.runPath(fn)
		switch out.kind {
		case "done":
			m.pathsDone++
		case "pruned":
			m.pathsPruned++
		case "violation-stop":
			m.pathsDone++
		case "outside-bound":
			m.pathsOut++
			m.outWhy[trimWhy(out.reason)]++
		default:
			m.pathsInconc++
			m.inconcWhy[trimWhy(out.reason)]++
			if m.opts.Trace {
				fmt.Fprintf(os.Stderr, "INCONCLUSIVE path: %s\n", out.reason)
			}
		}
		if m.opts.Trace {
			fmt.Fprintf(os.Stderr, "path %d: %s %s (decisions %d, steps %d)\n", m.paths, out.kind, out.reason, len(m.log), m.steps)
		}
		if m.steps > m.maxSteps {
			m.maxSteps = m.steps
		}
		if m.opts.StopAtFirst && len(m.violations) > 0 {
			truncated = true
			break
		}
		// backtrack
		i := len(m.log) - 1
		for i >= 0 && m.log[i].choice+1 >= len(m.log[i].alts) {
			i--
		}
		if i < 0 {
			break
		}
		m.log[i].choice++
		m.log = m.log[:i+1]
		if m.opts.MaxPaths > 0 && m.paths >= m.opts.MaxPaths {
			truncated = true
			break
		}
	}
	res := &RunResult{Harness: m.harness, Paths: m.paths, Done: m.pathsDone, Pruned: m.pathsPruned,
		Outside: m.pathsOut, Inconc: m.pathsInconc, InconcWhy: m.inconcWhy, OutWhy: m.outWhy,
		Decisions: m.decisions, Violations: m.violations, Reached: m.reached, ReachModel: m.reachModel,
		Obligations: m.obligations, Discharged: m.discharged, Funcs: map[string]int{}, Opaque: m.opaqueCalls,
		Solver: m.solver.Stats(), Wall: time.Since(m.start).Seconds(), Truncated: truncated,
		Samples: m.samples, MaxSteps: m.maxSteps, ForkSites: m.forkSites}
	for f, n := range m.funcs {
		res.Funcs[f.String()] = n
	}
	return res
}

func trimWhy(s string) string {
	if len(s) > 160 {
		s = s[:160]
	}
	return s
}

func (m *Machine) resetPath() {
	m.pos = 0
	m.pc = m.pc[:0]
	m.globals = map[*ssa.Global]*value{}
	m.inputs = nil
	m.inputLbl = nil
	m.labelCnt = map[string]int{}
	m.steps = 0
	m.gs = nil
	m.cur = nil
	m.done = make(chan *abortPath, 4)
	m.sched = nil
	m.preempts = 0
	m.schedOff = false
	m.timerChoice = false
	m.mutexes = map[*value]*mutexState{}
	m.wgs = map[*value]*wgState{}
	m.atomicVals = map[*value]value{}
	m.onces = map[*value]*onceState{}
	m.conds = map[*value]*condState{}
	m.chanSeq = 0
	m.observed = nil
	m.pathNotes = nil
	m.finished = false
	m.initDone = map[*ssa.Package]bool{}
	m.sigCache = map[string]value{}
	m.ghost = map[string]*Term{}
	m.timers = nil
	m.ptrIDs = map[*value]int{}
	m.inInit = 0
	m.syncMaps = map[*value]*mapV{}
	m.pools = map[*value][]value{}
	m.files = map[*value]*fileState{}
	m.afterFuncs = map[*value]*afterFuncState{}
	m.syncVC = map[hbKey]vclock{}
	m.mapRaces = map[*mapV]*mapRaceState{}
	m.sliceRaces = map[*value]*mapRaceState{}
	m.raceSeen = map[string]bool{}
	m.overrides = map[string]value{}
	for k, v := range m.baseOverrides {
		m.overrides[k] = v
	}
	m.racyScope = ""
	m.randInts = nil
	m.randDraws = 0
	m.mapOrderNondet = false
	m.opts = m.baseOpts
	m.testFailed, m.testSkipped, m.testCleanups = false, false, nil
	m.clock = 0
	m.condQ = nil
	m.symClock, m.prevNow = false, nil
	m.builders = nil
}

func (m *Machine) runPath(fn *ssa.Function) *abortPath {
	m.resetPath()
	if m.resetEvery > 0 && m.paths%m.resetEvery == 0 {
		m.solver.Reset()
	}
	g0 := m.newG("main")
	m.cur = g0
	g0.started = true
	go m.gMain(g0, func() {
		m.initPackagesFor(fn)
		var args []value
		if m.entryArgs != nil {
			args = m.entryArgs()
		}
		m.callFn(nil, token.NoPos, fn, args)
		for i := len(m.testCleanups) - 1; i >= 0; i-- {
			m.call(nil, token.NoPos, m.testCleanups[i], nil)
		}
	}, true)
	g0.resume <- true
	out := <-m.done
	m.finished = true
	if m.afterPath != nil {
		m.afterPath()
	}
	// kill every other goroutine still parked
	for _, g := range m.gs {
		if g.state != 2 && g != m.cur {
			if g.started {
				g.resume <- false
			}
		}
	}
	if len(m.samples) < 6 && (out.kind == "done") && len(m.inputs) > 0 {
		if m.check() == Sat {
			if ins, _, err := m.modelInputs(); err == nil {
				s := map[string]interface{}{"path": m.paths, "outcome": out.kind, "inputs": compactInputs(ins), "observed": m.observed}
				m.samples = append(m.samples, s)
			}
		}
	}
	return out
}

func compactInputs(ins []InputVal) string {
	var sb strings.Builder
	for i, in := range ins {
		if i > 0 {
			sb.WriteByte(' ')
		}
		if i > 48 {
			sb.WriteString("…")
			break
		}
		fmt.Fprintf(&sb, "%s=%#x", in.Label, in.Val)
	}
	return sb.String()
}

func (m *Machine) newG(name string) *G {
	g := &G{id: len(m.gs), resume: make(chan bool), name: name}
	// go statement: everything the parent did so far happens before the child starts
	if p := m.cur; p != nil && p.vc != nil {
		g.vc = p.vc.clone()
		p.vc[p.id]++
	} else {
		g.vc = vclock{}
	}
	g.vc[g.id] = 1
	m.gs = append(m.gs, g)
	return g
}

// gMain is the host goroutine body for interpreted goroutine g.
func (m *Machine) gMain(g *G, body func(), isMain bool) {
	ok := <-g.resume
	if !ok {
		return
	}
	defer func() {
		r := recover()
		switch r := r.(type) {
		case nil:
			// normal end
			g.state = 2
			if isMain {
				m.done <- &abortPath{kind: "done"}
				return
			}
			m.gExit(g)
		case killG:
			return
		case *abortPath:
			g.state = 2
			m.done <- r
		case targetPanic:
			g.state = 2
			if m.opts.CheckPanics {
				msg := panicString(r.v)
				func() {
					defer func() {
						if rr := recover(); rr != nil {
							if ap, ok := rr.(*abortPath); ok {
								m.done <- ap
								return
							}
							panic(rr)
						}
						m.done <- &abortPath{kind: "violation-stop", reason: "uncaught panic: " + msg}
					}()
					m.siteFn = r.fn
					defer func() { m.siteFn = "" }()
					m.violationNow("panic", "no-panic", "uncaught panic in goroutine "+g.name+": "+msg+" at "+r.where, map[string]string{"panic": msg, "where": r.where})
				}()
			} else {
				m.done <- &abortPath{kind: "inconclusive", reason: "uncaught target panic: " + panicString(r.v) + " at " + r.where}
			}
		default:
			// engine bug
			g.state = 2
			m.done <- &abortPath{kind: "inconclusive", reason: fmt.Sprintf("engine panic: %v at %s", r, m.where())}
			if os.Getenv("SYMGO_DEBUG") != "" {
				panic(r)
			}
		}
	}()
	body()
}

func panicString(v value) string {
	switch v := v.(type) {
	case ifaceV:
		if s, ok := v.v.(strV); ok {
			return s.String()
		}
		if v.t != nil {
			return v.t.String() + ":" + describe(v.v)
		}
		return "nil"
	case strV:
		return v.String()
	}
	return describe(v)
}

func sortedCounts(m map[string]int) []string {
	var ks []string
	for k := range m {
		ks = append(ks, k)
	}
	sort.Strings(ks)
	var out []string
	for _, k := range ks {
		out = append(out, fmt.Sprintf("%s ×%d", k, m[k]))
	}
	return out
}

func shortFn(f string) string {
	f = strings.ReplaceAll(f, "github.com/lugu/qiloop/", "")
	return f
}

// maximizeInputs greedily drives the symbolic inputs towards all-ones (little-endian counts become
// huge) while keeping pc ∧ extra satisfiable, so that a resource finding replays as an actual
// blow-up natively. Leaves the solver in a Sat state for model extraction; returns the literals used.
func (m *Machine) maximizeInputs(extra []*Term) []*Term {
	lits := append([]*Term(nil), extra...)
	for i := len(m.inputs) - 1; i >= 0; i-- {
		t := m.inputs[i]
		for _, cand := range []uint64{mask(t.W), mask(t.W) >> 1} {
			try := append(append([]*Term(nil), lits...), tEq(t, mkConst(t.W, cand)))
			if m.check(try...) == Sat {
				lits = try
				break
			}
		}
	}
	if m.check(lits...) != Sat {
		m.check(extra...)
		return extra
	}
	return lits
}

// pipeState / fileState: the model of os.Pipe (see extern.go).
type pipeState struct {
	buf              []value
	rclosed, wclosed bool
}

type fileState struct {
	p      *pipeState
	w      bool
	closed bool
}
