package main

// `symgo check <property> --tier quick|thorough`: run every registered harness of the property
// in worker processes, confirm counterexamples and witnesses by native replay, write evidence,
// print VIOLATION / KNOWN-FINDING lines and set the exit code.

import (
	"bufio"
	"bytes"
	"encoding/json"
	"flag"
	"fmt"
	"hash/crc32"
	"os"
	"os/exec"
	"path/filepath"
	"regexp"
	"sort"
	"strconv"
	"strings"
	"sync"
	"time"
)

type HarnessSpec struct {
	Pkg         string            `json:"pkg"`
	Func        string            `json:"func"`
	Tier        string            `json:"tier"` // "quick" (both tiers) or "thorough"
	Args        map[string]string `json:"args"`
	Reach       []string          `json:"reach"`
	Note        string            `json:"note"`
	NoReplay    bool              `json:"no_replay"` // schedule-dependent: counterexamples are engine traces
	NoWitness   bool              `json:"no_witness"`
	Gen         *GenSpec          `json:"gen"`
	CompileOnly bool              `json:"compile_only"`
	Race        bool              `json:"race"`
	Timeout     int               `json:"timeout_s"`
}

// GenSpec: run the current tree's stub/proxy generator on an IDL file; the output is overlaid into the package.
type GenSpec struct {
	IDL  string `json:"idl"`  // relative to /verif
	Path string `json:"path"` // Go import path of the generated package
	// NoPathFlag: run the generator as the repository's own go:generate lines do (without --path)
	NoPathFlag bool `json:"no_path_flag"`
	// RegenerateOver: another IDL file generated FIRST into the same output file (a regeneration over an
	// existing, longer stub: what a developer's second `go generate` does)
	RegenerateOver string `json:"regenerate_over"`
}

type PropertySpec struct {
	Level       string        `json:"level"`
	Harnesses   []HarnessSpec `json:"harnesses"`
	Assumptions []string      `json:"assumptions"`
	Bounds      string        `json:"bounds"`
}

type Registry struct {
	Properties map[string]*PropertySpec `json:"properties"`
}

type KnownFinding struct {
	Status   string `json:"status"`
	Property string `json:"property"`
	Harness  string `json:"harness,omitempty"`
	Label    string `json:"label"`
	Kind     string `json:"kind,omitempty"`
	What     string `json:"what"`
	Commit   string `json:"commit,omitempty"`
	// Match: inputs (by label) that must have exactly these values for a violation to be this finding
	Match map[string]uint64 `json:"match,omitempty"`
}

type workerOut struct {
	Result *RunResult `json:"result"`
	LoadS  float64    `json:"load_s"`
}

type harnessRun struct {
	spec       HarnessSpec
	out        *workerOut
	err        string
	wall       float64
	stderr     string
	replays    []replayOutcome
	skipped    bool
	transcript string
	cross      map[string]interface{}
}

// engineAlsoFails: the engine reported the same assertion as violated in this harness (a listed known
// finding on the witness path): the native failure is an agreement, not a disagreement.
func engineAlsoFails(r *harnessRun, label string) bool {
	if r.out == nil {
		return false
	}
	for _, v := range r.out.Result.Violations {
		if v.Label == label {
			return true
		}
	}
	return false
}

type replayOutcome struct {
	File       string
	Kind       string // witness | counterexample
	Label      string
	Reproduced bool
	Detail     string
}

func verifRoot() string {
	if r := os.Getenv("VERIF_ROOT"); r != "" {
		return r
	}
	exe, err := os.Executable()
	if err == nil {
		d := filepath.Dir(filepath.Dir(exe))
		if _, err := os.Stat(filepath.Join(d, "checks.json")); err == nil {
			return d
		}
	}
	return "/verif"
}

func cmdCheck(args []string) {
	fs := flag.NewFlagSet("check", flag.ExitOnError)
	tier := fs.String("tier", "quick", "quick|thorough")
	repo := fs.String("repo", "/repo", "")
	only := fs.String("only", "", "run only this harness func")
	keep := fs.Bool("keep", false, "keep scratch dir")
	jobs := fs.Int("j", 14, "parallel workers")
	noEvidence := fs.Bool("no-evidence", false, "")
	var prop string
	if len(args) > 0 && !strings.HasPrefix(args[0], "-") {
		prop = args[0]
		args = args[1:]
	}
	fs.Parse(args)
	if prop == "" && fs.NArg() > 0 {
		prop = fs.Arg(0)
	}
	if t := os.Getenv("VERIF_TIER"); t != "" && *tier == "" {
		*tier = t
	}
	seed := 0
	if s := os.Getenv("VERIF_SEED"); s != "" {
		seed, _ = strconv.Atoi(s)
	}
	root := verifRoot()
	t0 := time.Now()

	var reg Registry
	data, err := os.ReadFile(filepath.Join(root, "checks.json"))
	if err != nil {
		fmt.Println("INCONCLUSIVE property=" + prop + " reason=no registry: " + err.Error())
		os.Exit(2)
	}
	if err := json.Unmarshal(data, &reg); err != nil {
		fmt.Println("INCONCLUSIVE property=" + prop + " reason=bad registry: " + err.Error())
		os.Exit(2)
	}
	ps := reg.Properties[prop]
	if ps == nil {
		fmt.Println("INCONCLUSIVE property=" + prop + " reason=not registered")
		os.Exit(2)
	}
	known := loadKnown(filepath.Join(root, "known_findings.jsonl"))

	scratch, err := os.MkdirTemp("", "verif-"+prop+"-")
	if err != nil {
		fmt.Println("INCONCLUSIVE property=" + prop + " reason=" + err.Error())
		os.Exit(2)
	}
	if !*keep {
		defer os.RemoveAll(scratch)
	}
	modfile := filepath.Join(scratch, "go.mod")
	copyFile(filepath.Join(*repo, "go.mod"), modfile)
	copyFile(filepath.Join(*repo, "go.sum"), filepath.Join(scratch, "go.sum"))

	var runs []*harnessRun
	for _, h := range ps.Harnesses {
		if h.Tier == "thorough" && *tier != "thorough" {
			continue
		}
		if h.Tier == "quickonly" && *tier == "thorough" {
			continue
		}
		if *only != "" && h.Func != *only {
			continue
		}
		runs = append(runs, &harnessRun{spec: h})
	}
	if len(runs) == 0 {
		fmt.Println("INCONCLUSIVE property=" + prop + " reason=no harness for tier")
		os.Exit(2)
	}

	// ---- code generation (C05): run the tree's generator natively, then compile the result ----
	var violationLines []string
	genFiles := map[string]string{}
	genFailed := map[string]bool{}
	replayDirGen := filepath.Join(root, "replays", prop)
	for _, r := range runs {
		g := r.spec.Gen
		if g == nil {
			continue
		}
		if _, done := genFiles[r.spec.Pkg]; done || genFailed[r.spec.Pkg] {
			continue
		}
		outFile := filepath.Join(scratch, "gen_"+sanitize(r.spec.Pkg)+".go")
		genArgs := []string{"run", "-modfile=" + modfile, "./meta/cmd/stub", "--idl", filepath.Join(root, g.IDL), "--output", outFile}
		if !g.NoPathFlag {
			genArgs = append(genArgs, "--path", g.Path)
		}
		if g.RegenerateOver != "" {
			pre := exec.Command("go", "run", "-modfile="+modfile, "./meta/cmd/stub", "--idl", filepath.Join(root, g.RegenerateOver), "--output", outFile)
			pre.Dir = *repo
			pre.Env = append(os.Environ(), "GOFLAGS=-mod=mod", "GOPROXY=off", "GOSUMDB=off", "GOTOOLCHAIN=local")
			pre.CombinedOutput() // its own outcome is judged where that program is the subject
		}
		cmd := exec.Command("go", genArgs...)
		cmd.Dir = *repo
		cmd.Env = append(os.Environ(), "GOFLAGS=-mod=mod", "GOPROXY=off", "GOSUMDB=off", "GOTOOLCHAIN=local")
		out, err := cmd.CombinedOutput()
		st, _ := os.Stat(outFile)
		label := ""
		detail := ""
		if err != nil || st == nil || st.Size() == 0 {
			label = "generator-failed[" + filepath.Base(r.spec.Pkg) + "]"
			detail = "the stub/proxy generator failed on a well-formed IDL package: " + tail(string(out), 600)
		} else {
			// does the generated code compile (together with the harness of that package)?
			ov := map[string]string{
				filepath.Join(*repo, "internal/zzverif/sym/sym.go"): filepath.Join(root, "harness/sym/sym.go"),
				filepath.Join(*repo, r.spec.Pkg, "zz_gen.go"):       outFile,
			}
			files, _ := filepath.Glob(filepath.Join(root, "harness", r.spec.Pkg, "*.go"))
			for _, f := range files {
				ov[filepath.Join(*repo, r.spec.Pkg, "zz_verif_"+filepath.Base(f))] = f
			}
			ovData, _ := json.Marshal(map[string]interface{}{"Replace": ov})
			ovFile := filepath.Join(scratch, "ov_gen_"+sanitize(r.spec.Pkg)+".json")
			os.WriteFile(ovFile, ovData, 0644)
			b := exec.Command("go", "build", "-tags", "verif", "-modfile="+modfile, "-overlay", ovFile, "./"+r.spec.Pkg)
			b.Dir = *repo
			b.Env = cmd.Env
			bout, berr := b.CombinedOutput()
			if berr != nil {
				label = "generated-code-compiles[" + filepath.Base(r.spec.Pkg) + "]"
				detail = "the generated proxy/stub code does not compile: " + tail(string(bout), 900)
			}
		}
		if label == "" {
			genFiles[r.spec.Pkg] = outFile
			continue
		}
		genFailed[r.spec.Pkg] = true
		v := &Violation{Label: label, Kind: "gen", Site: g.IDL, Detail: detail, Harness: r.spec.Func}
		if kf := matchKnown(known, prop, r.spec.Func, v); kf != nil {
			fmt.Printf("KNOWN-FINDING: property=%s %s [label=%s]\n", prop, kf.What, kf.Label)
			continue
		}
		os.MkdirAll(replayDirGen, 0755)
		f := filepath.Join(replayDirGen, sanitize(label)+".json")
		idlText, _ := os.ReadFile(filepath.Join(root, g.IDL))
		d, _ := json.MarshalIndent(map[string]interface{}{"property": prop, "kind": "generated-code", "label": label, "idl": string(idlText), "detail": detail,
			"replay_kind": "native: go run ./meta/cmd/stub on the IDL, then go build"}, "", " ")
		os.WriteFile(f, d, 0644)
		fmt.Printf("  label=%s idl=%s: %s\n", label, g.IDL, tail(detail, 400))
		violationLines = append(violationLines, fmt.Sprintf("VIOLATION property=%s replay=%s", prop, f))
	}

	exe, _ := os.Executable()
	sem := make(chan bool, *jobs)
	var wg sync.WaitGroup
	for i, r := range runs {
		wg.Add(1)
		go func(i int, r *harnessRun) {
			defer wg.Done()
			sem <- true
			defer func() { <-sem }()
			if r.spec.CompileOnly || genFailed[r.spec.Pkg] {
				r.skipped = true
				return
			}
			ts := time.Now()
			outFile := filepath.Join(scratch, fmt.Sprintf("res-%d.json", i))
			a := []string{"run", "-repo", *repo, "-pkg", r.spec.Pkg, "-func", r.spec.Func, "-harness", filepath.Join(root, "harness"),
				"-modfile", modfile, "-out", outFile}
			for k, v := range r.spec.Args {
				a = append(a, "-"+k+"="+v)
			}
			if gf, ok := genFiles[r.spec.Pkg]; ok {
				a = append(a, "-extra="+filepath.Join(*repo, r.spec.Pkg, "zz_gen.go")+"="+gf)
			}
			if *tier == "thorough" {
				a = append(a, "-qtimeout=60000")
				r.transcript = filepath.Join(scratch, fmt.Sprintf("tr-%d.smt2", i))
				a = append(a, "-transcript="+r.transcript)
			}
			to := r.spec.Timeout
			if to == 0 {
				to = 900
				if *tier == "thorough" {
					to = 7200
				}
			}
			cmd := exec.Command("timeout", append([]string{strconv.Itoa(to), exe}, a...)...)
			cmd.Env = append(os.Environ(), "VERIF_TIER="+*tier)
			var eb bytes.Buffer
			cmd.Stderr = &eb
			cmd.Stdout = &eb
			err := cmd.Run()
			r.wall = time.Since(ts).Seconds()
			r.stderr = eb.String()
			if err != nil {
				r.err = fmt.Sprintf("worker failed: %v: %s", err, tail(r.stderr, 600))
				return
			}
			d, err := os.ReadFile(outFile)
			if err != nil {
				r.err = "no worker output: " + err.Error()
				return
			}
			var wo workerOut
			if err := json.Unmarshal(d, &wo); err != nil {
				r.err = "bad worker output: " + err.Error()
				return
			}
			r.out = &wo
		}(i, r)
	}
	wg.Wait()

	// ---- classify ----
	var inconclusive []string
	type vio struct {
		run *harnessRun
		v   *Violation
	}
	var fresh []vio
	knownHit := map[string]*KnownFinding{}
	knownCount := map[string]int{}
	for _, r := range runs {
		if r.skipped {
			continue
		}
		if r.err != "" {
			inconclusive = append(inconclusive, r.spec.Func+": "+r.err)
			continue
		}
		res := r.out.Result
		if res.Inconc > 0 {
			inconclusive = append(inconclusive, fmt.Sprintf("%s: %d inconclusive paths: %s", r.spec.Func, res.Inconc, strings.Join(sortedCounts(res.InconcWhy), "; ")))
		}
		if res.Truncated {
			inconclusive = append(inconclusive, r.spec.Func+": exploration truncated")
		}
		for _, lbl := range r.spec.Reach {
			if res.Reached[lbl] == 0 {
				inconclusive = append(inconclusive, fmt.Sprintf("%s: vacuity: label %q never reached", r.spec.Func, lbl))
			}
		}
		for _, v := range res.Violations {
			if kf := matchKnown(known, prop, r.spec.Func, v); kf != nil {
				key := kf.Label + "|" + kf.Harness + "|" + kf.Kind + "|" + kf.What
				knownHit[key] = kf
				knownCount[key]++
				continue
			}
			fresh = append(fresh, vio{r, v})
		}
	}

	// ---- cross-solver diff (thorough): every logged query re-decided by z3 5.1.0 and cvc5 ----
	if *tier == "thorough" {
		var cwg sync.WaitGroup
		for _, r := range runs {
			if r.transcript == "" || r.out == nil {
				continue
			}
			cwg.Add(1)
			go func(r *harnessRun) {
				defer cwg.Done()
				sem <- true
				defer func() { <-sem }()
				r.cross = crossSolver(r.transcript)
			}(r)
		}
		cwg.Wait()
		for _, r := range runs {
			if r.cross == nil {
				continue
			}
			if d, _ := r.cross["disagreements"].(int); d > 0 {
				inconclusive = append(inconclusive, fmt.Sprintf("%s: solvers disagree on %d queries (engine error, not a violation): %v", r.spec.Func, d, r.cross))
			}
		}
	}

	// ---- native replay ----
	replayDir := filepath.Join(root, "replays", prop)
	os.MkdirAll(replayDir, 0755)
	rp := newReplayer(*repo, root, scratch, modfile)
	nValidated := 0
	rp.genFiles = genFiles
	// witnesses: one per harness and reach label
	for _, r := range runs {
		if r.out == nil || r.spec.NoWitness {
			continue
		}
		labels := append([]string(nil), r.spec.Reach...)
		sort.Strings(labels)
		for _, lbl := range labels {
			ins := r.out.Result.ReachModel[lbl]
			if ins == nil {
				continue
			}
			f := filepath.Join(scratch, fmt.Sprintf("wit-%s-%s.json", r.spec.Func, sanitize(lbl)))
			writeReplay(f, prop, r.spec, "witness", lbl, ins, nil)
			o := rp.run(r.spec, f, false)
			// the native harness waits for quiescence by sleeping: on a loaded machine a witness of a
			// concurrent scenario may be cut short. A disagreement is re-tried with longer waits before
			// it counts (an encoding error does not go away with time).
			for _, ms := range []int{200, 600} {
				if o.err != "" || !((o.assertFail != "" && !engineAlsoFails(r, o.assertFail)) || o.panicked || !o.reached[lbl]) {
					break
				}
				rp.quiesceMs = ms
				o = rp.run(r.spec, f, false)
				rp.quiesceMs = 0
			}
			ro := replayOutcome{File: f, Kind: "witness", Label: lbl}
			if o.err != "" {
				inconclusive = append(inconclusive, fmt.Sprintf("%s: witness replay failed to run: %s", r.spec.Func, o.err))
			} else if (o.assertFail != "" && !engineAlsoFails(r, o.assertFail)) || o.panicked || !o.reached[lbl] {
				ro.Detail = fmt.Sprintf("native run disagrees with engine on witness %q: assertFail=%q panicked=%v reached=%v\n%s", lbl, o.assertFail, o.panicked, o.reached[lbl], tail(o.output, 800))
				inconclusive = append(inconclusive, r.spec.Func+": "+ro.Detail)
			} else {
				ro.Reproduced = true
				nValidated++
			}
			r.replays = append(r.replays, ro)
		}
	}
	// counterexamples: group by (harness,label,kind), replay up to 3 of each
	perKey := map[string]int{}
	reported := map[string]bool{}
	for _, fv := range fresh {
		key := fv.run.spec.Func + "|" + fv.v.Label + "|" + fv.v.Kind
		if reported[key] || perKey[key] >= 3 {
			continue
		}
		perKey[key]++
		f := filepath.Join(replayDir, fmt.Sprintf("%s-%s-%d.json", fv.run.spec.Func, sanitize(fv.v.Label), perKey[key]))
		writeReplay(f, prop, fv.run.spec, "counterexample", fv.v.Label, fv.v.Inputs, fv.v)
		randDependent := false
		for _, in := range fv.v.Inputs {
			if strings.HasPrefix(in.Label, "rand.") {
				randDependent = true // values drawn from math/rand cannot be forced in the native run
			}
		}
		if fv.v.Extra["timer-dependent"] == "true" {
			randDependent = true // the relative timing of a timer cannot be forced in the native run either
		}
		if (fv.run.spec.NoReplay || randDependent) && fv.v.Kind != "maprace" && fv.v.Kind != "slicerace" {
			// schedule-dependent finding: the engine trace is the replay artefact
			violationLines = append(violationLines, fmt.Sprintf("VIOLATION property=%s replay=%s", prop, f))
			fmt.Printf("  (engine-trace) harness=%s label=%s kind=%s site=%s: %s\n", fv.run.spec.Func, fv.v.Label, fv.v.Kind, fv.v.Site, fv.v.Detail)
			reported[key] = true
			continue
		}
		rspec := fv.run.spec
		if fv.v.Kind == "maprace" || fv.v.Kind == "slicerace" {
			rspec.Race = true // a map race is independent of the schedule: the native run under -race must report it
		}
		o := rp.run(rspec, f, fv.v.Kind == "deadlock")
		ro := replayOutcome{File: f, Kind: "counterexample", Label: fv.v.Label}
		ok := false
		switch fv.v.Kind {
		case "assert":
			ok = o.assertFail == fv.v.Label || (fv.run.spec.Race && o.race)
		case "maprace":
			ok = o.race || strings.Contains(o.output, "concurrent map")
		case "slicerace":
			ok = o.race
		case "panic", "fatal":
			ok = o.panicked
		case "deadlock":
			ok = o.timedOut || o.deadlocked
		case "alloc":
			ok = o.panicked || o.timedOut || o.oom || strings.HasPrefix(o.assertFail, "bounded-alloc")
		case "loop":
			// natively a runaway loop shows as a time-out, as the measured bound, or — when the loop runs in
			// another goroutine of a time-bounded harness — as the liveness assertion that fails meanwhile
			ok = o.timedOut || strings.HasPrefix(o.assertFail, "bounded-loop") || strings.HasPrefix(o.assertFail, "bounded-alloc") || o.oom || o.assertFail != ""
		}
		if o.err != "" {
			inconclusive = append(inconclusive, fmt.Sprintf("%s: counterexample replay failed to run: %s", fv.run.spec.Func, o.err))
		} else if ok {
			ro.Reproduced = true
			nValidated++
			reported[key] = true
			violationLines = append(violationLines, fmt.Sprintf("VIOLATION property=%s replay=%s", prop, f))
			fmt.Printf("  harness=%s label=%s kind=%s site=%s: %s\n  inputs: %s\n", fv.run.spec.Func, fv.v.Label, fv.v.Kind, fv.v.Site, fv.v.Detail, compactInputs(fv.v.Inputs))
		} else {
			ro.Detail = fmt.Sprintf("counterexample for %q (%s) did not reproduce natively (assertFail=%q panicked=%v timedOut=%v): encoding or stub error\n%s",
				fv.v.Label, fv.v.Kind, o.assertFail, o.panicked, o.timedOut, tail(o.output, 800))
			inconclusive = append(inconclusive, fv.run.spec.Func+": "+ro.Detail)
			os.Remove(f)
		}
		fv.run.replays = append(fv.run.replays, ro)
	}
	rp.cleanup()

	// ---- report ----
	var keys []string
	for k := range knownHit {
		keys = append(keys, k)
	}
	sort.Strings(keys)
	for _, k := range keys {
		kf := knownHit[k]
		fmt.Printf("KNOWN-FINDING: property=%s %s [label=%s, %d counterexample(s) this run]\n", prop, kf.What, kf.Label, knownCount[k])
	}
	wall := time.Since(t0).Seconds()
	if !*noEvidence {
		writeEvidence(root, prop, *tier, seed, ps, runs, nValidated, len(violationLines), inconclusive, knownHit, wall)
	}
	for _, l := range violationLines {
		fmt.Println(l)
	}
	summarize(prop, *tier, runs, wall)
	if len(violationLines) > 0 {
		os.Exit(1)
	}
	if len(inconclusive) > 0 {
		for _, s := range inconclusive {
			fmt.Printf("INCONCLUSIVE property=%s reason=%s\n", prop, s)
		}
		os.Exit(2)
	}
	fmt.Printf("OK property=%s tier=%s: holds within the registered bounds (%.1fs)\n", prop, *tier, wall)
}

func summarize(prop, tier string, runs []*harnessRun, wall float64) {
	for _, r := range runs {
		if r.skipped {
			fmt.Printf("  %-28s compile-only / generation step\n", r.spec.Func)
			continue
		}
		if r.out == nil {
			fmt.Printf("  %-28s FAILED %s\n", r.spec.Func, tail(r.err, 300))
			continue
		}
		res := r.out.Result
		fmt.Printf("  %-28s paths=%d done=%d pruned=%d outside=%d inconcl=%d oblig=%d/%d viol=%d queries=%v/%v/%v solver=%vs wall=%.1fs\n",
			r.spec.Func, res.Paths, res.Done, res.Pruned, res.Outside, res.Inconc, res.Discharged, res.Obligations, len(res.Violations),
			res.Solver["sat"], res.Solver["unsat"], res.Solver["unknown"], res.Solver["solver_s"], r.wall)
	}
}

func tail(s string, n int) string {
	if len(s) > n {
		return "…" + s[len(s)-n:]
	}
	return s
}

func sanitize(s string) string {
	var sb strings.Builder
	for _, c := range s {
		if c >= 'a' && c <= 'z' || c >= 'A' && c <= 'Z' || c >= '0' && c <= '9' || c == '-' || c == '_' {
			sb.WriteRune(c)
		} else {
			sb.WriteByte('_')
		}
	}
	out := sb.String()
	if len(out) > 120 {
		// file names are limited to 255 bytes: keep both ends and a checksum of the whole label
		out = fmt.Sprintf("%s__%08x__%s", out[:60], crc32.ChecksumIEEE([]byte(s)), out[len(out)-40:])
	}
	return out
}

func copyFile(src, dst string) error {
	d, err := os.ReadFile(src)
	if err != nil {
		return err
	}
	return os.WriteFile(dst, d, 0644)
}

func loadKnown(path string) []*KnownFinding {
	f, err := os.Open(path)
	if err != nil {
		return nil
	}
	defer f.Close()
	var out []*KnownFinding
	sc := bufio.NewScanner(f)
	sc.Buffer(make([]byte, 1<<20), 1<<20)
	for sc.Scan() {
		line := strings.TrimSpace(sc.Text())
		if line == "" || strings.HasPrefix(line, "#") {
			continue
		}
		var kf KnownFinding
		if json.Unmarshal([]byte(line), &kf) == nil {
			out = append(out, &kf)
		}
	}
	return out
}

func matchKnown(known []*KnownFinding, prop, harness string, v *Violation) *KnownFinding {
	for _, k := range known {
		if k.Status != "known" || k.Property != prop {
			continue
		}
		if k.Label != v.Label {
			continue
		}
		if k.Harness != "" && k.Harness != harness {
			continue
		}
		if k.Kind != "" && k.Kind != v.Kind {
			continue
		}
		ok := true
		for lbl, want := range k.Match {
			found := false
			for _, in := range v.Inputs {
				if in.Label == lbl {
					found = in.Val == want
					break
				}
			}
			if !found {
				ok = false
				break
			}
		}
		if !ok {
			continue
		}
		return k
	}
	return nil
}

func writeReplay(path, prop string, h HarnessSpec, kind, label string, ins []InputVal, v *Violation) {
	m := map[string]interface{}{
		"property": prop, "harness": h.Func, "pkg": h.Pkg, "kind": kind, "label": label, "inputs": ins,
		"replay_kind": "native",
	}
	if h.NoReplay {
		m["replay_kind"] = "engine-trace"
	}
	if v != nil {
		m["violation"] = v
	}
	d, _ := json.MarshalIndent(m, "", " ")
	os.WriteFile(path, d, 0644)
}

// ---- native replayer ----

type replayer struct {
	repo, root, scratch, modfile string
	genFiles                     map[string]string
	bins                         map[string]string // pkg -> test binary
	binErr                       map[string]string
	mu                           sync.Mutex
	quiesceMs                    int // when > 0: how long the native harness sleeps to reach quiescence
}

type replayOut struct {
	err        string
	output     string
	assertFail string
	panicked   bool
	timedOut   bool
	deadlocked bool
	oom        bool
	reached    map[string]bool
	exit       int
	race       bool
}

func newReplayer(repo, root, scratch, modfile string) *replayer {
	return &replayer{repo: repo, root: root, scratch: scratch, modfile: modfile, bins: map[string]string{}, binErr: map[string]string{}}
}

func (rp *replayer) cleanup() {}

var harnessFuncRe = regexp.MustCompile(`(?m)^func ([A-Z]\w*)\(\)\s*\{`)

// harnessFuncs lists the niladic exported funcs of the harness files of a package (by scanning "func X()").
func harnessFuncs(dir string) []string {
	var out []string
	files, _ := filepath.Glob(filepath.Join(dir, "*.go"))
	for _, f := range files {
		d, _ := os.ReadFile(f)
		for _, mm := range harnessFuncRe.FindAllStringSubmatch(string(d), -1) {
			out = append(out, mm[1])
		}
	}
	sort.Strings(out)
	return out
}

func (rp *replayer) build(pkg string, race bool) (string, string) {
	rp.mu.Lock()
	defer rp.mu.Unlock()
	key := pkg
	if race {
		key += "#race"
	}
	if b, ok := rp.bins[key]; ok {
		return b, rp.binErr[key]
	}
	hdir := filepath.Join(rp.root, "harness", pkg)
	overlay := map[string]string{
		filepath.Join(rp.repo, "internal/zzverif/sym/sym.go"): filepath.Join(rp.root, "harness/sym/sym.go"),
	}
	if gf, ok := rp.genFiles[pkg]; ok {
		overlay[filepath.Join(rp.repo, pkg, "zz_gen.go")] = gf
	}
	files, _ := filepath.Glob(filepath.Join(hdir, "*.go"))
	pkgName := ""
	for _, f := range files {
		base := filepath.Base(f)
		overlay[filepath.Join(rp.repo, pkg, "zz_verif_"+base)] = f
		if pkgName == "" {
			d, _ := os.ReadFile(f)
			for _, line := range strings.Split(string(d), "\n") {
				if strings.HasPrefix(line, "package ") {
					pkgName = strings.TrimSpace(strings.TrimPrefix(line, "package "))
					break
				}
			}
		}
	}
	var sb strings.Builder
	sb.WriteString("//go:build verif\n\npackage " + pkgName + "\n\nimport (\n\t\"os\"\n\t\"testing\"\n)\n\n")
	sb.WriteString("var zzVerifHarnesses = map[string]func(){\n")
	for _, fn := range harnessFuncs(hdir) {
		fmt.Fprintf(&sb, "\t%q: %s,\n", fn, fn)
	}
	sb.WriteString("}\n\nfunc TestVerifReplay(t *testing.T) {\n\tf := zzVerifHarnesses[os.Getenv(\"VERIF_HARNESS\")]\n\tif f == nil {\n\t\tt.Fatalf(\"unknown harness\")\n\t}\n\tf()\n}\n")
	testFile := filepath.Join(rp.scratch, "replay_"+sanitize(key)+"_test.go")
	os.WriteFile(testFile, []byte(sb.String()), 0644)
	overlay[filepath.Join(rp.repo, pkg, "zz_verif_replay_test.go")] = testFile
	ovData, _ := json.Marshal(map[string]interface{}{"Replace": overlay})
	ovFile := filepath.Join(rp.scratch, "overlay_"+sanitize(key)+".json")
	os.WriteFile(ovFile, ovData, 0644)
	bin := filepath.Join(rp.scratch, "replay_"+sanitize(key)+".test")
	args := []string{"test", "-c", "-vet=off", "-tags", "verif", "-modfile=" + rp.modfile, "-overlay", ovFile, "-o", bin}
	if race {
		args = append(args, "-race")
	}
	args = append(args, "./"+pkg)
	cmd := exec.Command("go", args...)
	cmd.Dir = rp.repo
	cmd.Env = append(os.Environ(), "GOFLAGS=-mod=mod", "GOPROXY=off", "GOSUMDB=off", "GOTOOLCHAIN=local")
	out, err := cmd.CombinedOutput()
	if err != nil {
		rp.bins[key] = ""
		rp.binErr[key] = fmt.Sprintf("go test -c failed: %v\n%s", err, tail(string(out), 1500))
		return "", rp.binErr[key]
	}
	rp.bins[key] = bin
	return bin, ""
}

func (rp *replayer) run(h HarnessSpec, replayFile string, expectHang bool) replayOut {
	bin, berr := rp.build(h.Pkg, h.Race)
	if bin == "" {
		return replayOut{err: berr}
	}
	to := "20"
	if expectHang {
		to = "5"
	}
	cmd := exec.Command("timeout", "-s", "QUIT", to, bin, "-test.run", "^TestVerifReplay$", "-test.count=1", "-test.timeout=60s")
	cmd.Dir = filepath.Join(rp.repo, h.Pkg)
	if st, err := os.Stat(cmd.Dir); err != nil || !st.IsDir() {
		cmd.Dir = rp.repo // overlay-only package
	}
	cmd.Env = append(os.Environ(), "VERIF_REPLAY="+replayFile, "VERIF_HARNESS="+h.Func, "GOTRACEBACK=all")
	if rp.quiesceMs > 0 {
		cmd.Env = append(cmd.Env, fmt.Sprintf("VERIF_QUIESCE_MS=%d", rp.quiesceMs))
	}
	// bound memory: a counterexample for the allocation obligation must not take the machine down
	shell := fmt.Sprintf("ulimit -v 6000000; exec \"$@\"")
	full := exec.Command("bash", append([]string{"-c", shell, "replay"}, cmd.Args...)...)
	full.Dir = cmd.Dir
	full.Env = cmd.Env
	out, err := full.CombinedOutput()
	o := replayOut{output: string(out), reached: map[string]bool{}}
	if err != nil {
		if ee, ok := err.(*exec.ExitError); ok {
			o.exit = ee.ExitCode()
		} else {
			o.err = err.Error()
			return o
		}
	}
	for _, line := range strings.Split(o.output, "\n") {
		switch {
		case strings.HasPrefix(line, "VERIF-ASSERT-FAIL "):
			if o.assertFail == "" {
				o.assertFail = strings.TrimSpace(strings.TrimPrefix(line, "VERIF-ASSERT-FAIL "))
			}
		case strings.HasPrefix(line, "VERIF-REACH "):
			o.reached[strings.TrimSpace(strings.TrimPrefix(line, "VERIF-REACH "))] = true
		case strings.HasPrefix(line, "panic: ") || strings.HasPrefix(line, "fatal error: "):
			o.panicked = true
			if strings.Contains(line, "all goroutines are asleep") {
				o.deadlocked = true
			}
			if strings.Contains(line, "out of memory") || strings.Contains(line, "cannot allocate") {
				o.oom = true
			}
		case strings.HasPrefix(line, "SIGQUIT"):
			o.timedOut = true
		case strings.Contains(line, "WARNING: DATA RACE"):
			o.race = true
		}
	}
	if o.exit == 124 || o.exit == 131 || strings.Contains(o.output, "SIGQUIT: quit") {
		o.timedOut = true
	}
	if strings.Contains(o.output, "test timed out") {
		o.timedOut = true
	}
	return o
}

// ---- evidence ----

func writeEvidence(root, prop, tier string, seed int, ps *PropertySpec, runs []*harnessRun, nValidated, nViol int,
	inconclusive []string, knownHit map[string]*KnownFinding, wall float64) {
	states, transitions := 0, 0
	oblig, disch := 0, 0
	var samples []interface{}
	funcs := map[string]int{}
	var perHarness []interface{}
	q := map[string]float64{}
	outside := 0
	for _, r := range runs {
		if r.skipped {
			perHarness = append(perHarness, map[string]interface{}{"harness": r.spec.Func, "pkg": r.spec.Pkg, "note": "generation + compilation step only"})
			continue
		}
		if r.out == nil {
			perHarness = append(perHarness, map[string]interface{}{"harness": r.spec.Func, "error": r.err})
			continue
		}
		res := r.out.Result
		states += res.Done + res.Pruned + res.Outside
		transitions += res.Decisions
		oblig += res.Obligations
		disch += res.Discharged
		outside += res.Outside
		for _, s := range res.Samples {
			if len(samples) < 12 {
				s["harness"] = r.spec.Func
				samples = append(samples, s)
			}
		}
		for f, n := range res.Funcs {
			funcs[f] += n
		}
		for _, k := range []string{"sat", "unsat", "unknown", "errors", "solver_s"} {
			switch v := res.Solver[k].(type) {
			case float64:
				q[k] += v
			}
		}
		var reps []interface{}
		for _, ro := range r.replays {
			reps = append(reps, map[string]interface{}{"kind": ro.Kind, "label": ro.Label, "agrees_with_native": ro.Reproduced})
		}
		perHarness = append(perHarness, map[string]interface{}{
			"harness": r.spec.Func, "pkg": r.spec.Pkg, "note": r.spec.Note, "args": r.spec.Args,
			"paths": res.Paths, "completed": res.Done, "pruned_by_assume": res.Pruned, "outside_bound": res.Outside,
			"outside_bound_reasons": res.OutWhy, "inconclusive": res.Inconc, "inconclusive_reasons": res.InconcWhy,
			"decisions": res.Decisions, "obligations": res.Obligations, "discharged_unsat": res.Discharged,
			"violations_found": len(res.Violations), "reach_labels": res.Reached, "opaque_calls": res.Opaque,
			"solver": res.Solver, "wall_s": r.wall, "max_steps_per_path": res.MaxSteps, "native_replays": reps,
			"cross_solver": r.cross,
		})
	}
	var fl []string
	for f := range funcs {
		if strings.Contains(f, "github.com/lugu/qiloop") && !strings.Contains(f, "zzverif") {
			fl = append(fl, fmt.Sprintf("%s (%d instr executed)", strings.ReplaceAll(f, "github.com/lugu/qiloop/", ""), funcs[f]))
		}
	}
	sort.Strings(fl)
	if len(samples) == 0 {
		samples = append(samples, "no completed path with symbolic inputs")
	}
	var kf []string
	for _, k := range knownHit {
		kf = append(kf, k.Label+": "+k.What)
	}
	sort.Strings(kf)
	if states == 0 {
		states = 1
	}
	if transitions == 0 {
		transitions = 1
	}
	level := ps.Level
	if level == "" {
		level = "model_checking"
	}
	cov := map[string]interface{}{
		"states": states, "transitions": transitions, "traces_validated_against_impl": nValidated,
		"samples":     samples,
		"explanation": "states = symbolic path classes explored to completion (each stands for every input satisfying its path condition); transitions = solver-decided decisions (branch feasibility, value enumeration, scheduler choices); traces_validated_against_impl = witness and counterexample models replayed against the native build and found to agree",
		"obligations": oblig, "discharged": disch,
		"functions_encoded": fl, "bounds": ps.Bounds,
		"queries": q, "harnesses": perHarness, "outside_bound_paths": outside,
		"inconclusive": inconclusive, "known_findings_reproduced": kf,
		"exhaustive": len(inconclusive) == 0,
	}
	if level == "translation_validation" {
		progs := map[string]bool{}
		for _, r := range runs {
			if r.spec.Gen != nil {
				progs[r.spec.Gen.IDL] = true
			}
		}
		cov["programs"] = len(progs)
		cov["disagreements_checked"] = oblig
	}
	ev := map[string]interface{}{
		"property_id": prop, "tier": tier, "seed": seed, "level": level,
		"coverage": cov, "assumptions": ps.Assumptions, "wall_s": wall, "violations": nViol,
	}
	d, _ := json.MarshalIndent(ev, "", " ")
	os.MkdirAll(filepath.Join(root, "evidence"), 0755)
	os.WriteFile(filepath.Join(root, "evidence", prop+".json"), d, 0644)
}

// cmdReplay: `symgo replay <file> [-repo /repo]` re-runs a stored counterexample/witness natively.
func cmdReplay(args []string) {
	fs := flag.NewFlagSet("replay", flag.ExitOnError)
	repo := fs.String("repo", "/repo", "")
	var file string
	if len(args) > 0 && !strings.HasPrefix(args[0], "-") {
		file = args[0]
		args = args[1:]
	}
	fs.Parse(args)
	if file == "" {
		fmt.Println("usage: symgo replay <replay.json>")
		os.Exit(2)
	}
	if abs, err := filepath.Abs(file); err == nil {
		file = abs
	}
	data, err := os.ReadFile(file)
	if err != nil {
		fmt.Println(err)
		os.Exit(2)
	}
	var rf struct {
		Property   string `json:"property"`
		Harness    string `json:"harness"`
		Pkg        string `json:"pkg"`
		Kind       string `json:"kind"`
		Label      string `json:"label"`
		ReplayKind string `json:"replay_kind"`
		IDL        string `json:"idl"`
		Detail     string `json:"detail"`
	}
	json.Unmarshal(data, &rf)
	if rf.Kind == "generated-code" {
		fmt.Printf("replay of a generated-code finding: write the IDL below to a file and run\n  go run ./meta/cmd/stub --idl <file> --output gen.go --path <pkg> && go build\n%s\nrecorded outcome: %s\n", rf.IDL, rf.Detail)
		return
	}
	if rf.ReplayKind == "engine-trace" {
		fmt.Printf("%s is an engine trace (schedule-dependent, cannot be forced natively); re-run: bin/symgo check %s --only %s\n", file, rf.Property, rf.Harness)
		return
	}
	root := verifRoot()
	scratch, _ := os.MkdirTemp("", "verif-replay-")
	defer os.RemoveAll(scratch)
	modfile := filepath.Join(scratch, "go.mod")
	copyFile(filepath.Join(*repo, "go.mod"), modfile)
	copyFile(filepath.Join(*repo, "go.sum"), filepath.Join(scratch, "go.sum"))
	rp := newReplayer(*repo, root, scratch, modfile)
	o := rp.run(HarnessSpec{Pkg: rf.Pkg, Func: rf.Harness}, file, false)
	fmt.Printf("native replay of %s (%s %q): assert-failed=%q panicked=%v timed-out=%v race=%v\n%s\n", rf.Harness, rf.Kind, rf.Label, o.assertFail, o.panicked, o.timedOut, o.race, tail(o.output, 1500))
	if o.assertFail != "" || o.panicked || o.timedOut {
		os.Exit(1)
	}
}

// crossSolver replays a transcript through z3 4.8.12, z3 5.1.0 and cvc5 and compares the answers.
func crossSolver(path string) map[string]interface{} {
	data, err := os.ReadFile(path)
	if err != nil {
		return map[string]interface{}{"error": err.Error()}
	}
	truncated := false
	if limit := 96 << 20; len(data) > limit {
		// a prefix of the transcript is self-contained (definitions precede their uses): keep whole
		// queries up to the limit and say so
		cut := bytes.LastIndex(data[:limit], []byte("\n(check-sat"))
		if cut < 0 {
			return map[string]interface{}{"skipped": "transcript larger than 96 MiB without a query boundary"}
		}
		end := bytes.IndexByte(data[cut+1:], '\n')
		data = data[:cut+1+end+1]
		truncated = true
	}
	var sb strings.Builder
	hasFP := false
	for _, line := range strings.Split(string(data), "\n") {
		if strings.HasPrefix(line, "(get-value") {
			continue
		}
		if strings.Contains(line, "fp.to_ieee_bv") {
			hasFP = true
		}
		sb.WriteString(line)
		sb.WriteByte('\n')
	}
	text := sb.String()
	run := func(name string, args []string, input string) ([]string, string) {
		cmd := exec.Command("timeout", append([]string{"3600", name}, args...)...)
		cmd.Stdin = strings.NewReader(input)
		out, err := cmd.Output()
		var ans []string
		for _, l := range strings.Split(string(out), "\n") {
			l = strings.TrimSpace(l)
			if l == "sat" || l == "unsat" || l == "unknown" || strings.HasPrefix(l, "(error") {
				ans = append(ans, l)
			}
		}
		if err != nil && len(ans) == 0 {
			return nil, err.Error()
		}
		return ans, ""
	}
	// the three solvers work through the transcript at the same time
	var a1, a2 []string
	var e1, e2 string
	var swg sync.WaitGroup
	swg.Add(1)
	go func() { defer swg.Done(); a1, e1 = run("z3-new", []string{"-in"}, text) }()
	if !hasFP {
		swg.Add(1)
		go func() {
			defer swg.Done()
			ctext := regexp.MustCompile(`\(set-option :timeout \d+\)`).ReplaceAllString(text, "")
			ctext = "(set-logic ALL)\n" + strings.ReplaceAll(ctext, "(reset)", "(reset)\n(set-logic ALL)")
			a2, e2 = run("cvc5", []string{"--incremental", "--produce-models"}, ctext)
		}()
	}
	base, e0 := run("z3", []string{"-in"}, text)
	swg.Wait()
	res := map[string]interface{}{"queries": len(base)}
	if truncated {
		res["scope"] = "first 96 MiB of the transcript (whole queries)"
	}
	if e0 != "" {
		res["error"] = "z3: " + e0
		return res
	}
	disagreements := 0
	compare := func(name string, ans []string, e string) {
		if e != "" {
			res[name] = "failed: " + e
			return
		}
		if len(ans) != len(base) {
			res[name] = fmt.Sprintf("answered %d of %d queries", len(ans), len(base))
			disagreements++
			return
		}
		d, unk := 0, 0
		for i := range ans {
			if strings.HasPrefix(ans[i], "(error") {
				d++
			} else if ans[i] == "unknown" || base[i] == "unknown" {
				unk++
			} else if ans[i] != base[i] {
				d++
			}
		}
		res[name] = fmt.Sprintf("%d disagreements, %d unknown", d, unk)
		disagreements += d
	}
	compare("z3-5.1.0", a1, e1)
	if hasFP {
		res["cvc5"] = "skipped: transcript uses fp.to_ieee_bv (z3-specific)"
	} else {
		compare("cvc5-1.0", a2, e2)
	}
	res["disagreements"] = disagreements
	return res
}
