package main

// Cooperative goroutine scheduler (each interpreted goroutine is a host goroutine,
// exactly one holds the baton), channels, select, and models of sync primitives.

import (
	"fmt"
	"go/types"
)

type chanV struct {
	id     int
	cap    int
	buf    []value
	closed bool
	elemT  types.Type
	// rendezvous for unbuffered channels: a sender parks its value here
	sendq       []*sendReq
	recvWaiting int
	timer       bool // may fire at any time (time.After / Timer.C)
	fired       bool
}

type sendReq struct {
	v     value
	taken bool
	g     *G
}

type mutexState struct {
	locked  bool
	owner   *G
	readers int
	wwait   int
}

type wgState struct{ n int64 }
type onceState struct {
	done    bool
	running bool
}
type condState struct {
	waiters []*G
	gen     int
}

func (m *Machine) runnable() []*G {
	var rs []*G
	for _, g := range m.gs {
		if g.state == 2 {
			continue
		}
		if g.state == 0 || (g.state == 1 && g.ready != nil && g.ready()) {
			rs = append(rs, g)
		}
	}
	return rs
}

// switchTo hands the baton to next and parks the calling goroutine (m.cur) until resumed.
func (m *Machine) switchTo(next *G) {
	prev := m.cur
	if next == prev {
		return
	}
	m.cur = next
	m.sched = append(m.sched, next.id)
	next.resume <- true
	ok := <-prev.resume
	if !ok {
		panic(killG{})
	}
}

// gExit is called when a non-main goroutine ends: pass the baton on.
func (m *Machine) gExit(g *G) {
	rs := m.runnable()
	if len(rs) == 0 && m.fireOneTimer() {
		rs = m.runnable()
	}
	if len(rs) == 0 {
		m.deadlock("goroutine exit")
		return
	}
	i := m.pickDelay(rs, g)
	next := rs[i]
	m.cur = next
	m.sched = append(m.sched, next.id)
	next.state = 0
	next.resume <- true
}

// deadlock: nothing can run. Called from the current host goroutine, which then ends the path.
func (m *Machine) deadlock(at string) {
	var desc string
	for _, g := range m.gs {
		if g.state == 1 {
			desc += fmt.Sprintf("[g%d %s blocked on %s] ", g.id, g.name, g.what)
		}
	}
	ap := &abortPath{kind: "violation-stop", reason: "deadlock: " + desc}
	if m.opts.CheckDeadlock {
		func() {
			defer func() {
				if r := recover(); r != nil {
					if a, ok := r.(*abortPath); ok {
						ap = a
						return
					}
					panic(r)
				}
			}()
			m.violationNow("deadlock", "no-deadlock", "all goroutines blocked: "+desc, map[string]string{"blocked": desc})
		}()
	} else {
		ap = &abortPath{kind: "inconclusive", reason: "deadlock (unchecked): " + desc}
	}
	m.done <- ap
}

// block parks the current goroutine until ready() holds.
func (m *Machine) block(ready func() bool, what string) {
	for !ready() {
		g := m.cur
		g.state = 1
		g.ready = ready
		g.what = what + " at " + m.where()
		rs := m.runnable()
		// g itself is not ready (we just tested), so rs excludes it
		if len(rs) == 0 && m.fireOneTimer() {
			continue // nothing else can run: time passes and a pending timer fires
		}
		if len(rs) == 0 {
			m.deadlock(what)
			// the path is over; park forever until killed
			ok := <-g.resume
			if !ok {
				panic(killG{})
			}
			panic(killG{})
		}
		i := m.pickDelay(rs, g)
		rs[i].state = 0
		m.switchTo(rs[i])
		g.state = 0
	}
	m.cur.state = 0
	m.cur.ready = nil
}

// preemptPoint optionally switches to another runnable goroutine (context-bounded).
func (m *Machine) preemptPoint() {
	if m.schedOff || m.preempts >= m.opts.Preempt {
		return
	}
	if len(m.gs) < 2 {
		return
	}
	var rs []*G
	for _, g := range m.runnable() {
		if g != m.cur {
			rs = append(rs, g)
		}
	}
	if len(rs) == 0 {
		return
	}
	rs = m.rotate(rs, m.cur)
	n := m.opts.Preempt - m.preempts
	if n > len(rs) {
		n = len(rs)
	}
	i := m.choose("sched", n+1)
	if i == 0 {
		return
	}
	m.preempts += i
	next := rs[i-1]
	next.state = 0
	m.switchTo(next)
}

// yieldAll lets every other goroutine run until all are blocked or dead (quiescence).
func (m *Machine) quiesce() {
	for {
		var rs []*G
		for _, g := range m.runnable() {
			if g != m.cur {
				rs = append(rs, g)
			}
		}
		if len(rs) == 0 {
			if m.fireOneTimer() {
				continue // quiescence includes the timers somebody is waiting for
			}
			return
		}
		me := m.cur
		i := m.pickDelay(rs, me)
		me.state = 1
		me.what = "quiesce"
		// ready only when nobody else can run
		me.ready = func() bool {
			for _, g := range m.gs {
				if g == me || g.state == 2 {
					continue
				}
				if g.state == 0 || (g.state == 1 && g.ready != nil && g.ready()) {
					return false
				}
			}
			return true
		}
		rs[i].state = 0
		m.switchTo(rs[i])
		me.state = 0
		me.ready = nil
	}
}

func (m *Machine) spawn(name string, body func()) {
	g := m.newG(name)
	g.started = true
	go m.gMain(g, body, false)
	m.preemptPoint()
}

// ---- channels ----

func (m *Machine) makeChan(capN int, elemT types.Type) *chanV {
	m.chanSeq++
	return &chanV{id: m.chanSeq, cap: capN, elemT: elemT}
}

func (c *chanV) canRecv() bool {
	if c == nil {
		return false
	}
	if c.timer {
		return c.fired && len(c.buf) > 0
	}
	return len(c.buf) > 0 || c.closed || c.pendingSend() != nil
}

func (c *chanV) pendingSend() *sendReq {
	for _, s := range c.sendq {
		if !s.taken {
			return s
		}
	}
	return nil
}

func (c *chanV) canSend() bool {
	if c == nil {
		return false
	}
	if c.closed {
		return true // will panic
	}
	if len(c.buf) < c.cap {
		return true
	}
	return c.cap == 0 && c.recvWaiting > 0
}

func (m *Machine) chanSend(c *chanV, v value) {
	m.preemptPoint()
	if c == nil {
		m.block(func() bool { return false }, "send on nil channel")
	}
	if c.closed {
		m.targetPanic("send on closed channel")
	}
	if c.cap > 0 {
		m.block(func() bool { return c.closed || len(c.buf) < c.cap }, fmt.Sprintf("chan send (chan#%d full)", c.id))
		if c.closed {
			m.targetPanic("send on closed channel")
		}
		m.hbRelease(c, "send")
		m.hbAcquire(c, "recv")
		c.buf = append(c.buf, v)
		return
	}
	// unbuffered: park the value; complete when a receiver takes it
	req := &sendReq{v: v, g: m.cur}
	m.hbRelease(c, "send")
	c.sendq = append(c.sendq, req)
	m.block(func() bool { return req.taken || c.closed }, fmt.Sprintf("chan send (chan#%d unbuffered)", c.id))
	if !req.taken {
		c.removeReq(req)
		m.targetPanic("send on closed channel")
	}
	c.removeReq(req)
	m.hbAcquire(c, "recv")
}

func (c *chanV) removeReq(r *sendReq) {
	for i, s := range c.sendq {
		if s == r {
			c.sendq = append(c.sendq[:i], c.sendq[i+1:]...)
			return
		}
	}
}

// takeRecv performs a receive that is known to be possible.
func (c *chanV) takeRecv() (value, bool) {
	if len(c.buf) > 0 {
		v := c.buf[0]
		c.buf = c.buf[1:]
		return v, true
	}
	if s := c.pendingSend(); s != nil {
		s.taken = true
		return s.v, true
	}
	if c.closed {
		return zero(c.elemT), false
	}
	panic("takeRecv on non-ready channel")
}

func (m *Machine) chanRecv(c *chanV) (value, bool) {
	m.preemptPoint()
	if c == nil {
		m.block(func() bool { return false }, "receive on nil channel")
	}
	if c.timer && !c.fired {
		m.maybeFire(c)
	}
	c.recvWaiting++
	if c.timer && !c.fired {
		m.cur.waitTimers = []*chanV{c}
	}
	m.block(func() bool { return c.canRecv() }, fmt.Sprintf("chan receive (chan#%d)", c.id))
	m.cur.waitTimers = nil
	c.recvWaiting--
	v, ok := c.takeRecv()
	m.hbAcquire(c, "send")
	m.hbRelease(c, "recv")
	return v, ok
}

func (m *Machine) maybeFire(c *chanV) {
	// a timer may or may not have fired by now
	if m.clockTicks {
		// selftest (concrete run): a timer fires only when nothing else can run
		return
	}
	m.timerChoice = true
	if m.choose("choose", 2) == 1 {
		c.fired = true
	}
}

func (m *Machine) chanClose(c *chanV) {
	m.preemptPoint()
	if c == nil {
		m.targetPanic("close of nil channel")
	}
	if c.closed {
		m.targetPanic("close of closed channel")
	}
	m.hbRelease(c, "send")
	c.closed = true
}

type selCase struct {
	c    *chanV
	send bool
	v    value
}

// doSelect returns (chosen index or -1 for default, received value, recvOk).
func (m *Machine) doSelect(cases []selCase, blocking bool) (int, value, bool) {
	m.preemptPoint()
	for _, sc := range cases {
		if !sc.send && sc.c != nil && sc.c.timer && !sc.c.fired {
			m.maybeFire(sc.c)
		}
	}
	readyIdx := func() []int {
		var r []int
		for i, sc := range cases {
			if sc.c == nil {
				continue
			}
			if sc.send {
				if sc.c.canSend() {
					r = append(r, i)
				}
			} else if sc.c.canRecv() {
				r = append(r, i)
			}
		}
		return r
	}
	r := readyIdx()
	if len(r) == 0 {
		if !blocking {
			return -1, nil, false
		}
		for _, sc := range cases {
			if !sc.send && sc.c != nil {
				sc.c.recvWaiting++
			}
		}
		for _, sc := range cases {
			if !sc.send && sc.c != nil && sc.c.timer && !sc.c.fired {
				m.cur.waitTimers = append(m.cur.waitTimers, sc.c)
			}
		}
		m.block(func() bool { return len(readyIdx()) > 0 }, "select")
		m.cur.waitTimers = nil
		for _, sc := range cases {
			if !sc.send && sc.c != nil {
				sc.c.recvWaiting--
			}
		}
		r = readyIdx()
	}
	pick := r[m.choose("choose", len(r))]
	sc := cases[pick]
	if sc.send {
		if sc.c.closed {
			m.targetPanic("send on closed channel")
		}
		m.hbRelease(sc.c, "send")
		if sc.c.cap > 0 {
			sc.c.buf = append(sc.c.buf, sc.v)
		} else {
			// a receiver is waiting: hand over through the queue; it will pick it up
			req := &sendReq{v: sc.v, g: m.cur}
			sc.c.sendq = append(sc.c.sendq, req)
			m.block(func() bool { return req.taken || sc.c.closed }, "select send handoff")
			sc.c.removeReq(req)
			if !req.taken {
				m.targetPanic("send on closed channel")
			}
		}
		m.hbAcquire(sc.c, "recv")
		return pick, nil, false
	}
	v, ok := sc.c.takeRecv()
	m.hbAcquire(sc.c, "send")
	m.hbRelease(sc.c, "recv")
	return pick, v, ok
}

// ---- sync models ----

func (m *Machine) mutexOf(p *value) *mutexState {
	s := m.mutexes[p]
	if s == nil {
		s = &mutexState{}
		m.mutexes[p] = s
	}
	return s
}

func (m *Machine) mutexLock(p *value) {
	m.preemptPoint()
	s := m.mutexOf(p)
	s.wwait++
	m.block(func() bool { return !s.locked && s.readers == 0 }, "Mutex.Lock")
	s.wwait--
	s.locked = true
	s.owner = m.cur
	m.hbAcquire(s, "w")
	m.hbAcquire(s, "r")
}

func (m *Machine) mutexTryLock(p *value) bool {
	s := m.mutexOf(p)
	if !s.locked && s.readers == 0 {
		s.locked = true
		s.owner = m.cur
		m.hbAcquire(s, "w")
		m.hbAcquire(s, "r")
		return true
	}
	return false
}

func (m *Machine) mutexUnlock(p *value) {
	s := m.mutexOf(p)
	if !s.locked {
		m.fatal("sync: unlock of unlocked mutex")
	}
	s.locked = false
	s.owner = nil
	m.hbRelease(s, "w")
	m.preemptPoint()
}

func (m *Machine) mutexRLock(p *value) {
	m.preemptPoint()
	s := m.mutexOf(p)
	// like Go's RWMutex: new readers wait while a writer holds the lock or is waiting for it
	m.block(func() bool { return !s.locked && s.wwait == 0 }, "RWMutex.RLock")
	s.readers++
	m.hbAcquire(s, "w")
}

func (m *Machine) mutexRUnlock(p *value) {
	s := m.mutexOf(p)
	if s.readers <= 0 {
		m.fatal("sync: RUnlock of unlocked RWMutex")
	}
	s.readers--
	m.hbRelease(s, "r")
	m.preemptPoint()
}

// fatal models a Go runtime fatal error (not recoverable): always a crash of the process.
func (m *Machine) fatal(msg string) {
	m.violationNow("fatal", "no-fatal", "fatal error: "+msg+" at "+m.where(), map[string]string{"fatal": msg})
	panic(&abortPath{kind: "violation-stop", reason: "fatal error: " + msg})
}

// rotate orders candidates round-robin after goroutine g (deterministic default scheduler).
func (m *Machine) rotate(rs []*G, g *G) []*G {
	var after, before []*G
	for _, r := range rs {
		if r.id > g.id {
			after = append(after, r)
		} else {
			before = append(before, r)
		}
	}
	return append(after, before...)
}

// pickDelay: delay-bounded scheduling (Emmi, Qadeer, Rakamaric 2011). The default scheduler is
// deterministic (round-robin among runnable goroutines); each deviation from it costs delays out of
// the budget opts.Preempt. Returns the index into rs of the goroutine to run next.
func (m *Machine) pickDelay(rs []*G, cur *G) int {
	if len(rs) == 1 {
		return 0
	}
	order := m.rotate(rs, cur)
	n := m.opts.Preempt - m.preempts
	if m.schedOff {
		n = 0
	}
	if n > len(order)-1 {
		n = len(order) - 1
	}
	k := 0
	if n > 0 {
		k = m.choose("sched", n+1)
		m.preempts += k
	}
	pick := order[k]
	for i, r := range rs {
		if r == pick {
			return i
		}
	}
	return 0
}

// fireOneTimer: when nothing else can run, time passes: the first blocked goroutine that waits on a
// timer which has not fired yet sees it fire. Reports whether a timer was fired.
func (m *Machine) fireOneTimer() bool {
	for _, g := range m.gs {
		if g.state != 1 {
			continue
		}
		for _, c := range g.waitTimers {
			if c.timer && !c.fired {
				c.fired = true
				return true
			}
		}
	}
	return false
}
