package main

// Model of package reflect over go/types. This is a model, not reflect's source; it is validated
// differentially against the native build by witness replay in every check that uses it.

import (
	"fmt"
	"go/types"
	"strings"

	"golang.org/x/tools/go/ssa"
)

type reflType struct{ t types.Type }

type reflVal struct {
	t      types.Type // nil: the zero (invalid) Value
	addr   *value     // slot holding the value when addressable
	v      value      // the value when not addressable
	canSet bool
	ro     bool // obtained through an unexported struct field (reflect's flagRO): Set(x) with such an x panics
}

func (r reflVal) get() value {
	if r.addr != nil {
		return load(r.addr)
	}
	return r.v
}

func (m *Machine) rtypeIface(t types.Type) value {
	if t == nil {
		return ifaceV{}
	}
	rp := m.prog.ImportedPackage("reflect")
	if rp == nil {
		m.abort("reflect not loaded")
	}
	return ifaceV{t: types.NewPointer(rp.Type("rtype").Object().Type()), v: reflType{t}}
}

func reflKind(t types.Type) uint64 {
	switch u := t.Underlying().(type) {
	case *types.Basic:
		switch u.Kind() {
		case types.Bool, types.UntypedBool:
			return 1
		case types.Int, types.UntypedInt:
			return 2
		case types.Int8:
			return 3
		case types.Int16:
			return 4
		case types.Int32, types.UntypedRune:
			return 5
		case types.Int64:
			return 6
		case types.Uint:
			return 7
		case types.Uint8:
			return 8
		case types.Uint16:
			return 9
		case types.Uint32:
			return 10
		case types.Uint64:
			return 11
		case types.Uintptr:
			return 12
		case types.Float32:
			return 13
		case types.Float64, types.UntypedFloat:
			return 14
		case types.Complex64:
			return 15
		case types.Complex128:
			return 16
		case types.String, types.UntypedString:
			return 24
		case types.UnsafePointer:
			return 26
		}
	case *types.Array:
		return 17
	case *types.Chan:
		return 18
	case *types.Signature:
		return 19
	case *types.Interface:
		return 20
	case *types.Map:
		return 21
	case *types.Pointer:
		return 22
	case *types.Slice:
		return 23
	case *types.Struct:
		return 25
	}
	return 0
}

func isReflValueType(t types.Type) bool {
	n, ok := t.(*types.Named)
	return ok && n.Obj().Name() == "Value" && n.Obj().Pkg() != nil && n.Obj().Pkg().Path() == "reflect"
}

func (m *Machine) asReflVal(v value) reflVal {
	switch v := v.(type) {
	case reflVal:
		return v
	case structV:
		return reflVal{}
	}
	m.abort("expected reflect.Value, got %T", v)
	return reflVal{}
}

func (m *Machine) asReflType(v value) types.Type {
	iv, ok := v.(ifaceV)
	if !ok {
		m.abort("expected reflect.Type, got %T", v)
	}
	if iv.t == nil {
		m.targetPanic("reflect: nil Type")
	}
	rt, ok := iv.v.(reflType)
	if !ok {
		m.abort("expected reflect.Type model, got %T", iv.v)
	}
	return rt.t
}

func (m *Machine) reflPanic(msg string) {
	m.targetPanic("reflect: " + msg)
}

type reflFn func(m *Machine, c *frame, a []value) value

var reflFuncs map[string]reflFn

func reflectModel(name string) externalFn {
	if f, ok := reflFuncs[name]; ok {
		return func(m *Machine, caller *frame, fn *ssa.Function, args []value) value {
			return f(m, caller, args)
		}
	}
	return func(m *Machine, caller *frame, fn *ssa.Function, args []value) value {
		m.opaqueCalls[name]++
		return m.opaqueResult(fn.Signature.Results(), name)
	}
}

func kindIs(k uint64, ks ...uint64) bool {
	for _, x := range ks {
		if k == x {
			return true
		}
	}
	return false
}

func intTerm(v int) *Term { return mkConst(64, uint64(int64(v))) }

func exported(name string) bool { return name != "" && name[0] >= 'A' && name[0] <= 'Z' }

func init() {
	reflFuncs = map[string]reflFn{
		"reflect.TypeOf": func(m *Machine, c *frame, a []value) value {
			iv, ok := a[0].(ifaceV)
			if !ok {
				if o, ok := a[0].(opaqueV); ok {
					return opaqueV{src: "reflect.TypeOf(" + o.src + ")"}
				}
				m.abort("reflect.TypeOf(%T)", a[0])
			}
			return m.rtypeIface(iv.t)
		},
		"reflect.ValueOf": func(m *Machine, c *frame, a []value) value {
			iv, ok := a[0].(ifaceV)
			if !ok {
				m.abort("reflect.ValueOf(%T)", a[0])
			}
			if iv.t == nil {
				return reflVal{}
			}
			if rv, ok := iv.v.(reflVal); ok && isReflValueType(iv.t) {
				// ValueOf(reflect.Value) — a Value holding a Value; conversion.EncodeInto does this
				return reflVal{t: iv.t, v: rv}
			}
			return reflVal{t: iv.t, v: iv.v}
		},
		"reflect.New": func(m *Machine, c *frame, a []value) value {
			t := m.asReflType(a[0])
			cell := new(value)
			*cell = zero(t)
			return reflVal{t: types.NewPointer(t), v: cell}
		},
		"reflect.Zero": func(m *Machine, c *frame, a []value) value {
			t := m.asReflType(a[0])
			return reflVal{t: t, v: zero(t)}
		},
		"reflect.Indirect": func(m *Machine, c *frame, a []value) value {
			rv := m.asReflVal(a[0])
			if rv.t != nil && reflKind(rv.t) == 22 {
				return reflElem(m, rv)
			}
			return rv
		},
		"reflect.MakeSlice": func(m *Machine, c *frame, a []value) value {
			t := m.asReflType(a[0])
			st, ok := t.Underlying().(*types.Slice)
			if !ok {
				m.reflPanic("MakeSlice of non-slice type")
			}
			s := m.makeSlice(st.Elem(), m.asTerm(a[1]), m.asTerm(a[2]), "reflect.MakeSlice")
			return reflVal{t: t, v: s}
		},
		"reflect.Copy": func(m *Machine, c *frame, a []value) value {
			dst, src := m.asReflVal(a[0]), m.asReflVal(a[1])
			if dst.ro || src.ro {
				m.reflPanic("reflect: reflect.Copy using value obtained using unexported field")
			}
			elemOf := func(t types.Type) types.Type {
				switch u := t.Underlying().(type) {
				case *types.Slice:
					return u.Elem()
				case *types.Array:
					return u.Elem()
				}
				return nil
			}
			de, se := elemOf(dst.t), elemOf(src.t)
			if de == nil || se == nil {
				m.reflPanic("reflect: call of reflect.Copy on " + typeStr(dst.t) + ", " + typeStr(src.t) + " Values")
			}
			if !types.Identical(de, se) {
				m.reflPanic("reflect.Copy: " + typeStr(de) + " != " + typeStr(se))
			}
			var d, sv []value
			switch x := dst.get().(type) {
			case []value:
				d = x
			case arrayV:
				if !dst.canSet {
					m.reflPanic("reflect: reflect.Copy using unaddressable value")
				}
				d = []value(x)
			}
			switch x := src.get().(type) {
			case []value:
				sv = x
			case arrayV:
				sv = []value(x)
			}
			n := len(d)
			if len(sv) < n {
				n = len(sv)
			}
			tmp := make([]value, n)
			for i := 0; i < n; i++ {
				tmp[i] = copyVal(sv[i])
			}
			copy(d, tmp)
			return intTerm(n)
		},
		"reflect.Append": func(m *Machine, c *frame, a []value) value {
			rv := m.asReflVal(a[0])
			st, ok := rv.t.Underlying().(*types.Slice)
			if !ok {
				m.reflPanic("reflect.Append of non-slice type")
			}
			sl, _ := rv.get().([]value)
			xs, _ := a[1].([]value)
			els := make([]value, 0, len(xs))
			for _, x := range xs {
				xv := m.asReflVal(x)
				if !types.AssignableTo(xv.t, st.Elem()) {
					m.reflPanic("reflect.Append: value of type " + typeStr(xv.t) + " is not assignable to type " + typeStr(st.Elem()))
				}
				els = append(els, xv.get())
			}
			if len(els) == 0 {
				return reflVal{t: rv.t, v: sl}
			}
			return reflVal{t: rv.t, v: appendVals(sl, els)}
		},
		"reflect.MakeMapWithSize": func(m *Machine, c *frame, a []value) value {
			t := m.asReflType(a[0])
			mt, ok := t.Underlying().(*types.Map)
			if !ok {
				m.reflPanic("MakeMapWithSize of non-map type")
			}
			n := m.asTerm(a[1])
			if !n.IsConst() {
				if m.branch(tCmp("bvslt", n, mkConst(64, 0))) {
					m.reflPanic("MakeMapWithSize: negative size hint")
				}
				m.allocObligation(n, 48, "reflect.MakeMapWithSize")
			}
			return reflVal{t: t, v: &mapV{keyT: mt.Key(), elT: mt.Elem()}}
		},
		"reflect.MakeMap": func(m *Machine, c *frame, a []value) value {
			t := m.asReflType(a[0])
			mt := t.Underlying().(*types.Map)
			return reflVal{t: t, v: &mapV{keyT: mt.Key(), elT: mt.Elem()}}
		},
		"reflect.SliceOf": func(m *Machine, c *frame, a []value) value {
			return m.rtypeIface(types.NewSlice(m.asReflType(a[0])))
		},
		"reflect.MapOf": func(m *Machine, c *frame, a []value) value {
			return m.rtypeIface(types.NewMap(m.asReflType(a[0]), m.asReflType(a[1])))
		},
		"reflect.PtrTo": func(m *Machine, c *frame, a []value) value {
			return m.rtypeIface(types.NewPointer(m.asReflType(a[0])))
		},
		"reflect.PointerTo": func(m *Machine, c *frame, a []value) value {
			return m.rtypeIface(types.NewPointer(m.asReflType(a[0])))
		},
		"reflect.StructOf": func(m *Machine, c *frame, a []value) value {
			fs, _ := a[0].([]value)
			var vars []*types.Var
			for _, f := range fs {
				sf := f.(structV)
				name, _ := sf[0].(strV).Concrete()
				ft := m.asReflType(sf[2])
				vars = append(vars, types.NewField(0, nil, name, ft, false))
			}
			return m.rtypeIface(types.NewStruct(vars, nil))
		},
		"reflect.DeepEqual": func(m *Machine, c *frame, a []value) value {
			x, y := a[0], a[1]
			if _, ok := x.(opaqueV); ok {
				return opaqueV{t: types.Typ[types.Bool], src: "reflect.DeepEqual on opaque"}
			}
			if _, ok := y.(opaqueV); ok {
				return opaqueV{t: types.Typ[types.Bool], src: "reflect.DeepEqual on opaque"}
			}
			return m.deepEqual(x, y)
		},

		// ---- Value methods ----
		"(reflect.Value).Kind": func(m *Machine, c *frame, a []value) value {
			rv := m.asReflVal(a[0])
			if rv.t == nil {
				return mkConst(64, 0)
			}
			return mkConst(64, reflKind(rv.t))
		},
		"(reflect.Value).IsValid": func(m *Machine, c *frame, a []value) value {
			return mkBool(m.asReflVal(a[0]).t != nil)
		},
		"(reflect.Value).Type": func(m *Machine, c *frame, a []value) value {
			rv := m.asReflVal(a[0])
			if rv.t == nil {
				m.reflPanic("call of reflect.Value.Type on zero Value")
			}
			return m.rtypeIface(rv.t)
		},
		"(reflect.Value).CanSet":       func(m *Machine, c *frame, a []value) value { return mkBool(m.asReflVal(a[0]).canSet) },
		"(reflect.Value).CanAddr":      func(m *Machine, c *frame, a []value) value { return mkBool(m.asReflVal(a[0]).addr != nil) },
		"(reflect.Value).CanInterface": func(m *Machine, c *frame, a []value) value { return tTrue },
		"(reflect.Value).Addr": func(m *Machine, c *frame, a []value) value {
			rv := m.asReflVal(a[0])
			if rv.addr == nil {
				m.reflPanic("reflect.Value.Addr of unaddressable value")
			}
			return reflVal{t: types.NewPointer(rv.t), v: rv.addr}
		},
		"(reflect.Value).Elem": func(m *Machine, c *frame, a []value) value {
			return reflElem(m, m.asReflVal(a[0]))
		},
		"(reflect.Value).Interface": func(m *Machine, c *frame, a []value) value {
			rv := m.asReflVal(a[0])
			if rv.t == nil {
				m.reflPanic("call of reflect.Value.Interface on zero Value")
			}
			v := rv.get()
			if _, isI := rv.t.Underlying().(*types.Interface); isI {
				return v
			}
			return ifaceV{t: rv.t, v: copyVal(v)}
		},
		"(reflect.Value).IsNil": func(m *Machine, c *frame, a []value) value {
			rv := m.asReflVal(a[0])
			if rv.t == nil {
				m.reflPanic("call of reflect.Value.IsNil on zero Value")
			}
			switch v := rv.get().(type) {
			case *value:
				return mkBool(v == nil)
			case []value:
				return mkBool(v == nil)
			case *mapV:
				return mkBool(v == nil)
			case *chanV:
				return mkBool(v == nil)
			case ifaceV:
				return mkBool(v.t == nil)
			case *ssa.Function:
				return mkBool(v == nil)
			case *closure:
				return mkBool(v == nil)
			}
			m.reflPanic("call of reflect.Value.IsNil on " + rv.t.String() + " Value")
			return nil
		},
		"(reflect.Value).IsZero": func(m *Machine, c *frame, a []value) value {
			rv := m.asReflVal(a[0])
			return m.equalsT(rv.t, rv.get(), zero(rv.t))
		},
		"(reflect.Value).Bool": func(m *Machine, c *frame, a []value) value {
			rv := m.asReflVal(a[0])
			m.wantKind(rv, "Bool", 1)
			return rv.get()
		},
		"(reflect.Value).Int": func(m *Machine, c *frame, a []value) value {
			rv := m.asReflVal(a[0])
			m.wantKind(rv, "Int", 2, 3, 4, 5, 6)
			return tSext(rv.get().(*Term), 64)
		},
		"(reflect.Value).Uint": func(m *Machine, c *frame, a []value) value {
			rv := m.asReflVal(a[0])
			m.wantKind(rv, "Uint", 7, 8, 9, 10, 11, 12)
			return tZext(rv.get().(*Term), 64)
		},
		"(reflect.Value).Float": func(m *Machine, c *frame, a []value) value {
			rv := m.asReflVal(a[0])
			m.wantKind(rv, "Float", 13, 14)
			t := rv.get().(*Term)
			if t.W == 32 {
				return tF32toF64(t)
			}
			return t
		},
		"(reflect.Value).String": func(m *Machine, c *frame, a []value) value {
			rv := m.asReflVal(a[0])
			if rv.t == nil {
				return mkStr("<invalid Value>")
			}
			if reflKind(rv.t) == 24 {
				return rv.get()
			}
			return mkStr("<" + rv.t.String() + " Value>")
		},
		"(reflect.Value).SetBool": func(m *Machine, c *frame, a []value) value {
			rv := m.settable(a[0], "SetBool", 1)
			store(rv.addr, a[1])
			return nil
		},
		"(reflect.Value).SetInt": func(m *Machine, c *frame, a []value) value {
			rv := m.settable(a[0], "SetInt", 2, 3, 4, 5, 6)
			w := basicWidth(rv.t.Underlying().(*types.Basic))
			store(rv.addr, tExtract(w-1, 0, m.asTerm(a[1])))
			return nil
		},
		"(reflect.Value).SetUint": func(m *Machine, c *frame, a []value) value {
			rv := m.settable(a[0], "SetUint", 7, 8, 9, 10, 11, 12)
			w := basicWidth(rv.t.Underlying().(*types.Basic))
			store(rv.addr, tExtract(w-1, 0, m.asTerm(a[1])))
			return nil
		},
		"(reflect.Value).SetFloat": func(m *Machine, c *frame, a []value) value {
			rv := m.settable(a[0], "SetFloat", 13, 14)
			t := m.asTerm(a[1])
			if reflKind(rv.t) == 13 {
				t = m.f64to32(t)
			}
			store(rv.addr, t)
			return nil
		},
		"(reflect.Value).SetString": func(m *Machine, c *frame, a []value) value {
			rv := m.settable(a[0], "SetString", 24)
			store(rv.addr, a[1])
			return nil
		},
		"(reflect.Value).Set": func(m *Machine, c *frame, a []value) value {
			rv := m.asReflVal(a[0])
			x := m.asReflVal(a[1])
			if !rv.canSet || rv.addr == nil {
				m.reflPanic("reflect.Value.Set using unaddressable value")
			}
			if x.t == nil {
				m.reflPanic("reflect.Set: value of type nil is not assignable")
			}
			if x.ro {
				m.reflPanic("reflect: reflect.Value.Set using value obtained using unexported field")
			}
			xv := x.get()
			if _, isI := rv.t.Underlying().(*types.Interface); isI {
				if _, srcI := x.t.Underlying().(*types.Interface); !srcI {
					if !types.AssignableTo(x.t, rv.t) {
						m.reflPanic(fmt.Sprintf("reflect.Set: value of type %s is not assignable to type %s", x.t, rv.t))
					}
					xv = ifaceV{t: x.t, v: copyVal(xv)}
				}
			} else if !types.AssignableTo(x.t, rv.t) && !types.Identical(x.t.Underlying(), rv.t.Underlying()) {
				m.reflPanic(fmt.Sprintf("reflect.Set: value of type %s is not assignable to type %s", x.t, rv.t))
			}
			store(rv.addr, xv)
			return nil
		},
		"(reflect.Value).Len": func(m *Machine, c *frame, a []value) value {
			rv := m.asReflVal(a[0])
			switch v := rv.get().(type) {
			case []value:
				return intTerm(len(v))
			case strV:
				return intTerm(v.Len())
			case arrayV:
				return intTerm(len(v))
			case *mapV:
				if v == nil {
					return intTerm(0)
				}
				return intTerm(len(v.ents))
			case *chanV:
				return intTerm(len(v.buf))
			}
			m.reflPanic("call of reflect.Value.Len on " + typeStr(rv.t) + " Value")
			return nil
		},
		"(reflect.Value).Cap": func(m *Machine, c *frame, a []value) value {
			rv := m.asReflVal(a[0])
			switch v := rv.get().(type) {
			case []value:
				return intTerm(cap(v))
			case arrayV:
				return intTerm(len(v))
			}
			m.reflPanic("call of reflect.Value.Cap on " + typeStr(rv.t) + " Value")
			return nil
		},
		"(reflect.Value).SetLen": func(m *Machine, c *frame, a []value) value {
			rv := m.settable(a[0], "SetLen", 23)
			s, _ := load(rv.addr).([]value)
			n := m.asTerm(a[1])
			k := int(m.concretize(n, "SetLen", cap(s)+2, true, nil))
			if k < 0 || k > cap(s) {
				m.reflPanic("reflect: slice length out of range in SetLen")
			}
			store(rv.addr, s[:k])
			return nil
		},
		"(reflect.Value).Index": func(m *Machine, c *frame, a []value) value {
			rv := m.asReflVal(a[0])
			idx := m.asTerm(a[1])
			switch v := rv.get().(type) {
			case []value:
				i := m.reflIndex(idx, len(v))
				return reflVal{t: rv.t.Underlying().(*types.Slice).Elem(), addr: &v[i], canSet: !rv.ro, ro: rv.ro}
			case arrayV:
				i := m.reflIndex(idx, len(v))
				et := rv.t.Underlying().(*types.Array).Elem()
				if rv.addr != nil {
					arr := (*rv.addr).(arrayV)
					return reflVal{t: et, addr: &arr[i], canSet: rv.canSet, ro: rv.ro}
				}
				return reflVal{t: et, v: v[i]}
			case strV:
				i := m.reflIndex(idx, v.Len())
				return reflVal{t: types.Typ[types.Uint8], v: v.At(i)}
			}
			m.reflPanic("call of reflect.Value.Index on " + typeStr(rv.t) + " Value")
			return nil
		},
		"(reflect.Value).NumField": func(m *Machine, c *frame, a []value) value {
			rv := m.asReflVal(a[0])
			st, ok := underlyingOf(rv.t).(*types.Struct)
			if !ok {
				m.reflPanic("call of reflect.Value.NumField on " + typeStr(rv.t) + " Value")
			}
			return intTerm(st.NumFields())
		},
		"(reflect.Value).Field": func(m *Machine, c *frame, a []value) value {
			rv := m.asReflVal(a[0])
			st, ok := underlyingOf(rv.t).(*types.Struct)
			if !ok {
				m.reflPanic("call of reflect.Value.Field on " + typeStr(rv.t) + " Value")
			}
			idx := m.asTerm(a[1])
			if !idx.IsConst() {
				m.abort("Field with symbolic index")
			}
			i := int(idx.SVal())
			if i < 0 || i >= st.NumFields() {
				m.reflPanic("reflect: Field index out of range")
			}
			f := st.Field(i)
			if rv.addr != nil {
				s := (*rv.addr).(structV)
				return reflVal{t: f.Type(), addr: &s[i], canSet: rv.canSet && f.Exported(), ro: rv.ro || !f.Exported()}
			}
			return reflVal{t: f.Type(), v: rv.v.(structV)[i], ro: rv.ro || !f.Exported()}
		},
		"(reflect.Value).MapKeys": func(m *Machine, c *frame, a []value) value {
			rv := m.asReflVal(a[0])
			mp, ok := rv.get().(*mapV)
			if !ok {
				m.reflPanic("call of reflect.Value.MapKeys on " + typeStr(rv.t) + " Value")
			}
			kt := rv.t.Underlying().(*types.Map).Key()
			out := []value{}
			if mp != nil {
				for _, e := range mp.ents {
					out = append(out, reflVal{t: kt, v: copyVal(e.k)})
				}
			}
			return out
		},
		"(reflect.Value).MapIndex": func(m *Machine, c *frame, a []value) value {
			rv := m.asReflVal(a[0])
			mp, ok := rv.get().(*mapV)
			if !ok {
				m.reflPanic("call of reflect.Value.MapIndex on " + typeStr(rv.t) + " Value")
			}
			k := m.asReflVal(a[1])
			if mp == nil {
				return reflVal{}
			}
			if e := m.mapFind(mp, m.reflAssign(k, mp.keyT)); e != nil {
				return reflVal{t: rv.t.Underlying().(*types.Map).Elem(), v: copyVal(e.v)}
			}
			return reflVal{}
		},
		"(reflect.Value).SetMapIndex": func(m *Machine, c *frame, a []value) value {
			rv := m.asReflVal(a[0])
			mp, ok := rv.get().(*mapV)
			if !ok {
				m.reflPanic("call of reflect.Value.SetMapIndex on " + typeStr(rv.t) + " Value")
			}
			if mp == nil {
				m.targetPanic("assignment to entry in nil map")
			}
			k := m.asReflVal(a[1])
			e := m.asReflVal(a[2])
			kt := rv.t.Underlying().(*types.Map).Key()
			et := rv.t.Underlying().(*types.Map).Elem()
			if k.t == nil || !(types.AssignableTo(k.t, kt)) {
				m.reflPanic(fmt.Sprintf("reflect.Value.SetMapIndex: value of type %s is not assignable to type %s", typeStr(k.t), kt))
			}
			if e.t == nil {
				m.mapDelete(mp, m.reflAssign(k, kt))
				return nil
			}
			if !types.AssignableTo(e.t, et) {
				m.reflPanic(fmt.Sprintf("reflect.Value.SetMapIndex: value of type %s is not assignable to type %s", e.t, et))
			}
			m.mapInsert(mp, m.reflAssign(k, kt), copyVal(m.reflAssign(e, et)))
			return nil
		},
		"(reflect.Value).Pointer": func(m *Machine, c *frame, a []value) value {
			return mkConst(64, 0xdead0000)
		},
		"(reflect.Value).Convert": func(m *Machine, c *frame, a []value) value {
			rv := m.asReflVal(a[0])
			t := m.asReflType(a[1])
			return reflVal{t: t, v: m.conv(t, rv.t, rv.get()), ro: rv.ro}
		},
	}
}

func typeStr(t types.Type) string {
	if t == nil {
		return "zero"
	}
	return t.String()
}

func underlyingOf(t types.Type) types.Type {
	if t == nil {
		return nil
	}
	return t.Underlying()
}

// reflAssign converts the held value to how it is stored in a slot of type dst (boxing into interfaces).
func (m *Machine) reflAssign(rv reflVal, dst types.Type) value {
	v := rv.get()
	if _, isI := dst.Underlying().(*types.Interface); isI {
		if _, srcI := rv.t.Underlying().(*types.Interface); !srcI {
			return ifaceV{t: rv.t, v: copyVal(v)}
		}
	}
	return v
}

func (m *Machine) reflIndex(idx *Term, n int) int {
	if !idx.IsConst() {
		m.abort("reflect Index with symbolic index")
	}
	i := int(idx.SVal())
	if i < 0 || i >= n {
		m.reflPanic("reflect: slice index out of range")
	}
	return i
}

func (m *Machine) wantKind(rv reflVal, meth string, ks ...uint64) {
	if rv.t == nil {
		m.reflPanic("call of reflect.Value." + meth + " on zero Value")
	}
	if !kindIs(reflKind(rv.t), ks...) {
		m.reflPanic("call of reflect.Value." + meth + " on " + rv.t.String() + " Value")
	}
}

func (m *Machine) settable(v value, meth string, ks ...uint64) reflVal {
	rv := m.asReflVal(v)
	if rv.t == nil {
		m.reflPanic("call of reflect.Value." + meth + " on zero Value")
	}
	if !rv.canSet || rv.addr == nil {
		m.reflPanic("reflect.Value." + meth + " using unaddressable value")
	}
	if !kindIs(reflKind(rv.t), ks...) {
		m.reflPanic("call of reflect.Value." + meth + " on " + rv.t.String() + " Value")
	}
	return rv
}

func (m *Machine) f64to32(t *Term) *Term {
	if t.W == 32 {
		return t
	}
	if t.IsConst() {
		return mkConst(32, f32bits(float32(f64frombits(t.C))))
	}
	if t.Op == "f32to64" {
		// float32 -> float64 -> float32 is the identity for every number, both zeros, denormals and
		// infinities; for a NaN the hardware conversion sets the quiet bit (a signalling NaN comes back
		// quiet, payload otherwise preserved)
		a := t.Args[0]
		exp := tBin("bvand", a, mkConst(32, 0x7f800000))
		mant := tBin("bvand", a, mkConst(32, 0x007fffff))
		isNaN := tAnd(tEq(exp, mkConst(32, 0x7f800000)), tNot(tEq(mant, mkConst(32, 0))))
		return tIte(isNaN, tBin("bvor", a, mkConst(32, 0x00400000)), a)
	}
	m.abort("float64->float32 conversion of a symbolic value is not encoded")
	return nil
}

func reflElem(m *Machine, rv reflVal) value {
	if rv.t == nil {
		m.reflPanic("call of reflect.Value.Elem on zero Value")
	}
	switch u := rv.t.Underlying().(type) {
	case *types.Pointer:
		p, _ := rv.get().(*value)
		if p == nil {
			return reflVal{}
		}
		return reflVal{t: u.Elem(), addr: p, canSet: true}
	case *types.Interface:
		iv, _ := rv.get().(ifaceV)
		if iv.t == nil {
			return reflVal{}
		}
		return reflVal{t: iv.t, v: iv.v}
	}
	m.reflPanic("call of reflect.Value.Elem on " + rv.t.String() + " Value")
	return nil
}

// ---- reflect.Type methods (invoked through the Type interface) ----

func reflTypeMethod(name string) value {
	return &nativeFn{name: "reflect.Type." + name, fn: func(m *Machine, args []value) value {
		t := args[0].(reflType).t
		switch name {
		case "Kind":
			return mkConst(64, reflKind(t))
		case "Elem":
			switch u := t.Underlying().(type) {
			case *types.Pointer:
				return m.rtypeIface(u.Elem())
			case *types.Slice:
				return m.rtypeIface(u.Elem())
			case *types.Array:
				return m.rtypeIface(u.Elem())
			case *types.Map:
				return m.rtypeIface(u.Elem())
			case *types.Chan:
				return m.rtypeIface(u.Elem())
			}
			m.reflPanic("Elem of invalid type " + t.String())
		case "Key":
			if u, ok := t.Underlying().(*types.Map); ok {
				return m.rtypeIface(u.Key())
			}
			m.reflPanic("Key of non-map type " + t.String())
		case "Name":
			switch n := t.(type) {
			case *types.Named:
				return mkStr(n.Obj().Name())
			case *types.Basic:
				return mkStr(n.Name())
			case *types.Alias:
				return mkStr(n.Obj().Name())
			}
			return mkStr("")
		case "PkgPath":
			if n, ok := t.(*types.Named); ok && n.Obj().Pkg() != nil {
				return mkStr(n.Obj().Pkg().Path())
			}
			return mkStr("")
		case "String":
			return mkStr(types.TypeString(t, func(p *types.Package) string { return p.Name() }))
		case "Size":
			return mkConst(64, uint64(m.sizeof(t)))
		case "NumField":
			if st, ok := t.Underlying().(*types.Struct); ok {
				return intTerm(st.NumFields())
			}
			m.reflPanic("NumField of non-struct type " + t.String())
		case "Len":
			if at, ok := t.Underlying().(*types.Array); ok {
				return intTerm(int(at.Len()))
			}
			m.reflPanic("Len of non-array type " + t.String())
		case "Field":
			st, ok := t.Underlying().(*types.Struct)
			if !ok {
				m.reflPanic("Field of non-struct type " + t.String())
			}
			idx := m.asTerm(args[1])
			if !idx.IsConst() {
				m.abort("Type.Field with symbolic index")
			}
			i := int(idx.SVal())
			if i < 0 || i >= st.NumFields() {
				m.reflPanic("reflect: Field index out of bounds")
			}
			f := st.Field(i)
			pkgPath := ""
			if !f.Exported() && f.Pkg() != nil {
				pkgPath = f.Pkg().Path()
			}
			// reflect.StructField{Name, PkgPath, Type, Tag, Offset, Index, Anonymous}
			return structV{mkStr(f.Name()), mkStr(pkgPath), m.rtypeIface(f.Type()), mkStr(st.Tag(i)),
				mkConst(64, 0), []value{intTerm(i)}, mkBool(f.Embedded())}
		case "Comparable":
			return mkBool(types.Comparable(t))
		case "NumMethod":
			return intTerm(m.prog.MethodSets.MethodSet(t).Len())
		case "AssignableTo":
			return mkBool(types.AssignableTo(t, m.asReflType(args[1])))
		case "ConvertibleTo":
			return mkBool(types.ConvertibleTo(t, m.asReflType(args[1])))
		case "Implements":
			it, ok := m.asReflType(args[1]).Underlying().(*types.Interface)
			if !ok {
				m.reflPanic("non-interface type passed to Type.Implements")
			}
			return mkBool(types.Implements(t, it))
		}
		m.abort("reflect.Type.%s not modelled", name)
		return nil
	}}
}

func (m *Machine) deepEqual(x, y value) value {
	switch xv := x.(type) {
	case ifaceV:
		yv, ok := y.(ifaceV)
		if !ok {
			return tFalse
		}
		if xv.t == nil || yv.t == nil {
			return mkBool(xv.t == nil && yv.t == nil)
		}
		if !types.Identical(xv.t, yv.t) {
			return tFalse
		}
		return m.deepEqualT(xv.t, xv.v, yv.v)
	}
	m.abort("reflect.DeepEqual on %T", x)
	return nil
}

func (m *Machine) deepEqualT(t types.Type, x, y value) *Term {
	switch u := t.Underlying().(type) {
	case *types.Slice:
		xs, _ := x.([]value)
		ys, _ := y.([]value)
		if (xs == nil) != (ys == nil) || len(xs) != len(ys) {
			return tFalse
		}
		r := tTrue
		for i := range xs {
			r = tAnd(r, m.deepEqualT(u.Elem(), xs[i], ys[i]))
		}
		return r
	case *types.Struct:
		xs, ys := x.(structV), y.(structV)
		r := tTrue
		for i := range xs {
			r = tAnd(r, m.deepEqualT(u.Field(i).Type(), xs[i], ys[i]))
		}
		return r
	case *types.Pointer:
		xp, yp := x.(*value), y.(*value)
		if xp == yp {
			return tTrue
		}
		if xp == nil || yp == nil {
			return tFalse
		}
		return m.deepEqualT(u.Elem(), *xp, *yp)
	case *types.Interface:
		return m.asTerm(m.deepEqual(x, y))
	case *types.Map:
		m.abort("DeepEqual on maps not modelled")
	}
	return m.equalsT(t, x, y)
}

var _ = strings.ToLower
