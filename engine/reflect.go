package main

import (
	"go/types"

	"golang.org/x/tools/go/ssa"
)

type reflType struct{ t types.Type }

func reflectModel(name string) externalFn {
	return func(m *Machine, caller *frame, fn *ssa.Function, args []value) value {
		m.abort("reflect model: %s not implemented", name)
		return nil
	}
}

func reflTypeMethod(name string) value {
	return &nativeFn{name: "reflect.Type." + name, fn: func(m *Machine, args []value) value {
		m.abort("reflect.Type.%s not implemented", name)
		return nil
	}}
}
