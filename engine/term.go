package main

// Hash-consed SMT terms over bit-vectors and booleans, with constant folding
// at construction so that concrete code stays concrete and needs no solver.

import (
	"fmt"
	"math/bits"
	"strconv"
	"strings"
)

// Term is an SMT term. W==0 means sort Bool, otherwise (_ BitVec W), W<=64.
type Term struct {
	Op    string // "const", "var", or an SMT-LIB operator name
	Args  []*Term
	W     int
	P1    int    // extract hi / extend amount
	P2    int    // extract lo
	C     uint64 // value when Op=="const" (bool: 0/1)
	Name  string // when Op=="var"
	ID    int
	sent  bool // definition already sent to the solver
	depth int
}

type termTable struct {
	tab  map[string]*Term
	next int
	vars map[string]*Term
}

var tt = &termTable{tab: map[string]*Term{}, vars: map[string]*Term{}}

func mask(w int) uint64 {
	if w >= 64 {
		return ^uint64(0)
	}
	return (uint64(1) << uint(w)) - 1
}

func (t *Term) IsConst() bool { return t.Op == "const" }
func (t *Term) IsBool() bool  { return t.W == 0 }

// Signed value of a constant.
func (t *Term) SVal() int64 {
	if t.W >= 64 {
		return int64(t.C)
	}
	if t.C&(uint64(1)<<uint(t.W-1)) != 0 {
		return int64(t.C | ^mask(t.W))
	}
	return int64(t.C)
}

func mkConst(w int, c uint64) *Term {
	if w == 0 {
		if c != 0 {
			c = 1
		}
	} else {
		c &= mask(w)
	}
	key := "c" + strconv.Itoa(w) + ":" + strconv.FormatUint(c, 16)
	if t, ok := tt.tab[key]; ok {
		return t
	}
	t := &Term{Op: "const", W: w, C: c, ID: tt.next}
	tt.next++
	tt.tab[key] = t
	return t
}

var (
	tTrue  = mkConst(0, 1)
	tFalse = mkConst(0, 0)
)

func mkBool(b bool) *Term {
	if b {
		return tTrue
	}
	return tFalse
}

func mkVar(name string, w int) *Term {
	key := "v" + strconv.Itoa(w) + ":" + name
	if t, ok := tt.tab[key]; ok {
		return t
	}
	t := &Term{Op: "var", W: w, Name: name, ID: tt.next}
	tt.next++
	tt.tab[key] = t
	tt.vars[name] = t
	return t
}

func mk(op string, w int, p1, p2 int, args ...*Term) *Term {
	var sb strings.Builder
	sb.WriteString(op)
	sb.WriteByte('/')
	sb.WriteString(strconv.Itoa(w))
	if p1 != 0 || p2 != 0 {
		sb.WriteByte('/')
		sb.WriteString(strconv.Itoa(p1))
		sb.WriteByte('/')
		sb.WriteString(strconv.Itoa(p2))
	}
	d := 0
	for _, a := range args {
		sb.WriteByte(' ')
		sb.WriteString(strconv.Itoa(a.ID))
		if a.depth > d {
			d = a.depth
		}
	}
	key := sb.String()
	if t, ok := tt.tab[key]; ok {
		return t
	}
	t := &Term{Op: op, W: w, P1: p1, P2: p2, Args: append([]*Term(nil), args...), ID: tt.next, depth: d + 1}
	tt.next++
	tt.tab[key] = t
	return t
}

// ---- boolean connectives ----

func tNot(a *Term) *Term {
	if a.IsConst() {
		return mkBool(a.C == 0)
	}
	if a.Op == "not" {
		return a.Args[0]
	}
	return mk("not", 0, 0, 0, a)
}

func tAnd(a, b *Term) *Term {
	if a.IsConst() {
		if a.C == 0 {
			return tFalse
		}
		return b
	}
	if b.IsConst() {
		if b.C == 0 {
			return tFalse
		}
		return a
	}
	if a == b {
		return a
	}
	return mk("and", 0, 0, 0, a, b)
}

func tOr(a, b *Term) *Term {
	if a.IsConst() {
		if a.C != 0 {
			return tTrue
		}
		return b
	}
	if b.IsConst() {
		if b.C != 0 {
			return tTrue
		}
		return a
	}
	if a == b {
		return a
	}
	return mk("or", 0, 0, 0, a, b)
}

func tImplies(a, b *Term) *Term { return tOr(tNot(a), b) }

func tIte(c, a, b *Term) *Term {
	if c.IsConst() {
		if c.C != 0 {
			return a
		}
		return b
	}
	if a == b {
		return a
	}
	if a.W == 0 {
		// boolean ite
		return tOr(tAnd(c, a), tAnd(tNot(c), b))
	}
	return mk("ite", a.W, 0, 0, c, a, b)
}

func tEq(a, b *Term) *Term {
	if a.W != b.W {
		panic(fmt.Sprintf("tEq: width mismatch %d vs %d", a.W, b.W))
	}
	if a == b {
		return tTrue
	}
	if a.IsConst() && b.IsConst() {
		return mkBool(a.C == b.C)
	}
	if a.W == 0 {
		if a.IsConst() {
			if a.C != 0 {
				return b
			}
			return tNot(b)
		}
		if b.IsConst() {
			if b.C != 0 {
				return a
			}
			return tNot(a)
		}
	}
	if a.ID > b.ID {
		a, b = b, a
	}
	return mk("=", 0, 0, 0, a, b)
}

// ---- bit-vector operations ----

func tBin(op string, a, b *Term) *Term {
	if a.W != b.W {
		panic(fmt.Sprintf("tBin %s: width mismatch %d vs %d", op, a.W, b.W))
	}
	w := a.W
	if a.IsConst() && b.IsConst() {
		x, y := a.C, b.C
		sx, sy := a.SVal(), b.SVal()
		switch op {
		case "bvadd":
			return mkConst(w, x+y)
		case "bvsub":
			return mkConst(w, x-y)
		case "bvmul":
			return mkConst(w, x*y)
		case "bvudiv":
			if y == 0 {
				return mkConst(w, mask(w))
			}
			return mkConst(w, x/y)
		case "bvurem":
			if y == 0 {
				return mkConst(w, x)
			}
			return mkConst(w, x%y)
		case "bvsdiv":
			if sy == 0 {
				if sx < 0 {
					return mkConst(w, 1)
				}
				return mkConst(w, mask(w))
			}
			if sy == -1 {
				return mkConst(w, uint64(-sx))
			}
			return mkConst(w, uint64(sx/sy))
		case "bvsrem":
			if sy == 0 {
				return mkConst(w, x)
			}
			if sy == -1 {
				return mkConst(w, 0)
			}
			return mkConst(w, uint64(sx%sy))
		case "bvand":
			return mkConst(w, x&y)
		case "bvor":
			return mkConst(w, x|y)
		case "bvxor":
			return mkConst(w, x^y)
		case "bvshl":
			if y >= uint64(w) {
				return mkConst(w, 0)
			}
			return mkConst(w, x<<y)
		case "bvlshr":
			if y >= uint64(w) {
				return mkConst(w, 0)
			}
			return mkConst(w, x>>y)
		case "bvashr":
			if y >= uint64(w) {
				if sx < 0 {
					return mkConst(w, mask(w))
				}
				return mkConst(w, 0)
			}
			return mkConst(w, uint64(sx>>y))
		}
		panic("tBin: unknown op " + op)
	}
	// light algebraic simplification
	switch op {
	case "bvadd", "bvor", "bvxor":
		if a.IsConst() && a.C == 0 {
			return b
		}
		if b.IsConst() && b.C == 0 {
			return a
		}
	case "bvsub", "bvshl", "bvlshr", "bvashr":
		if b.IsConst() && b.C == 0 {
			return a
		}
	case "bvand":
		if a.IsConst() && a.C == 0 || b.IsConst() && b.C == 0 {
			return mkConst(w, 0)
		}
		if a.IsConst() && a.C == mask(w) {
			return b
		}
		if b.IsConst() && b.C == mask(w) {
			return a
		}
	case "bvmul":
		if a.IsConst() && a.C == 1 {
			return b
		}
		if b.IsConst() && b.C == 1 {
			return a
		}
		if a.IsConst() && a.C == 0 || b.IsConst() && b.C == 0 {
			return mkConst(w, 0)
		}
	}
	return mk(op, w, 0, 0, a, b)
}

func tCmp(op string, a, b *Term) *Term {
	if a.W != b.W {
		panic(fmt.Sprintf("tCmp %s: width mismatch %d vs %d", op, a.W, b.W))
	}
	if a.IsConst() && b.IsConst() {
		switch op {
		case "bvult":
			return mkBool(a.C < b.C)
		case "bvule":
			return mkBool(a.C <= b.C)
		case "bvugt":
			return mkBool(a.C > b.C)
		case "bvuge":
			return mkBool(a.C >= b.C)
		case "bvslt":
			return mkBool(a.SVal() < b.SVal())
		case "bvsle":
			return mkBool(a.SVal() <= b.SVal())
		case "bvsgt":
			return mkBool(a.SVal() > b.SVal())
		case "bvsge":
			return mkBool(a.SVal() >= b.SVal())
		}
		panic("tCmp: unknown op " + op)
	}
	if a == b {
		switch op {
		case "bvule", "bvuge", "bvsle", "bvsge":
			return tTrue
		default:
			return tFalse
		}
	}
	return mk(op, 0, 0, 0, a, b)
}

func tNeg(a *Term) *Term {
	if a.IsConst() {
		return mkConst(a.W, -a.C)
	}
	return mk("bvneg", a.W, 0, 0, a)
}

func tBvNot(a *Term) *Term {
	if a.IsConst() {
		return mkConst(a.W, ^a.C)
	}
	return mk("bvnot", a.W, 0, 0, a)
}

func tExtract(hi, lo int, a *Term) *Term {
	w := hi - lo + 1
	if lo == 0 && w == a.W {
		return a
	}
	if a.IsConst() {
		return mkConst(w, a.C>>uint(lo))
	}
	switch a.Op {
	case "zero_extend", "sign_extend":
		inner := a.Args[0]
		if hi < inner.W {
			return tExtract(hi, lo, inner)
		}
		if a.Op == "zero_extend" && lo >= inner.W {
			return mkConst(w, 0)
		}
	case "extract":
		return tExtract(hi+a.P2, lo+a.P2, a.Args[0])
	case "concat":
		lw := a.Args[1].W
		if hi < lw {
			return tExtract(hi, lo, a.Args[1])
		}
		if lo >= lw {
			return tExtract(hi-lw, lo-lw, a.Args[0])
		}
	}
	return mk("extract", w, hi, lo, a)
}

func tConcat(hiT, loT *Term) *Term {
	w := hiT.W + loT.W
	if w > 64 {
		panic("tConcat: width > 64")
	}
	if hiT.IsConst() && loT.IsConst() {
		return mkConst(w, hiT.C<<uint(loT.W)|loT.C)
	}
	if hiT.IsConst() && hiT.C == 0 {
		return tZext(loT, w)
	}
	// concat(extract(h,m+1,x), extract(m,l,x)) = extract(h,l,x)
	if hiT.Op == "extract" && loT.Op == "extract" && hiT.Args[0] == loT.Args[0] && hiT.P2 == loT.P1+1 {
		return tExtract(hiT.P1, loT.P2, hiT.Args[0])
	}
	return mk("concat", w, 0, 0, hiT, loT)
}

func tZext(a *Term, w int) *Term {
	if w == a.W {
		return a
	}
	if w < a.W {
		return tExtract(w-1, 0, a)
	}
	if a.IsConst() {
		return mkConst(w, a.C)
	}
	if a.Op == "zero_extend" {
		return tZext(a.Args[0], w)
	}
	return mk("zero_extend", w, w-a.W, 0, a)
}

func tSext(a *Term, w int) *Term {
	if w == a.W {
		return a
	}
	if w < a.W {
		return tExtract(w-1, 0, a)
	}
	if a.IsConst() {
		return mkConst(w, uint64(a.SVal()))
	}
	return mk("sign_extend", w, w-a.W, 0, a)
}

// bool <-> bv1 helpers
func tBoolToBV(b *Term, w int) *Term { return tIte(b, mkConst(w, 1), mkConst(w, 0)) }

// ---- floating point (bit-pattern carried) ----

// tF32toF64 widens float32 bits to float64 bits (exact).
func tF32toF64(a *Term) *Term {
	if a.IsConst() {
		return mkConst(64, f64bits(float64(f32frombits(uint32(a.C)))))
	}
	return mk("f32to64", 64, 0, 0, a)
}

// ---- printing ----

func (t *Term) ref() string {
	switch t.Op {
	case "const":
		if t.W == 0 {
			if t.C != 0 {
				return "true"
			}
			return "false"
		}
		if t.W%4 == 0 {
			return fmt.Sprintf("#x%0*x", t.W/4, t.C)
		}
		return fmt.Sprintf("#b%0*b", t.W, t.C)
	case "var":
		return "|" + t.Name + "|"
	}
	return "t" + strconv.Itoa(t.ID)
}

func (t *Term) sortStr() string {
	if t.W == 0 {
		return "Bool"
	}
	return fmt.Sprintf("(_ BitVec %d)", t.W)
}

// body returns the SMT-LIB expression for t in terms of references to its args.
func (t *Term) body() string {
	var sb strings.Builder
	switch t.Op {
	case "extract":
		fmt.Fprintf(&sb, "((_ extract %d %d) %s)", t.P1, t.P2, t.Args[0].ref())
	case "zero_extend", "sign_extend":
		fmt.Fprintf(&sb, "((_ %s %d) %s)", t.Op, t.P1, t.Args[0].ref())
	case "f32to64":
		// NaN payloads are not preserved by the theory; callers exclude NaN.
		fmt.Fprintf(&sb, "(fp.to_ieee_bv ((_ to_fp 11 53) RNE ((_ to_fp 8 24) %s)))", t.Args[0].ref())
	default:
		sb.WriteByte('(')
		sb.WriteString(t.Op)
		for _, a := range t.Args {
			sb.WriteByte(' ')
			sb.WriteString(a.ref())
		}
		sb.WriteByte(')')
	}
	return sb.String()
}

// String renders a term fully (for debugging / evidence); bounded depth.
func (t *Term) String() string {
	return t.render(6)
}

func (t *Term) render(d int) string {
	switch t.Op {
	case "const", "var":
		return t.ref()
	}
	if d == 0 {
		return "…"
	}
	var sb strings.Builder
	sb.WriteByte('(')
	switch t.Op {
	case "extract":
		fmt.Fprintf(&sb, "extract[%d:%d]", t.P1, t.P2)
	case "zero_extend", "sign_extend":
		fmt.Fprintf(&sb, "%s[%d]", t.Op, t.P1)
	default:
		sb.WriteString(t.Op)
	}
	for _, a := range t.Args {
		sb.WriteByte(' ')
		sb.WriteString(a.render(d - 1))
	}
	sb.WriteByte(')')
	return sb.String()
}

// vars collects the free variables of t.
func (t *Term) collectVars(seen map[int]bool, out map[string]*Term) {
	if seen[t.ID] {
		return
	}
	seen[t.ID] = true
	if t.Op == "var" {
		out[t.Name] = t
		return
	}
	for _, a := range t.Args {
		a.collectVars(seen, out)
	}
}

// evalTerm evaluates t under a model (var name -> value); missing vars are 0.
func evalTerm(t *Term, model map[string]uint64, memo map[int]uint64) uint64 {
	if v, ok := memo[t.ID]; ok {
		return v
	}
	var r uint64
	switch t.Op {
	case "const":
		r = t.C
	case "var":
		r = model[t.Name] & maskB(t.W)
	default:
		args := make([]*Term, len(t.Args))
		for i, a := range t.Args {
			args[i] = mkConst(a.W, evalTerm(a, model, memo))
		}
		var c *Term
		switch t.Op {
		case "not":
			c = tNot(args[0])
		case "and":
			c = tAnd(args[0], args[1])
		case "or":
			c = tOr(args[0], args[1])
		case "ite":
			c = tIte(args[0], args[1], args[2])
		case "=":
			c = tEq(args[0], args[1])
		case "bvneg":
			c = tNeg(args[0])
		case "bvnot":
			c = tBvNot(args[0])
		case "extract":
			c = tExtract(t.P1, t.P2, args[0])
		case "concat":
			c = tConcat(args[0], args[1])
		case "zero_extend":
			c = tZext(args[0], t.W)
		case "sign_extend":
			c = tSext(args[0], t.W)
		case "f32to64":
			c = tF32toF64(args[0])
		case "bvult", "bvule", "bvugt", "bvuge", "bvslt", "bvsle", "bvsgt", "bvsge":
			c = tCmp(t.Op, args[0], args[1])
		default:
			c = tBin(t.Op, args[0], args[1])
		}
		r = c.C
	}
	memo[t.ID] = r
	return r
}

func maskB(w int) uint64 {
	if w == 0 {
		return 1
	}
	return mask(w)
}

var _ = bits.Len
