package main

// Value representation (boxed, after go/ssa/interp) with symbolic scalars.
//
//  - bool, all integer kinds, float32/64 (as IEEE bit patterns): *Term
//  - string: strV
//  - []T: []value (Go slice semantics give aliasing/cap for free); nil slice = []value(nil)
//  - [N]T: arrayV; struct: structV (copied on load/store)
//  - *T: *value (Go pointer to the slot)
//  - interface: ifaceV (dynamic type always concrete on a path)
//  - map: *mapV; chan: *chanV
//  - func: *ssa.Function | *closure | *ssa.Builtin | *nativeFn
//  - tuple: multi-value results
//  - opaqueV: result of a call into a library that is not encoded

import (
	"fmt"
	"go/types"
	"math"
	"strings"

	"golang.org/x/tools/go/ssa"
)

type value interface{}

type tuple []value
type arrayV []value
type structV []value

type ifaceV struct {
	t types.Type
	v value
}

type strV struct {
	s     string  // concrete contents when sym == nil
	sym   []*Term // per-byte terms (len = length) when any byte is symbolic
	taint bool    // formatted from symbolic data: contents are a placeholder, comparing them is inconclusive
}

type closure struct {
	Fn  *ssa.Function
	Env []value
}

// nativeFn is a function value implemented by the engine (e.g. a bound method of a model).
type nativeFn struct {
	name string
	fn   func(m *Machine, args []value) value
}

type mapEnt struct {
	k, v value
}

type mapV struct {
	keyT types.Type
	elT  types.Type
	ents []*mapEnt
}

type opaqueV struct {
	t   types.Type
	src string
}

type badV struct{}

func f32frombits(b uint32) float32 { return math.Float32frombits(b) }
func f64frombits(b uint64) float64 { return math.Float64frombits(b) }
func f32bits(f float32) uint64     { return uint64(math.Float32bits(f)) }
func f64bits(f float64) uint64     { return math.Float64bits(f) }

func mkStr(s string) strV { return strV{s: s} }

func (s strV) Len() int {
	if s.sym != nil {
		return len(s.sym)
	}
	return len(s.s)
}

func (s strV) At(i int) *Term {
	if s.sym != nil {
		return s.sym[i]
	}
	return mkConst(8, uint64(s.s[i]))
}

func (s strV) Concrete() (string, bool) {
	if s.sym == nil {
		return s.s, true
	}
	return "", false
}

func (s strV) Bytes() []*Term {
	if s.sym != nil {
		return s.sym
	}
	r := make([]*Term, len(s.s))
	for i := 0; i < len(s.s); i++ {
		r[i] = mkConst(8, uint64(s.s[i]))
	}
	return r
}

func strFromTerms(bs []*Term, taint bool) strV {
	allc := true
	for _, b := range bs {
		if !b.IsConst() {
			allc = false
			break
		}
	}
	if allc {
		buf := make([]byte, len(bs))
		for i, b := range bs {
			buf[i] = byte(b.C)
		}
		return strV{s: string(buf), taint: taint}
	}
	if len(bs) == 0 {
		return strV{taint: taint}
	}
	return strV{sym: append([]*Term(nil), bs...), taint: taint}
}

func (s strV) String() string {
	if s.sym == nil {
		return s.s
	}
	var sb strings.Builder
	for _, b := range s.sym {
		if b.IsConst() {
			sb.WriteByte(byte(b.C))
		} else {
			sb.WriteString("\\?")
		}
	}
	return sb.String()
}

// intWidth returns the bit width of a basic integer/float/bool type (0 for bool).
func basicWidth(b *types.Basic) int {
	switch b.Kind() {
	case types.Bool, types.UntypedBool:
		return 0
	case types.Int8, types.Uint8:
		return 8
	case types.Int16, types.Uint16:
		return 16
	case types.Int32, types.Uint32, types.Float32, types.UntypedRune:
		return 32
	case types.Int, types.Uint, types.Int64, types.Uint64, types.Uintptr, types.Float64, types.UntypedInt, types.UntypedFloat:
		return 64
	}
	return -1
}

func isSigned(b *types.Basic) bool {
	return b.Info()&types.IsInteger != 0 && b.Info()&types.IsUnsigned == 0
}

func isFloat(b *types.Basic) bool { return b.Info()&types.IsFloat != 0 }

func deref(t types.Type) types.Type {
	if p, ok := t.Underlying().(*types.Pointer); ok {
		return p.Elem()
	}
	panic(fmt.Sprintf("deref: not a pointer: %v", t))
}

func zero(t types.Type) value {
	switch t := t.(type) {
	case *types.Basic:
		if t.Kind() == types.UntypedNil {
			panic("untyped nil has no zero value")
		}
		if t.Info()&types.IsUntyped != 0 {
			t = types.Default(t).(*types.Basic)
		}
		switch {
		case t.Kind() == types.String:
			return strV{}
		case t.Kind() == types.UnsafePointer:
			return (*value)(nil)
		case t.Info()&types.IsComplex != 0:
			return opaqueV{t: t, src: "complex"}
		}
		w := basicWidth(t)
		if w < 0 {
			panic(fmt.Sprint("zero for unexpected type:", t))
		}
		return mkConst(w, 0)
	case *types.Pointer:
		return (*value)(nil)
	case *types.Array:
		a := make(arrayV, t.Len())
		for i := range a {
			a[i] = zero(t.Elem())
		}
		return a
	case *types.Named:
		if isReflValueType(t) {
			return reflVal{}
		}
		return zero(t.Underlying())
	case *types.Alias:
		return zero(types.Unalias(t))
	case *types.Interface:
		return ifaceV{}
	case *types.Slice:
		return []value(nil)
	case *types.Struct:
		s := make(structV, t.NumFields())
		for i := range s {
			s[i] = zero(t.Field(i).Type())
		}
		return s
	case *types.Tuple:
		if t.Len() == 1 {
			return zero(t.At(0).Type())
		}
		s := make(tuple, t.Len())
		for i := range s {
			s[i] = zero(t.At(i).Type())
		}
		return s
	case *types.Chan:
		return (*chanV)(nil)
	case *types.Map:
		return (*mapV)(nil)
	case *types.Signature:
		return (*ssa.Function)(nil)
	case *types.TypeParam:
		panic("zero of type parameter")
	}
	panic(fmt.Sprint("zero: unexpected ", t))
}

// copyVal returns a copy of v with no aliasing of struct/array storage.
func copyVal(v value) value {
	switch v := v.(type) {
	case structV:
		c := make(structV, len(v))
		for i, f := range v {
			c[i] = copyVal(f)
		}
		return c
	case arrayV:
		c := make(arrayV, len(v))
		for i, f := range v {
			c[i] = copyVal(f)
		}
		return c
	case tuple:
		c := make(tuple, len(v))
		for i, f := range v {
			c[i] = copyVal(f)
		}
		return c
	case ifaceV:
		// the boxed value is immutable (Go copies on boxing); structs inside are never
		// mutated in place because MakeInterface copies.
		return v
	}
	return v
}

func load(addr *value) value { return copyVal(*addr) }

// store copies v into the slot. Structs and arrays are copied IN PLACE, element by element, as Go does:
// a pointer to a field or element taken before the assignment (go/ssa emits "t = &b.f; *b = T{}; *t = x"
// for "*b = T{f: x}") still points into the variable afterwards.
func store(addr *value, v value) {
	switch src := v.(type) {
	case structV:
		if dst, ok := (*addr).(structV); ok && len(dst) == len(src) {
			for i := range src {
				store(&dst[i], src[i])
			}
			return
		}
	case arrayV:
		if dst, ok := (*addr).(arrayV); ok && len(dst) == len(src) {
			// the source may alias the destination (a = a): copy first
			tmp := copyVal(src).(arrayV)
			for i := range tmp {
				store(&dst[i], tmp[i])
			}
			return
		}
	}
	*addr = copyVal(v)
}

// equalsT builds the term for x == y under Go semantics for type t.
// It panics with a target panic on incomparable dynamic types.
func (m *Machine) equalsT(t types.Type, x, y value) *Term {
	switch x := x.(type) {
	case *Term:
		yt, ok := y.(*Term)
		if !ok {
			m.abort("equals: mismatched operand kinds %T vs %T", x, y)
		}
		if t != nil {
			if b, ok := t.Underlying().(*types.Basic); ok && isFloat(b) {
				return m.floatCmp("==", b, x, yt)
			}
		}
		return tEq(x, yt)
	case strV:
		return m.strEq(x, y.(strV))
	case *value:
		return mkBool(x == y.(*value))
	case *mapV:
		return mkBool(x == y.(*mapV))
	case *chanV:
		return mkBool(x == y.(*chanV))
	case structV:
		ys := y.(structV)
		var st *types.Struct
		if t != nil {
			st, _ = t.Underlying().(*types.Struct)
		}
		r := tTrue
		for i := range x {
			var ft types.Type
			if st != nil {
				ft = st.Field(i).Type()
			}
			r = tAnd(r, m.equalsT(ft, x[i], ys[i]))
		}
		return r
	case arrayV:
		ys := y.(arrayV)
		var et types.Type
		if t != nil {
			if at, ok := t.Underlying().(*types.Array); ok {
				et = at.Elem()
			}
		}
		r := tTrue
		for i := range x {
			r = tAnd(r, m.equalsT(et, x[i], ys[i]))
		}
		return r
	case ifaceV:
		yi, ok := y.(ifaceV)
		if !ok {
			m.abort("equals: iface vs %T", y)
		}
		if x.t == nil || yi.t == nil {
			return mkBool(x.t == nil && yi.t == nil)
		}
		if !types.Identical(x.t, yi.t) {
			return tFalse
		}
		if !types.Comparable(x.t) {
			m.targetPanic("runtime error: comparing uncomparable type " + x.t.String())
		}
		return m.equalsT(x.t, x.v, yi.v)
	case *ssa.Function:
		// only comparison with nil is legal
		switch y := y.(type) {
		case *ssa.Function:
			return mkBool(x == y)
		case *closure:
			return mkBool(false && y == nil)
		case *nativeFn:
			return tFalse
		}
	case *closure:
		switch y := y.(type) {
		case *ssa.Function:
			return mkBool(x == nil && y == nil)
		case *closure:
			return mkBool(x == y)
		}
	case *nativeFn:
		switch y := y.(type) {
		case *ssa.Function:
			return mkBool(x == nil && y == nil)
		}
	case []value:
		// slices are only comparable to nil
		ys, _ := y.([]value)
		if x == nil || ys == nil {
			return mkBool(x == nil && ys == nil)
		}
	case reflType:
		if yt, ok := y.(reflType); ok {
			return mkBool(types.Identical(x.t, yt.t))
		}
	case opaqueV:
		m.abort("comparison of opaque value from %s", x.src)
	}
	m.abort("equals: unsupported operands %T, %T", x, y)
	return nil
}

func (m *Machine) strEq(a, b strV) *Term {
	if a.taint || b.taint {
		// placeholder contents: any comparison would be meaningless
		if a.sym == nil && b.sym == nil && a.Len() != b.Len() {
			// even a length mismatch is not trustworthy
		}
		m.abort("comparison of a string formatted from symbolic data")
	}
	if a.Len() != b.Len() {
		return tFalse
	}
	if a.sym == nil && b.sym == nil {
		return mkBool(a.s == b.s)
	}
	r := tTrue
	for i := 0; i < a.Len(); i++ {
		r = tAnd(r, tEq(a.At(i), b.At(i)))
		if r == tFalse {
			return r
		}
	}
	return r
}

// strLess builds a < b lexicographically.
func (m *Machine) strLess(a, b strV) *Term {
	if a.taint || b.taint {
		m.abort("ordering of a string formatted from symbolic data")
	}
	if a.sym == nil && b.sym == nil {
		return mkBool(a.s < b.s)
	}
	// lexicographic: exists i: prefix equal and a[i]<b[i], or a is a proper prefix of b
	n := a.Len()
	if b.Len() < n {
		n = b.Len()
	}
	res := mkBool(a.Len() < b.Len()) // all common bytes equal
	for i := n - 1; i >= 0; i-- {
		res = tIte(tEq(a.At(i), b.At(i)), res, tCmp("bvult", a.At(i), b.At(i)))
	}
	return res
}

func describe(v value) string {
	switch v := v.(type) {
	case nil:
		return "<nil>"
	case *Term:
		return v.String()
	case strV:
		return fmt.Sprintf("%q", v.String())
	case []value:
		if v == nil {
			return "[]nil"
		}
		var sb strings.Builder
		sb.WriteString("[")
		for i, e := range v {
			if i > 0 {
				sb.WriteString(" ")
			}
			if i > 40 {
				sb.WriteString("…")
				break
			}
			sb.WriteString(describe(e))
		}
		sb.WriteString("]")
		return sb.String()
	case structV:
		var sb strings.Builder
		sb.WriteString("{")
		for i, e := range v {
			if i > 0 {
				sb.WriteString(" ")
			}
			sb.WriteString(describe(e))
		}
		sb.WriteString("}")
		return sb.String()
	case arrayV:
		return describe([]value(v))
	case tuple:
		return "tuple" + describe([]value(v))
	case ifaceV:
		if v.t == nil {
			return "iface(nil)"
		}
		return fmt.Sprintf("iface(%s:%s)", v.t, describe(v.v))
	case *value:
		if v == nil {
			return "ptr(nil)"
		}
		return fmt.Sprintf("ptr(%p)", v)
	case *ssa.Function:
		if v == nil {
			return "func(nil)"
		}
		return "func " + v.String()
	case *closure:
		return "closure " + v.Fn.String()
	case opaqueV:
		return "opaque<" + v.src + ">"
	}
	return fmt.Sprintf("%T", v)
}
