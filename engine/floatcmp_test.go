package main

import (
	"math"
	"math/rand"
	"testing"
)

// TestFloatCmpEncoding validates the bit-level encoding of floating-point comparisons against the
// native comparison on a corpus of boundary values and random bit patterns (both widths, all six operators).
func TestFloatCmpEncoding(t *testing.T) {
	m := &Machine{}
	ops := []string{"==", "!=", "<", "<=", ">", ">="}
	native := func(op string, a, b float64) bool {
		switch op {
		case "==":
			return a == b
		case "!=":
			return a != b
		case "<":
			return a < b
		case "<=":
			return a <= b
		case ">":
			return a > b
		}
		return a >= b
	}
	rnd := rand.New(rand.NewSource(1))
	var c64 []uint64
	for _, f := range []float64{0, math.Copysign(0, -1), 1, -1, math.Inf(1), math.Inf(-1), math.NaN(), math.MaxFloat32, -math.MaxFloat32,
		math.MaxFloat64, -math.MaxFloat64, math.SmallestNonzeroFloat64, -math.SmallestNonzeroFloat64, 1.5, -1.5, math.Nextafter(math.MaxFloat32, math.Inf(1))} {
		c64 = append(c64, math.Float64bits(f))
	}
	c64 = append(c64, 0x7ff0000000000001, 0xfff8000000000000, 0x7fffffffffffffff)
	for i := 0; i < 40; i++ {
		c64 = append(c64, rnd.Uint64())
	}
	x64, y64 := mkVar("x64", 64), mkVar("y64", 64)
	x32, y32 := mkVar("x32", 32), mkVar("y32", 32)
	for _, op := range ops {
		t64 := m.floatCmp(op, nil, x64, y64)
		t32 := m.floatCmp(op, nil, x32, y32)
		for _, a := range c64 {
			for _, b := range c64 {
				got := evalTerm(t64, map[string]uint64{"x64": a, "y64": b}, map[int]uint64{}) != 0
				if want := native(op, math.Float64frombits(a), math.Float64frombits(b)); got != want {
					t.Fatalf("float64 %x %s %x: encoded %v native %v", a, op, b, got, want)
				}
				a32, b32 := uint32(a>>32), uint32(b>>32)
				if a == math.Float64bits(math.MaxFloat32) {
					a32 = math.Float32bits(math.MaxFloat32)
				}
				got = evalTerm(t32, map[string]uint64{"x32": uint64(a32), "y32": uint64(b32)}, map[int]uint64{}) != 0
				if want := native(op, float64(math.Float32frombits(a32)), float64(math.Float32frombits(b32))); got != want {
					t.Fatalf("float32 %x %s %x: encoded %v native %v", a32, op, b32, got, want)
				}
			}
		}
	}
}
