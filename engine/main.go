package main

import (
	"encoding/json"
	"flag"
	"fmt"
	"go/types"
	"os"
	"path/filepath"
	"runtime/pprof"
	"strings"
	"time"

	"golang.org/x/tools/go/packages"
	"golang.org/x/tools/go/ssa"
	"golang.org/x/tools/go/ssa/ssautil"
)

type LoadSpec struct {
	RepoDir  string
	Pkgs     []string          // import paths (relative patterns like ./bus/net)
	Overlay  map[string]string // virtual path -> real file
	ModFile  string
	BuildTag string
}

func loadProgram(spec LoadSpec) (*ssa.Program, []*packages.Package, error) {
	overlay := map[string][]byte{}
	for virt, real := range spec.Overlay {
		data, err := os.ReadFile(real)
		if err != nil {
			return nil, nil, err
		}
		overlay[virt] = data
	}
	flags := []string{"-tags=" + spec.BuildTag}
	if spec.ModFile != "" {
		flags = append(flags, "-modfile="+spec.ModFile)
	}
	cfg := &packages.Config{
		Mode:       packages.LoadAllSyntax,
		Dir:        spec.RepoDir,
		Overlay:    overlay,
		BuildFlags: flags,
		Env:        append(os.Environ(), "GOFLAGS=-mod=mod", "GOPROXY=off", "GOSUMDB=off", "GOTOOLCHAIN=local"),
	}
	pkgs, err := packages.Load(cfg, spec.Pkgs...)
	if err != nil {
		return nil, nil, err
	}
	var errs []string
	packages.Visit(pkgs, nil, func(p *packages.Package) {
		for _, e := range p.Errors {
			errs = append(errs, e.Error())
		}
	})
	if len(errs) > 0 {
		return nil, nil, fmt.Errorf("load errors:\n%s", strings.Join(errs, "\n"))
	}
	prog, _ := ssautil.AllPackages(pkgs, ssa.InstantiateGenerics)
	prog.Build()
	return prog, pkgs, nil
}

func findFunc(prog *ssa.Program, pkgs []*packages.Package, pkgPath, name string) *ssa.Function {
	for _, p := range prog.AllPackages() {
		if p.Pkg.Path() == pkgPath {
			return p.Func(name)
		}
	}
	return nil
}

func main() {
	if len(os.Args) < 2 {
		fmt.Fprintln(os.Stderr, "usage: symgo run|check ...")
		os.Exit(2)
	}
	switch os.Args[1] {
	case "run":
		cmdRun(os.Args[2:])
	case "check":
		cmdCheck(os.Args[2:])
	case "replay":
		cmdReplay(os.Args[2:])
	case "selftest":
		cmdSelftest(os.Args[2:])
	case "testrun":
		cmdTestRun(os.Args[2:])
	default:
		fmt.Fprintln(os.Stderr, "unknown command", os.Args[1])
		os.Exit(2)
	}
}

// cmdRun: explore one harness function and print the result as JSON (worker mode).
func cmdRun(args []string) {
	fs := flag.NewFlagSet("run", flag.ExitOnError)
	repo := fs.String("repo", "/repo", "repository root")
	pkg := fs.String("pkg", "", "package dir relative to repo (e.g. bus/net)")
	fn := fs.String("func", "", "harness function name")
	harnessDir := fs.String("harness", "/verif/harness", "harness root")
	modfile := fs.String("modfile", "", "scratch go.mod")
	out := fs.String("out", "", "result JSON file")
	solver := fs.String("solver", "z3", "z3|z3-new|cvc5")
	transcript := fs.String("transcript", "", "write SMT transcript here")
	trace := fs.Bool("trace", false, "trace paths")
	maxLen := fs.Int("maxlen", 8, "")
	maxEnum := fs.Int("maxenum", 256, "")
	loopBudget := fs.Int("loop", 0, "")
	steps := fs.Int64("steps", 20000000, "")
	preempt := fs.Int("preempt", 0, "")
	maxPaths := fs.Int("maxpaths", 0, "")
	qto := fs.Int("qtimeout", 10000, "per-query timeout ms")
	stopFirst := fs.Bool("stopfirst", false, "")
	resetEvery := fs.Int("reset", 20, "reset the solver every N paths")
	sigor := fs.String("sigoracle", "", "pre-built signature oracle binary")
	extra := fs.String("extra", "", "extra overlay entries virt=real,virt=real")
	fs.Parse(args)
	oracleBin = *sigor
	if pf := os.Getenv("SYMGO_PROF"); pf != "" {
		f, _ := os.Create(pf)
		pprof.StartCPUProfile(f)
		defer pprof.StopCPUProfile()
	}
	oracleCfg.repo, oracleCfg.harness, oracleCfg.modfile = *repo, *harnessDir, *modfile
	defer closeOracle()

	spec, err := buildSpec(*repo, *harnessDir, []string{*pkg}, *modfile)
	if err != nil {
		fmt.Fprintln(os.Stderr, "spec:", err)
		os.Exit(2)
	}
	for _, kv := range strings.Split(*extra, ",") {
		if i := strings.Index(kv, "="); i > 0 {
			spec.Overlay[kv[:i]] = kv[i+1:]
		}
	}
	t0 := time.Now()
	prog, pkgs, err := loadProgram(spec)
	if err != nil {
		fmt.Fprintln(os.Stderr, "LOAD-ERROR:", err)
		os.Exit(3)
	}
	loadS := time.Since(t0).Seconds()
	var pkgPath string
	for _, p := range pkgs {
		pkgPath = p.PkgPath
	}
	f := findFunc(prog, pkgs, pkgPath, *fn)
	if f == nil {
		fmt.Fprintf(os.Stderr, "LOAD-ERROR: harness function %s not found in %s\n", *fn, pkgPath)
		os.Exit(3)
	}
	var tw *os.File
	if *transcript != "" {
		tw, _ = os.Create(*transcript)
		defer tw.Close()
	}
	var s *Solver
	if tw != nil {
		s, err = NewSolver(*solver, *qto, tw)
	} else {
		s, err = NewSolver(*solver, *qto, nil)
	}
	if err != nil {
		fmt.Fprintln(os.Stderr, "solver:", err)
		os.Exit(2)
	}
	defer s.Close()
	opts := Options{MaxLen: *maxLen, MaxEnum: *maxEnum, LoopBudget: *loopBudget, StepBudget: *steps,
		Preempt: *preempt, MaxPaths: *maxPaths, Trace: *trace, QueryTimeout: *qto, StopAtFirst: *stopFirst,
		CheckPanics: true, CheckDeadlock: true}
	m := NewMachine(prog, s, opts)
	m.resetEvery = *resetEvery
	res := m.Explore(f)
	data, _ := json.MarshalIndent(map[string]interface{}{"result": res, "load_s": loadS}, "", " ")
	if *out != "" {
		os.WriteFile(*out, data, 0644)
	} else {
		os.Stdout.Write(data)
		fmt.Println()
	}
}

// buildSpec assembles the overlay: the sym package plus every harness file for the packages.
func buildSpec(repo, harnessDir string, pkgDirs []string, modfile string) (LoadSpec, error) {
	spec := LoadSpec{RepoDir: repo, Overlay: map[string]string{}, ModFile: modfile, BuildTag: "verif"}
	spec.Overlay[filepath.Join(repo, "internal/zzverif/sym/sym.go")] = filepath.Join(harnessDir, "sym/sym.go")
	for _, d := range pkgDirs {
		spec.Pkgs = append(spec.Pkgs, "./"+d)
		files, _ := filepath.Glob(filepath.Join(harnessDir, d, "*.go"))
		for _, f := range files {
			base := filepath.Base(f)
			if strings.HasSuffix(base, "_test.go") {
				continue
			}
			spec.Overlay[filepath.Join(repo, d, "zz_verif_"+base)] = f
		}
	}
	return spec, nil
}

var _ = types.Typ
