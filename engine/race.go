package main

// Happens-before tracking (vector clocks) and a race detector restricted to Go maps.
//
// Concurrent access to a Go map where at least one access is a write is not merely a data race: the
// runtime detects it (best effort) and kills the process ("fatal error: concurrent map writes" /
// "concurrent map read and map write", not recoverable). For the properties that promise that a
// process stays up this is a violation whatever the interleaving actually executed, so the engine
// reports two map accesses (one of them a write) by different goroutines that are NOT ordered by
// happens-before on the path being executed -- independently of the order the scheduler picked.
//
// Happens-before edges follow the Go memory model as implemented by the race detector:
// go statement; channel send -> receive, receive -> completion of a later send (the engine takes the
// channel-wide join, which only ADDS edges: it can hide a race, it cannot invent one); close ->
// receive of the zero value; Mutex/RWMutex (Unlock -> Lock/RLock, RUnlock -> Lock only); WaitGroup
// Done -> Wait; Once; atomics (acquire+release per address); sync.Pool Put -> Get; sync.Map; the
// os.File model (every Write -> every later Read, like internal/poll's ioSync); sym.Quiesce (the
// harness barrier: everything the other goroutines did). A reported race is confirmed by running the
// harness natively under `go test -race` before it becomes a VIOLATION.

import "fmt"

type vclock map[int]int

func (v vclock) clone() vclock {
	c := make(vclock, len(v)+1)
	for k, x := range v {
		c[k] = x
	}
	return c
}

func (v vclock) join(o vclock) {
	for k, x := range o {
		if x > v[k] {
			v[k] = x
		}
	}
}

type mapAccess struct {
	g    int
	clk  int
	site string
}

type mapRaceState struct {
	lastW *mapAccess
	reads map[int]*mapAccess
}

type hbKey struct {
	obj  interface{}
	kind string
}

func (m *Machine) vcOf(obj interface{}, kind string) vclock {
	k := hbKey{obj, kind}
	v := m.syncVC[k]
	if v == nil {
		v = vclock{}
		m.syncVC[k] = v
	}
	return v
}

// hbRelease: everything the current goroutine did so far happens before whoever acquires (obj,kind) later.
func (m *Machine) hbRelease(obj interface{}, kind string) {
	g := m.cur
	if g == nil || g.vc == nil {
		return
	}
	m.vcOf(obj, kind).join(g.vc)
	g.vc[g.id]++
}

func (m *Machine) hbAcquire(obj interface{}, kind string) {
	g := m.cur
	if g == nil || g.vc == nil {
		return
	}
	g.vc.join(m.vcOf(obj, kind))
}

// hbBarrier: the harness barrier (sym.Quiesce): the caller has observed everything the others did.
func (m *Machine) hbBarrier() {
	g := m.cur
	if g == nil || g.vc == nil {
		return
	}
	for _, o := range m.gs {
		if o != g && o.vc != nil {
			g.vc.join(o.vc)
		}
	}
}

func (m *Machine) mapRaceOf(mp *mapV) *mapRaceState {
	s := m.mapRaces[mp]
	if s == nil {
		s = &mapRaceState{reads: map[int]*mapAccess{}}
		m.mapRaces[mp] = s
	}
	return s
}

// Slices sorted in place (sort.Slice / sort.SliceStable): the comparison callbacks read the elements,
// a swap writes them. Two sorts of slices sharing one backing array by goroutines not ordered by
// happens-before, at least one of which really swaps, is a data race that scrambles the slice
// (duplicated / lost elements); reported as kind "slicerace", confirmed natively under -race.
func (m *Machine) sliceAccess(first *value, write bool) {
	if first == nil || len(m.gs) < 2 || m.cur == nil || m.cur.vc == nil {
		return
	}
	s := m.sliceRaces[first]
	if s == nil {
		s = &mapRaceState{reads: map[int]*mapAccess{}}
		m.sliceRaces[first] = s
	}
	site := m.where()
	g := m.cur
	report := func(prev *mapAccess) {
		key := "slice|" + prev.site + "|" + site
		if m.raceSeen[key] {
			return
		}
		m.raceSeen[key] = true
		detail := fmt.Sprintf("a slice is sorted in place by g%d at %s while g%d accesses the same backing array at %s: not ordered by happens-before (elements can be duplicated or lost)", prev.g, prev.site, g.id, site)
		m.violationNow("slicerace", "no-concurrent-in-place-sort", detail, map[string]string{"first": prev.site, "second": site})
	}
	if m.unordered(s.lastW) {
		report(s.lastW)
	}
	if write {
		for _, r := range s.reads {
			if m.unordered(r) {
				report(r)
			}
		}
		s.lastW = &mapAccess{g: g.id, clk: g.vc[g.id], site: site}
		s.reads = map[int]*mapAccess{}
	} else {
		s.reads[g.id] = &mapAccess{g: g.id, clk: g.vc[g.id], site: site}
	}
}

func (m *Machine) unordered(a *mapAccess) bool {
	g := m.cur
	return a != nil && a.g != g.id && a.clk > g.vc[a.g]
}

func (m *Machine) reportMapRace(what string, prev *mapAccess, site string) {
	key := what + "|" + prev.site + "|" + site
	if m.raceSeen[key] {
		return
	}
	m.raceSeen[key] = true
	detail := fmt.Sprintf("concurrent map %s: g%d at %s and g%d at %s are not ordered by happens-before (the Go runtime aborts the process with \"fatal error: concurrent map ...\" when they overlap)",
		what, prev.g, prev.site, m.cur.id, site)
	m.violationNow("maprace", "no-concurrent-map-access", detail, map[string]string{"first": prev.site, "second": site})
}

func (m *Machine) mapRead(mp *mapV) {
	if mp == nil || len(m.gs) < 2 || m.cur == nil || m.cur.vc == nil {
		return
	}
	s := m.mapRaceOf(mp)
	site := m.where()
	if m.unordered(s.lastW) {
		m.reportMapRace("read and map write", s.lastW, site)
	}
	g := m.cur
	s.reads[g.id] = &mapAccess{g: g.id, clk: g.vc[g.id], site: site}
}

func (m *Machine) mapWrite(mp *mapV) {
	if mp == nil || len(m.gs) < 2 || m.cur == nil || m.cur.vc == nil {
		return
	}
	s := m.mapRaceOf(mp)
	site := m.where()
	if m.unordered(s.lastW) {
		m.reportMapRace("writes", s.lastW, site)
	}
	for _, r := range s.reads {
		if m.unordered(r) {
			m.reportMapRace("read and map write", r, site)
		}
	}
	g := m.cur
	s.lastW = &mapAccess{g: g.id, clk: g.vc[g.id], site: site}
	s.reads = map[int]*mapAccess{}
}

func (m *Machine) hbAcqRel(obj interface{}) {
	m.hbAcquire(obj, "atomic")
	m.hbRelease(obj, "atomic")
}
