package main

// Translator validation against the repository's own tests ("symgo selftest"): every Test function
// of the chosen packages is executed by the interpreter (concrete inputs: one path) with a model of
// *testing.T, and the verdict is compared with the verdict of the native `go test -run`. A test the
// interpreter cannot carry (opaque library, real sockets, the text parsers) is counted as skipped
// with its reason; a test on which the two verdicts DIFFER is an encoding error.

import (
	"encoding/json"
	"flag"
	"fmt"
	"go/types"
	"net/url"
	"os"
	"os/exec"
	"path/filepath"
	"regexp"
	"sort"
	"strings"
	"sync"
	"time"

	"golang.org/x/tools/go/packages"
	"golang.org/x/tools/go/ssa"
	"golang.org/x/tools/go/ssa/ssautil"
)

type testVerdict struct {
	Pkg     string  `json:"pkg"`
	Test    string  `json:"test"`
	Engine  string  `json:"engine"` // pass | fail | skipped
	Native  string  `json:"native"` // pass | fail | skip | ?
	Why     string  `json:"why,omitempty"`
	Paths   int     `json:"paths"`
	Steps   int64   `json:"steps"`
	Wall    float64 `json:"wall_s"`
	Verdict string  `json:"verdict"` // agree | DISAGREE | skipped
}

func loadTests(repo, dir, modfile string) (*ssa.Program, []*packages.Package, error) {
	flags := []string{}
	if modfile != "" {
		flags = append(flags, "-modfile="+modfile)
	}
	memsrc, err := os.ReadFile(filepath.Join(oracleCfg.harness, "memnet/memnet.go"))
	if err != nil {
		return nil, nil, err
	}
	cfg := &packages.Config{
		Mode:       packages.LoadAllSyntax,
		Dir:        repo,
		Tests:      true,
		Overlay:    map[string][]byte{filepath.Join(repo, "internal/zzverif/memnet/memnet.go"): memsrc},
		BuildFlags: flags,
		Env:        append(os.Environ(), "GOFLAGS=-mod=mod", "GOPROXY=off", "GOSUMDB=off", "GOTOOLCHAIN=local"),
	}
	pkgs, err := packages.Load(cfg, "./"+dir, "./internal/zzverif/memnet")
	if err != nil {
		return nil, nil, err
	}
	var errs []string
	packages.Visit(pkgs, nil, func(p *packages.Package) {
		for _, e := range p.Errors {
			errs = append(errs, e.Error())
		}
	})
	if len(errs) > 0 {
		return nil, nil, fmt.Errorf("load errors:\n%s", strings.Join(errs, "\n"))
	}
	prog, _ := ssautil.AllPackages(pkgs, ssa.InstantiateGenerics)
	prog.Build()
	return prog, pkgs, nil
}

// testFuncs returns the Test functions of the test variants of the loaded package.
func testFuncs(prog *ssa.Program, pkgs []*packages.Package) []*ssa.Function {
	var out []*ssa.Function
	seen := map[string]bool{}
	for _, p := range pkgs {
		if !strings.Contains(p.ID, "[") || strings.HasSuffix(p.PkgPath, ".test") {
			continue
		}
		sp := prog.Package(p.Types)
		if sp == nil {
			continue
		}
		var names []string
		for n, mem := range sp.Members {
			f, ok := mem.(*ssa.Function)
			if !ok || !strings.HasPrefix(n, "Test") || f.Signature.Params().Len() != 1 {
				continue
			}
			if !strings.HasSuffix(f.Signature.Params().At(0).Type().String(), "testing.T") {
				continue
			}
			pos := prog.Fset.Position(f.Pos()).Filename
			if !strings.HasSuffix(pos, "_test.go") {
				continue
			}
			names = append(names, n)
		}
		sort.Strings(names)
		for _, n := range names {
			if !seen[n] {
				seen[n] = true
				out = append(out, sp.Members[n].(*ssa.Function))
			}
		}
	}
	return out
}

func init() {
	selftestModels = func() {
		fail := func(m *Machine, c *frame, fn *ssa.Function, a []value) value {
			if !m.testFailed {
				m.testFailWhere = m.where()
			}
			m.testFailed = true
			return nil
		}
		failNow := func(m *Machine, c *frame, fn *ssa.Function, a []value) value {
			if !m.testFailed {
				m.testFailWhere = m.where()
			}
			m.testFailed = true
			panic(&abortPath{kind: "done", reason: "t.FailNow"})
		}
		skip := func(m *Machine, c *frame, fn *ssa.Function, a []value) value {
			m.testSkipped = true
			panic(&abortPath{kind: "done", reason: "t.Skip"})
		}
		nop := func(m *Machine, c *frame, fn *ssa.Function, a []value) value { return zeroResults(fn) }
		for _, recv := range []string{"(*testing.common)", "(*testing.T)"} {
			for _, n := range []string{"Error", "Errorf", "Fail"} {
				models[recv+"."+n] = fail
			}
			for _, n := range []string{"Fatal", "Fatalf", "FailNow"} {
				models[recv+"."+n] = failNow
			}
			for _, n := range []string{"Skip", "Skipf", "SkipNow"} {
				models[recv+"."+n] = skip
			}
			for _, n := range []string{"Helper", "Log", "Logf", "Parallel", "Setenv"} {
				models[recv+"."+n] = nop
			}
		}
		models["(*testing.common).Failed"] = func(m *Machine, c *frame, fn *ssa.Function, a []value) value {
			return mkBool(m.testFailed)
		}
		models["(*testing.common).Name"] = func(m *Machine, c *frame, fn *ssa.Function, a []value) value {
			return strV{s: "TestSelf"}
		}
		models["(*testing.common).Cleanup"] = func(m *Machine, c *frame, fn *ssa.Function, a []value) value {
			m.testCleanups = append(m.testCleanups, a[1])
			return nil
		}
		models["net/url.Parse"] = func(m *Machine, c *frame, fn *ssa.Function, a []value) value {
			sv, ok := a[0].(strV)
			cs, conc := sv.Concrete()
			if !ok || !conc {
				m.abort("url.Parse of a symbolic string")
			}
			u, err := url.Parse(cs)
			if err != nil {
				return tuple{zero(fn.Signature.Results().At(0).Type()), m.newError(mkStr(err.Error()))}
			}
			pt := fn.Signature.Results().At(0).Type().(*types.Pointer)
			st := pt.Elem().Underlying().(*types.Struct)
			sv2 := zero(pt.Elem()).(structV)
			for i := 0; i < st.NumFields(); i++ {
				switch st.Field(i).Name() {
				case "Scheme":
					sv2[i] = mkStr(u.Scheme)
				case "Opaque":
					sv2[i] = mkStr(u.Opaque)
				case "Host":
					sv2[i] = mkStr(u.Host)
				case "Path":
					sv2[i] = mkStr(u.Path)
				case "RawPath":
					sv2[i] = mkStr(u.RawPath)
				case "RawQuery":
					sv2[i] = mkStr(u.RawQuery)
				case "Fragment":
					sv2[i] = mkStr(u.Fragment)
				case "RawFragment":
					sv2[i] = mkStr(u.RawFragment)
				case "OmitHost":
					sv2[i] = mkBool(u.OmitHost)
				case "ForceQuery":
					sv2[i] = mkBool(u.ForceQuery)
				}
			}
			cell := new(value)
			*cell = sv2
			return tuple{cell, ifaceV{}}
		}
		// os/user.Current may fail (its documented contract); the credentials file then has a relative name
		models["os/user.Current"] = func(m *Machine, c *frame, fn *ssa.Function, a []value) value {
			return tuple{zero(fn.Signature.Results().At(0).Type()), m.newError(mkStr("user: Current not implemented (symgo selftest)"))}
		}
		// os.Open of a file that does not exist (checked on the host, relative to the package directory and to
		// the home directory): the error; an existing file stays opaque
		models["os.Open"] = func(m *Machine, c *frame, fn *ssa.Function, a []value) value {
			sv, ok := a[0].(strV)
			cs, conc := sv.Concrete()
			if ok && conc && !strings.ContainsAny(cs, "*?") {
				exists := false
				home, _ := os.UserHomeDir()
				for _, base := range []string{selftestPkgDir, home} {
					p := cs
					if !filepath.IsAbs(p) {
						p = filepath.Join(base, p)
					}
					if _, err := os.Stat(p); err == nil {
						exists = true
					}
				}
				if !exists {
					return tuple{zero(fn.Signature.Results().At(0).Type()), m.newError(mkStr("open " + cs + ": no such file or directory"))}
				}
			}
			return opaqueStub("os.Open")(m, c, fn, a)
		}
		models["(*testing.T).Run"] = func(m *Machine, c *frame, fn *ssa.Function, a []value) value {
			tt := fn.Signature.Recv().Type().(*types.Pointer).Elem()
			cell := new(value)
			*cell = zero(tt)
			m.call(c, 0, a[2], []value{cell})
			return mkBool(!m.testFailed)
		}
	}
}

var selftestModels func()
var selftestPkgDir string

// cmdTestRun: worker — interpret one Test function, print the verdict as JSON.
func cmdTestRun(args []string) {
	fs := flag.NewFlagSet("testrun", flag.ExitOnError)
	repo := fs.String("repo", "/repo", "")
	dir := fs.String("pkg", "", "")
	names := fs.String("funcs", "", "comma separated Test functions (empty: list them)")
	modfile := fs.String("modfile", "", "")
	out := fs.String("out", "", "")
	sigor := fs.String("sigoracle", "", "")
	harnessDir := fs.String("harness", "/verif/harness", "")
	fs.Parse(args)
	oracleBin = *sigor
	oracleCfg.repo, oracleCfg.harness, oracleCfg.modfile = *repo, *harnessDir, *modfile
	defer closeOracle()
	selftestModels()
	selftestPkgDir = filepath.Join(*repo, *dir)
	prog, pkgs, err := loadTests(*repo, *dir, *modfile)
	if err != nil {
		fmt.Fprintln(os.Stderr, "LOAD-ERROR:", err)
		os.Exit(3)
	}
	fns := testFuncs(prog, pkgs)
	if *names == "" {
		var l []string
		for _, f := range fns {
			l = append(l, f.Name())
		}
		data, _ := json.Marshal(l)
		os.WriteFile(*out, data, 0644)
		return
	}
	want := map[string]bool{}
	for _, n := range strings.Split(*names, ",") {
		want[n] = true
	}
	var res []testVerdict
	for _, f := range fns {
		if !want[f.Name()] {
			continue
		}
		s, err := NewSolver("z3", 10000, nil)
		if err != nil {
			fmt.Fprintln(os.Stderr, "solver:", err)
			os.Exit(2)
		}
		opts := Options{MaxLen: 8, MaxEnum: 256, StepBudget: 30000000, MaxPaths: 64, QueryTimeout: 10000,
			CheckPanics: true, CheckDeadlock: true}
		m := NewMachine(prog, s, opts)
		m.resetEvery = 20
		m.clockTicks = true
		tt := f.Signature.Params().At(0).Type().(*types.Pointer).Elem()
		for _, sp := range prog.AllPackages() {
			if strings.HasSuffix(sp.Pkg.Path(), "/internal/zzverif/memnet") {
				m.baseOverrides = map[string]value{"net.Listen": sp.Func("Listen"), "net.Dial": sp.Func("Dial")}
			}
		}
		m.entryArgs = func() []value {
			cell := new(value)
			*cell = zero(tt)
			return []value{cell}
		}
		failed, skipped := false, false
		failWhere := ""
		m.afterPath = func() {
			if m.testFailed && !failed {
				failWhere = m.testFailWhere
			}
			failed = failed || m.testFailed
			skipped = skipped || m.testSkipped
		}
		r := m.Explore(f)
		s.Close()
		v := testVerdict{Pkg: *dir, Test: f.Name(), Paths: r.Paths, Steps: r.MaxSteps, Wall: r.Wall}
		switch {
		case r.Inconc > 0 || r.Outside > 0 || r.Truncated:
			v.Engine = "skipped"
			for w := range r.InconcWhy {
				v.Why = w
			}
			for w := range r.OutWhy {
				if v.Why == "" {
					v.Why = "outside: " + w
				}
			}
			if v.Why == "" {
				v.Why = "more than 64 paths"
			}
		case len(r.Violations) > 0:
			v.Engine = "fail"
			v.Why = r.Violations[0].Kind + ": " + r.Violations[0].Detail
		case failed:
			v.Engine = "fail"
			v.Why = "t.Error/t.Fatal at " + failWhere
		case skipped:
			v.Engine = "skip"
		default:
			v.Engine = "pass"
		}
		if len(v.Why) > 200 {
			v.Why = v.Why[:200]
		}
		res = append(res, v)
	}
	data, _ := json.MarshalIndent(res, "", " ")
	os.WriteFile(*out, data, 0644)
}

// cmdSelftest: driver.
func cmdSelftest(args []string) {
	fs := flag.NewFlagSet("selftest", flag.ExitOnError)
	repo := fs.String("repo", "/repo", "")
	pkgsFlag := fs.String("pkgs", "type/basic,type/value,type/encoding,type/conversion,type/object,meta/signature,bus/net,bus,bus/directory,bus/session,bus/logger,bus/util", "")
	out := fs.String("out", "/verif/selftest/result.json", "")
	par := fs.Int("j", 8, "")
	perTest := fs.Int("timeout", 120, "seconds per test under the engine")
	fs.Parse(args)
	scratch, _ := os.MkdirTemp("", "symgo-selftest-")
	defer os.RemoveAll(scratch)
	for _, f := range []string{"go.mod", "go.sum"} {
		data, _ := os.ReadFile(filepath.Join(*repo, f))
		os.WriteFile(filepath.Join(scratch, f), data, 0644)
	}
	modfile := filepath.Join(scratch, "go.mod")
	self, _ := os.Executable()
	env := append(os.Environ(), "GOFLAGS=-mod=mod", "GOPROXY=off", "GOSUMDB=off", "GOTOOLCHAIN=local")
	sig, err := buildSigOracle(*repo, "/verif/harness", modfile, scratch)
	if err != nil {
		fmt.Println("selftest:", err)
		os.Exit(2)
	}
	type job struct{ pkg, test string }
	var jobs []job
	native := map[string]string{}
	for _, p := range strings.Split(*pkgsFlag, ",") {
		lf := filepath.Join(scratch, strings.ReplaceAll(p, "/", "_")+".list")
		c := exec.Command(self, "testrun", "-repo", *repo, "-pkg", p, "-modfile", modfile, "-out", lf)
		c.Env = env
		if o, err := c.CombinedOutput(); err != nil {
			fmt.Printf("selftest: cannot list %s: %v %s\n", p, err, o)
			continue
		}
		var l []string
		data, _ := os.ReadFile(lf)
		json.Unmarshal(data, &l)
		for _, t := range l {
			jobs = append(jobs, job{p, t})
		}
		// native verdicts
		c = exec.Command("go", "test", "-modfile="+modfile, "-vet=off", "-count=1", "-json", "-timeout", "10m", "./"+p)
		c.Dir = *repo
		c.Env = env
		o, _ := c.Output()
		for _, line := range strings.Split(string(o), "\n") {
			var ev struct{ Action, Test string }
			if json.Unmarshal([]byte(line), &ev) == nil && ev.Test != "" && !strings.Contains(ev.Test, "/") {
				switch ev.Action {
				case "pass", "fail", "skip":
					native[p+"::"+ev.Test] = ev.Action
				}
			}
		}
	}
	var mu sync.Mutex
	var all []testVerdict
	ch := make(chan job)
	var wg sync.WaitGroup
	for i := 0; i < *par; i++ {
		wg.Add(1)
		go func() {
			defer wg.Done()
			for j := range ch {
				of := filepath.Join(scratch, strings.ReplaceAll(j.pkg, "/", "_")+"."+j.test+".json")
				t0 := time.Now()
				c := exec.Command("timeout", fmt.Sprint(*perTest), self, "testrun", "-repo", *repo, "-pkg", j.pkg, "-funcs", j.test, "-modfile", modfile, "-out", of, "-sigoracle", sig)
				c.Env = env
				o, err := c.CombinedOutput()
				var vs []testVerdict
				data, _ := os.ReadFile(of)
				json.Unmarshal(data, &vs)
				if len(vs) == 0 {
					why := "engine worker failed"
					if err != nil {
						why = "engine worker: " + err.Error()
					}
					if s := strings.TrimSpace(string(o)); s != "" {
						if len(s) > 160 {
							s = s[len(s)-160:]
						}
						why += " " + s
					}
					vs = []testVerdict{{Pkg: j.pkg, Test: j.test, Engine: "skipped", Why: why, Wall: time.Since(t0).Seconds()}}
				}
				mu.Lock()
				all = append(all, vs...)
				mu.Unlock()
			}
		}()
	}
	for _, j := range jobs {
		ch <- j
	}
	close(ch)
	wg.Wait()
	sort.Slice(all, func(i, j int) bool { return all[i].Pkg+all[i].Test < all[j].Pkg+all[j].Test })
	agree, disagree, skipped := 0, 0, 0
	for i := range all {
		v := &all[i]
		v.Native = native[v.Pkg+"::"+v.Test]
		if v.Native == "" {
			v.Native = "?"
		}
		switch {
		case v.Engine == "skipped" || v.Native == "?":
			v.Verdict = "skipped"
			skipped++
		case v.Engine == v.Native:
			v.Verdict = "agree"
			agree++
		default:
			v.Verdict = "DISAGREE"
			disagree++
		}
	}
	why := map[string]int{}
	re := regexp.MustCompile(`0x[0-9a-f]+|\d+`)
	for _, v := range all {
		if v.Verdict == "skipped" {
			why[re.ReplaceAllString(v.Why, "N")]++
		}
	}
	rep := map[string]interface{}{
		"what":     "translator validation: the repository's own Test functions executed by the symgo interpreter (model of *testing.T) and by the native go test; verdicts compared",
		"repo":     *repo,
		"tests":    len(all),
		"agree":    agree,
		"disagree": disagree,
		"skipped":  skipped, "skipped_reasons": why,
		"verdicts": all,
	}
	data, _ := json.MarshalIndent(rep, "", " ")
	os.WriteFile(*out, data, 0644)
	fmt.Printf("selftest: %d tests, %d agree, %d DISAGREE, %d not interpretable\n", len(all), agree, disagree, skipped)
	for _, v := range all {
		if v.Verdict == "DISAGREE" {
			fmt.Printf("  DISAGREE %s::%s engine=%s native=%s %s\n", v.Pkg, v.Test, v.Engine, v.Native, v.Why)
		}
	}
	if disagree > 0 {
		os.Exit(2)
	}
}
