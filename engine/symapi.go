package main

// Engine side of the harness API (package .../internal/zzverif/sym).

import (
	"fmt"
	"go/types"

	"golang.org/x/tools/go/ssa"
)

func strArg(m *Machine, v value) string {
	s, ok := v.(strV)
	if !ok {
		m.abort("sym: label must be a string")
	}
	cs, ok := s.Concrete()
	if !ok {
		m.abort("sym: label must be concrete")
	}
	return cs
}

func intArg(m *Machine, v value) int {
	t := m.asTerm(v)
	if !t.IsConst() {
		m.abort("sym: argument must be concrete")
	}
	return int(t.SVal())
}

func initSymIntrinsics() {
	mkInt := func(w int) externalFn {
		return func(m *Machine, c *frame, fn *ssa.Function, a []value) value {
			return m.fresh(strArg(m, a[0]), w)
		}
	}
	symIntrinsics = map[string]externalFn{
		"U8": mkInt(8), "U16": mkInt(16), "U32": mkInt(32), "U64": mkInt(64),
		"I8": mkInt(8), "I16": mkInt(16), "I32": mkInt(32), "I64": mkInt(64),
		"F32": mkInt(32), "F64": mkInt(64),
		"Bool": func(m *Machine, c *frame, fn *ssa.Function, a []value) value {
			// booleans are replayed as one byte
			t := m.fresh(strArg(m, a[0]), 8)
			return tNot(tEq(t, mkConst(8, 0)))
		},
		// Int(label, lo, hi): int in [lo,hi]
		"Int": func(m *Machine, c *frame, fn *ssa.Function, a []value) value {
			lo, hi := intArg(m, a[1]), intArg(m, a[2])
			if lo == hi {
				// still consume a replay slot natively? no: native also short-circuits
				return mkConst(64, uint64(int64(lo)))
			}
			t := m.fresh(strArg(m, a[0]), 64)
			m.assume(tAnd(tCmp("bvsge", t, mkConst(64, uint64(int64(lo)))), tCmp("bvsle", t, mkConst(64, uint64(int64(hi))))))
			return t
		},
		// Choose(label, n): concrete int in [0,n), forking
		"Choose": func(m *Machine, c *frame, fn *ssa.Function, a []value) value {
			n := intArg(m, a[1])
			if n <= 1 {
				return mkConst(64, 0)
			}
			// a fresh variable constrained only to [0,n): every value is feasible, no solver needed
			t := m.fresh(strArg(m, a[0]), 64)
			k := m.choose("choose", n)
			m.addPC(tEq(t, mkConst(64, uint64(k))))
			return mkConst(64, uint64(k))
		},
		"Bytes": func(m *Machine, c *frame, fn *ssa.Function, a []value) value {
			n := intArg(m, a[1])
			lbl := strArg(m, a[0])
			out := make([]value, n)
			for i := range out {
				out[i] = m.fresh(fmt.Sprintf("%s[%d]", lbl, i), 8)
			}
			return out
		},
		"Str": func(m *Machine, c *frame, fn *ssa.Function, a []value) value {
			n := intArg(m, a[1])
			lbl := strArg(m, a[0])
			bs := make([]*Term, n)
			for i := range bs {
				bs[i] = m.fresh(fmt.Sprintf("%s[%d]", lbl, i), 8)
			}
			return strFromTerms(bs, false)
		},
		"Assume": func(m *Machine, c *frame, fn *ssa.Function, a []value) value {
			m.assume(m.asTerm(a[0]))
			return nil
		},
		"Assert": func(m *Machine, c *frame, fn *ssa.Function, a []value) value {
			m.assert(m.asTerm(a[0]), strArg(m, a[1]))
			return nil
		},
		"Fail": func(m *Machine, c *frame, fn *ssa.Function, a []value) value {
			m.assert(tFalse, strArg(m, a[0]))
			return nil
		},
		"Reach": func(m *Machine, c *frame, fn *ssa.Function, a []value) value {
			m.reach(strArg(m, a[0]))
			return nil
		},
		"And": func(m *Machine, c *frame, fn *ssa.Function, a []value) value {
			return tAnd(m.asTerm(a[0]), m.asTerm(a[1]))
		},
		"Or": func(m *Machine, c *frame, fn *ssa.Function, a []value) value {
			return tOr(m.asTerm(a[0]), m.asTerm(a[1]))
		},
		"Not": func(m *Machine, c *frame, fn *ssa.Function, a []value) value { return tNot(m.asTerm(a[0])) },
		"Implies": func(m *Machine, c *frame, fn *ssa.Function, a []value) value {
			return tImplies(m.asTerm(a[0]), m.asTerm(a[1]))
		},
		"EqBytes": func(m *Machine, c *frame, fn *ssa.Function, a []value) value {
			x, _ := a[0].([]value)
			y, _ := a[1].([]value)
			return bytesEqTerm(x, y)
		},
		"EqStr": func(m *Machine, c *frame, fn *ssa.Function, a []value) value {
			return m.strEq(a[0].(strV), a[1].(strV))
		},
		"IteU32": func(m *Machine, c *frame, fn *ssa.Function, a []value) value {
			return tIte(m.asTerm(a[0]), m.asTerm(a[1]), m.asTerm(a[2]))
		},
		// Concrete(x): fork over the feasible values of x
		"Concrete": func(m *Machine, c *frame, fn *ssa.Function, a []value) value {
			t := m.asTerm(a[0])
			v := m.concretize(t, "sym.Concrete", m.opts.MaxEnum, true, nil)
			return mkConst(64, uint64(v))
		},
		"Yield":   func(m *Machine, c *frame, fn *ssa.Function, a []value) value { m.preemptPoint(); return nil },
		"Quiesce": func(m *Machine, c *frame, fn *ssa.Function, a []value) value { m.quiesce(); m.hbBarrier(); return nil },
		// Blocked reports how many goroutines are blocked (after Quiesce: stuck forever unless woken by main)
		"Blocked": func(m *Machine, c *frame, fn *ssa.Function, a []value) value {
			n := 0
			for _, g := range m.gs {
				if g != m.cur && g.state == 1 {
					n++
				}
			}
			return mkConst(64, uint64(n))
		},
		"Observe": func(m *Machine, c *frame, fn *ssa.Function, a []value) value {
			m.observed = append(m.observed, strArg(m, a[0])+"="+describeObs(a[1]))
			return nil
		},
		"Symbolic": func(m *Machine, c *frame, fn *ssa.Function, a []value) value { return tTrue },
		"SetMaxLen": func(m *Machine, c *frame, fn *ssa.Function, a []value) value {
			m.opts.MaxLen = intArg(m, a[0])
			return nil
		},
		"SetMaxMaterialise": func(m *Machine, c *frame, fn *ssa.Function, a []value) value {
			m.opts.MaxMat = intArg(m, a[0])
			return nil
		},
		"SetLoopBudget": func(m *Machine, c *frame, fn *ssa.Function, a []value) value {
			m.opts.LoopBudget = intArg(m, a[0])
			return nil
		},
		"SetAllocBudget": func(m *Machine, c *frame, fn *ssa.Function, a []value) value {
			m.opts.AllocBudget = int64(intArg(m, a[0]))
			return nil
		},
		"SetPreempt": func(m *Machine, c *frame, fn *ssa.Function, a []value) value {
			m.opts.Preempt = intArg(m, a[0])
			return nil
		},
		"CheckPanics": func(m *Machine, c *frame, fn *ssa.Function, a []value) value {
			m.opts.CheckPanics = m.asTerm(a[0]).C != 0
			return nil
		},
		"CheckDeadlock": func(m *Machine, c *frame, fn *ssa.Function, a []value) value {
			m.opts.CheckDeadlock = m.asTerm(a[0]).C != 0
			return nil
		},
		// Replace(name, fn): calls to the named function of the code under test run fn instead
		// (used for the one package-level function that dials: the harness supplies the transport)
		"Replace": func(m *Machine, c *frame, fn *ssa.Function, a []value) value {
			iv, ok := a[1].(ifaceV)
			if !ok {
				m.abort("sym.Replace: bad function value")
			}
			m.overrides[strArg(m, a[0])] = iv.v
			return nil
		},
		"Schedules": func(m *Machine, c *frame, fn *ssa.Function, a []value) value {
			m.schedOff = m.asTerm(a[0]).C == 0
			return nil
		},
		"SymbolicClock": func(m *Machine, c *frame, fn *ssa.Function, a []value) value {
			m.symClock = m.asTerm(a[0]).C != 0
			return nil
		},
		"RacyScope": func(m *Machine, c *frame, fn *ssa.Function, a []value) value {
			m.racyScope = strArg(m, a[0])
			return nil
		},
		"MapOrderNondet": func(m *Machine, c *frame, fn *ssa.Function, a []value) value {
			m.mapOrderNondet = m.asTerm(a[0]).C != 0
			return nil
		},
		"Bounded": func(m *Machine, c *frame, fn *ssa.Function, a []value) value {
			oldA, oldL := m.opts.AllocBudget, m.opts.LoopBudget
			m.opts.AllocBudget = int64(intArg(m, a[0]))
			m.opts.LoopBudget = intArg(m, a[1])
			m.call(c, 0, a[2], nil)
			m.opts.AllocBudget, m.opts.LoopBudget = oldA, oldL
			return nil
		},
		// Recovered(f) runs f and reports whether it panicked (recovering the panic)
		"Panics": func(m *Machine, c *frame, fn *ssa.Function, a []value) (res value) {
			res = tFalse
			func() {
				defer func() {
					if r := recover(); r != nil {
						if _, ok := r.(targetPanic); ok {
							res = tTrue
							return
						}
						panic(r)
					}
				}()
				m.call(c, 0, a[0], nil)
			}()
			return res
		},
	}
}

func describeObs(v value) string {
	if iv, ok := v.(ifaceV); ok {
		return describe(iv.v)
	}
	return describe(v)
}

var _ types.Type
