package main

// SSA instruction interpreter (structure follows golang.org/x/tools/go/ssa/interp,
// BSD-licensed, adapted to symbolic scalars, cooperative goroutines and decision forking).

import (
	"fmt"
	"go/constant"
	"go/token"
	"go/types"
	"strings"

	"golang.org/x/tools/go/ssa"
)

type deferred struct {
	fn    value
	args  []value
	instr *ssa.Defer
	tail  *deferred
}

type frame struct {
	m                *Machine
	caller           *frame
	fn               *ssa.Function
	block, prevBlock *ssa.BasicBlock
	env              map[ssa.Value]value
	locals           []value
	defers           *deferred
	result           value
	panicking        bool
	panicVal         interface{}
	cur              ssa.Instruction
	loopCount        map[*ssa.BasicBlock]int
	symLoop          bool
	racy             int
}

func (fr *frame) posString() string {
	if fr.cur != nil {
		p := fr.cur.Pos()
		if p == token.NoPos {
			// find nearest instruction with a position in the block
			if b := fr.cur.Block(); b != nil {
				for _, in := range b.Instrs {
					if in.Pos() != token.NoPos {
						p = in.Pos()
						break
					}
				}
			}
		}
		if p != token.NoPos {
			pos := fr.m.prog.Fset.Position(p)
			return fmt.Sprintf("%s:%d", shortFile(pos.Filename), pos.Line)
		}
	}
	if fr.fn.Pos() != token.NoPos {
		pos := fr.m.prog.Fset.Position(fr.fn.Pos())
		return fmt.Sprintf("%s:%d", shortFile(pos.Filename), pos.Line)
	}
	return fr.fn.String()
}

func shortFile(f string) string {
	if i := strings.Index(f, "/repo/"); i >= 0 {
		return f[i+6:]
	}
	if i := strings.Index(f, "/src/"); i >= 0 {
		return f[i+5:]
	}
	return f
}

func (fr *frame) get(key ssa.Value) value {
	switch key := key.(type) {
	case nil:
		return nil
	case *ssa.Function:
		return key
	case *ssa.Builtin:
		return key
	case *ssa.Const:
		return fr.m.constValue(key)
	case *ssa.Global:
		return fr.m.global(key)
	}
	if r, ok := fr.env[key]; ok {
		return r
	}
	panic(fmt.Sprintf("get: no value for %T: %v in %s", key, key.Name(), fr.fn))
}

func (m *Machine) global(g *ssa.Global) *value {
	if r, ok := m.globals[g]; ok {
		return r
	}
	cell := new(value)
	*cell = zero(deref(g.Type()))
	m.globals[g] = cell
	// lazily initialise packages we interpret
	if g.Pkg != nil {
		m.ensureInit(g.Pkg)
	}
	return cell
}

func (m *Machine) constValue(c *ssa.Const) value {
	if c.Value == nil {
		return zero(c.Type())
	}
	t := c.Type()
	if tp, ok := t.(*types.TypeParam); ok {
		_ = tp
		panic("const of type param")
	}
	switch ut := t.Underlying().(type) {
	case *types.Basic:
		if ut.Info()&types.IsUntyped != 0 {
			ut = types.Default(ut).(*types.Basic)
		}
		switch {
		case ut.Kind() == types.String:
			return mkStr(constant.StringVal(c.Value))
		case ut.Kind() == types.Bool:
			return mkBool(constant.BoolVal(c.Value))
		case ut.Info()&types.IsInteger != 0:
			w := basicWidth(ut)
			if isSigned(ut) {
				return mkConst(w, uint64(c.Int64()))
			}
			return mkConst(w, c.Uint64())
		case ut.Info()&types.IsFloat != 0:
			f := c.Float64()
			if ut.Kind() == types.Float32 {
				return mkConst(32, f32bits(float32(f)))
			}
			return mkConst(64, f64bits(f))
		case ut.Info()&types.IsComplex != 0:
			return opaqueV{t: t, src: "complex const"}
		}
	}
	panic(fmt.Sprintf("constValue: unexpected constant %v of type %v", c, t))
}

func (fr *frame) runDefer(d *deferred) {
	var ok bool
	defer func() {
		if !ok {
			r := recover()
			switch r.(type) {
			case killG, *abortPath:
				panic(r)
			}
			fr.panicking = true
			fr.panicVal = r
		}
	}()
	fr.m.call(fr, d.instr.Pos(), d.fn, d.args)
	ok = true
}

func (fr *frame) runDefers() {
	for d := fr.defers; d != nil; d = d.tail {
		fr.runDefer(d)
	}
	fr.defers = nil
	if fr.panicking {
		panic(fr.panicVal)
	}
}

func (m *Machine) lookupMethod(typ types.Type, meth *types.Func) *ssa.Function {
	return m.prog.LookupMethod(typ, meth.Pkg(), meth.Name())
}

const (
	kNext = iota
	kReturn
	kJump
)

// racyPoint: in racy mode every access to shared memory made by code of the scoped packages is a
// scheduling point (used where a property is about unsynchronised access).
func (m *Machine) racyPoint(fr *frame) {
	if m.racyScope == "" || m.schedOff || len(m.gs) < 2 || m.preempts >= m.opts.Preempt {
		return
	}
	if fr.racy == 0 {
		fr.racy = 2
		if strings.Contains(fr.fn.String(), m.racyScope) && !strings.Contains(fr.fn.String(), "zz") {
			fr.racy = 1
		}
	}
	if fr.racy == 1 {
		m.preemptPoint()
	}
}

func (m *Machine) visitInstr(fr *frame, instr ssa.Instruction) int {
	if m.racyScope != "" {
		switch in := instr.(type) {
		case *ssa.MapUpdate, *ssa.Lookup, *ssa.Range, *ssa.Store:
			m.racyPoint(fr)
		case *ssa.UnOp:
			if in.Op == token.MUL {
				if _, isAlloc := in.X.(*ssa.Alloc); !isAlloc {
					m.racyPoint(fr)
				}
			}
		}
	}
	switch instr := instr.(type) {
	case *ssa.DebugRef:
	case *ssa.UnOp:
		fr.env[instr] = m.unop(fr, instr, fr.get(instr.X))
	case *ssa.BinOp:
		fr.env[instr] = m.binop(instr.Op, instr.X.Type(), fr.get(instr.X), fr.get(instr.Y))
	case *ssa.Call:
		fn, args := m.prepareCall(fr, &instr.Call)
		fr.env[instr] = m.call(fr, instr.Pos(), fn, args)
	case *ssa.ChangeInterface:
		fr.env[instr] = fr.get(instr.X)
	case *ssa.ChangeType:
		fr.env[instr] = fr.get(instr.X)
	case *ssa.Convert:
		fr.env[instr] = m.conv(instr.Type(), instr.X.Type(), fr.get(instr.X))
	case *ssa.SliceToArrayPointer:
		x := fr.get(instr.X).([]value)
		n := deref(instr.Type()).Underlying().(*types.Array).Len()
		if int64(len(x)) < n {
			m.targetPanic("runtime error: cannot convert slice to array pointer: length too short")
		}
		if x == nil {
			fr.env[instr] = (*value)(nil)
		} else {
			var v value = arrayV(x[:n:n])
			fr.env[instr] = &v
		}
	case *ssa.MakeInterface:
		v := fr.get(instr.X)
		if _, isOpaque := v.(opaqueV); isOpaque {
			fr.env[instr] = v
		} else {
			fr.env[instr] = ifaceV{t: instr.X.Type(), v: copyVal(v)}
		}
	case *ssa.Extract:
		tup := fr.get(instr.Tuple)
		if o, ok := tup.(opaqueV); ok {
			fr.env[instr] = opaqueV{t: instr.Type(), src: o.src}
		} else {
			fr.env[instr] = tup.(tuple)[instr.Index]
		}
	case *ssa.Slice:
		fr.env[instr] = m.slice(instr, fr.get(instr.X), fr.get(instr.Low), fr.get(instr.High), fr.get(instr.Max))
	case *ssa.Return:
		switch len(instr.Results) {
		case 0:
		case 1:
			fr.result = fr.get(instr.Results[0])
		default:
			var res []value
			for _, r := range instr.Results {
				res = append(res, fr.get(r))
			}
			fr.result = tuple(res)
		}
		fr.block = nil
		return kReturn
	case *ssa.RunDefers:
		fr.runDefers()
	case *ssa.Panic:
		panic(targetPanic{v: fr.get(instr.X), where: fr.posString(), fn: fr.fn.String()})
	case *ssa.Send:
		c, _ := fr.get(instr.Chan).(*chanV)
		m.chanSend(c, copyVal(fr.get(instr.X)))
	case *ssa.Store:
		addr := m.ptr(fr.get(instr.Addr))
		store(addr, fr.get(instr.Val))
	case *ssa.If:
		c := m.asTerm(fr.get(instr.Cond))
		succ := 1
		if m.branch(c) {
			succ = 0
		}
		if !c.IsConst() {
			fr.symLoop = true
		}
		fr.prevBlock, fr.block = fr.block, fr.block.Succs[succ]
		return kJump
	case *ssa.Jump:
		fr.prevBlock, fr.block = fr.block, fr.block.Succs[0]
		return kJump
	case *ssa.Defer:
		fn, args := m.prepareCall(fr, &instr.Call)
		defers := &fr.defers
		if instr.DeferStack != nil {
			if into := fr.get(instr.DeferStack); into != nil {
				defers = into.(**deferred)
			}
		}
		*defers = &deferred{fn: fn, args: args, instr: instr, tail: *defers}
	case *ssa.Go:
		fn, args := m.prepareCall(fr, &instr.Call)
		name := "go@" + fr.posString()
		pos := instr.Pos()
		m.spawn(name, func() { m.call(nil, pos, fn, args) })
	case *ssa.MakeChan:
		n := m.concretize(m.asTerm(fr.get(instr.Size)), "chan size", 4, true, nil)
		fr.env[instr] = m.makeChan(int(n), instr.Type().Underlying().(*types.Chan).Elem())
	case *ssa.Alloc:
		var addr *value
		if instr.Heap {
			addr = new(value)
			fr.env[instr] = addr
		} else {
			addr = fr.env[instr].(*value)
		}
		*addr = zero(deref(instr.Type()))
	case *ssa.MakeSlice:
		tElt := instr.Type().Underlying().(*types.Slice).Elem()
		ln := m.toInt64(m.asTerm(fr.get(instr.Len)), instr.Len.Type())
		cp := ln
		if instr.Cap != instr.Len {
			cp = m.toInt64(m.asTerm(fr.get(instr.Cap)), instr.Cap.Type())
		}
		fr.env[instr] = m.makeSlice(tElt, ln, cp, "make")
	case *ssa.MakeMap:
		mt := instr.Type().Underlying().(*types.Map)
		if instr.Reserve != nil {
			r := m.asTerm(fr.get(instr.Reserve))
			if !r.IsConst() {
				m.allocObligation(r, 48, "make(map) reserve")
			}
		}
		fr.env[instr] = &mapV{keyT: mt.Key(), elT: mt.Elem()}
	case *ssa.Range:
		if mp, ok := fr.get(instr.X).(*mapV); ok {
			m.mapRead(mp)
		}
		fr.env[instr] = m.rangeIter(fr.get(instr.X), instr.X.Type())
	case *ssa.Next:
		fr.env[instr] = fr.get(instr.Iter).(iter).next(m)
	case *ssa.FieldAddr:
		p := m.ptr(fr.get(instr.X))
		if p == nil {
			m.targetPanic("runtime error: invalid memory address or nil pointer dereference")
		}
		s, ok := (*p).(structV)
		if !ok {
			m.abort("FieldAddr on %T (%s)", *p, describe(*p))
		}
		fr.env[instr] = &s[instr.Field]
	case *ssa.Field:
		x := fr.get(instr.X)
		if o, ok := x.(opaqueV); ok {
			fr.env[instr] = opaqueV{t: instr.Type(), src: o.src}
		} else {
			fr.env[instr] = x.(structV)[instr.Field]
		}
	case *ssa.IndexAddr:
		x := fr.get(instr.X)
		idx := m.asTerm(fr.get(instr.Index))
		switch x := x.(type) {
		case []value:
			i := m.index(idx, len(x), instr.Index.Type())
			fr.env[instr] = &x[i]
		case *value:
			if x == nil {
				m.targetPanic("runtime error: invalid memory address or nil pointer dereference")
			}
			a := (*x).(arrayV)
			i := m.index(idx, len(a), instr.Index.Type())
			fr.env[instr] = &a[i]
		default:
			m.abort("IndexAddr on %T", x)
		}
	case *ssa.Index:
		x := fr.get(instr.X)
		idx := m.asTerm(fr.get(instr.Index))
		switch x := x.(type) {
		case arrayV:
			i := m.index(idx, len(x), instr.Index.Type())
			fr.env[instr] = x[i]
		case strV:
			i := m.index(idx, x.Len(), instr.Index.Type())
			fr.env[instr] = x.At(i)
		default:
			m.abort("Index on %T", x)
		}
	case *ssa.Lookup:
		if mp, ok := fr.get(instr.X).(*mapV); ok {
			m.mapRead(mp)
		}
		fr.env[instr] = m.lookup(instr, fr.get(instr.X), fr.get(instr.Index))
	case *ssa.MapUpdate:
		mp, _ := fr.get(instr.Map).(*mapV)
		if mp == nil {
			m.targetPanic("assignment to entry in nil map")
		}
		m.mapWrite(mp)
		m.mapInsert(mp, fr.get(instr.Key), copyVal(fr.get(instr.Value)))
	case *ssa.TypeAssert:
		fr.env[instr] = m.typeAssert(instr, fr.get(instr.X))
	case *ssa.MakeClosure:
		var bindings []value
		for _, b := range instr.Bindings {
			bindings = append(bindings, fr.get(b))
		}
		fr.env[instr] = &closure{instr.Fn.(*ssa.Function), bindings}
	case *ssa.Phi:
		panic("unreachable: phi")
	case *ssa.Select:
		var cases []selCase
		for _, st := range instr.States {
			c, _ := fr.get(st.Chan).(*chanV)
			sc := selCase{c: c, send: st.Dir == types.SendOnly}
			if st.Send != nil {
				sc.v = copyVal(fr.get(st.Send))
			}
			cases = append(cases, sc)
		}
		chosen, recv, recvOk := m.doSelect(cases, instr.Blocking)
		r := tuple{mkConst(64, uint64(int64(chosen))), mkBool(recvOk)}
		for i, st := range instr.States {
			if st.Dir == types.RecvOnly {
				var v value
				if i == chosen && recvOk {
					v = recv
				} else {
					v = zero(st.Chan.Type().Underlying().(*types.Chan).Elem())
				}
				r = append(r, v)
			}
		}
		fr.env[instr] = r
	default:
		panic(fmt.Sprintf("unexpected instruction: %T", instr))
	}
	return kNext
}

func (m *Machine) ptr(v value) *value {
	switch v := v.(type) {
	case *value:
		if v == nil {
			m.targetPanic("runtime error: invalid memory address or nil pointer dereference")
		}
		return v
	case opaqueV:
		m.abort("dereference of opaque pointer from %s", v.src)
	}
	m.abort("not a pointer: %T", v)
	return nil
}

func (m *Machine) asTerm(v value) *Term {
	switch v := v.(type) {
	case *Term:
		return v
	case nil:
		return nil
	case opaqueV:
		m.abort("use of opaque scalar from %s", v.src)
	}
	m.abort("expected scalar, got %T", v)
	return nil
}

// index resolves an index against a concrete length, forking over feasible in-range values
// and one out-of-range panic path.
func (m *Machine) index(idx *Term, n int, it types.Type) int {
	signed := true
	if b, ok := it.Underlying().(*types.Basic); ok {
		signed = isSigned(b)
	}
	if idx.IsConst() {
		var i int64
		if signed {
			i = idx.SVal()
		} else {
			i = int64(idx.C)
			if idx.C > 1<<62 {
				i = -1
			}
		}
		if i < 0 || i >= int64(n) {
			m.targetPanic(fmt.Sprintf("runtime error: index out of range [%d] with length %d", i, n))
		}
		return int(i)
	}
	inRange := tCmp("bvult", idx, mkConst(idx.W, uint64(n)))
	if idx.W < 64 && uint64(n) >= uint64(1)<<uint(idx.W) {
		// the length does not fit the index type (a [256]T table indexed by a byte): every non-negative
		// value of the index is in range
		inRange = tTrue
		if signed {
			inRange = tCmp("bvsge", idx, mkConst(idx.W, 0))
		}
	}
	if !m.branch(inRange) {
		m.targetPanic(fmt.Sprintf("runtime error: index out of range [symbolic] with length %d", n))
	}
	return int(m.concretize(idx, "index", n+1, false, nil))
}

func (m *Machine) prepareCall(fr *frame, call *ssa.CallCommon) (fn value, args []value) {
	v := fr.get(call.Value)
	if call.Method == nil {
		fn = v
	} else {
		switch recv := v.(type) {
		case ifaceV:
			if recv.t == nil {
				m.targetPanic("runtime error: invalid memory address or nil pointer dereference (method " + call.Method.Name() + " on nil interface)")
			}
			if nf := m.modelMethod(recv, call.Method); nf != nil {
				fn = nf
			} else if f := m.lookupMethod(recv.t, call.Method); f != nil {
				fn = f
			} else {
				m.abort("method set for dynamic type %v does not contain %s", recv.t, call.Method)
			}
			args = append(args, recv.v)
		case opaqueV:
			name := "opaque." + call.Method.Name()
			fn = &nativeFn{name: name, fn: func(m *Machine, a []value) value {
				m.opaqueCalls[recv.src+"."+call.Method.Name()]++
				return m.opaqueResult(call.Signature().Results(), recv.src+"."+call.Method.Name())
			}}
		default:
			m.abort("invoke on %T", v)
		}
	}
	for _, arg := range call.Args {
		args = append(args, fr.get(arg))
	}
	return
}

func (m *Machine) opaqueResult(res *types.Tuple, src string) value {
	switch res.Len() {
	case 0:
		return nil
	case 1:
		return opaqueV{t: res.At(0).Type(), src: src}
	}
	t := make(tuple, res.Len())
	for i := range t {
		t[i] = opaqueV{t: res.At(i).Type(), src: src}
	}
	return t
}

func (m *Machine) call(caller *frame, callpos token.Pos, fn value, args []value) value {
	switch fn := fn.(type) {
	case *ssa.Function:
		if fn == nil {
			m.targetPanic("runtime error: invalid memory address or nil pointer dereference (call of nil func)")
		}
		return m.callFn(caller, callpos, fn, args)
	case *closure:
		if fn == nil {
			m.targetPanic("runtime error: call of nil func")
		}
		return m.callSSA(caller, callpos, fn.Fn, args, fn.Env)
	case *ssa.Builtin:
		return m.callBuiltin(caller, callpos, fn, args)
	case *nativeFn:
		return fn.fn(m, args)
	case opaqueV:
		m.abort("call through opaque func value from %s", fn.src)
	}
	panic(fmt.Sprintf("cannot call %T", fn))
}

func (m *Machine) callFn(caller *frame, callpos token.Pos, fn *ssa.Function, args []value) value {
	return m.callSSA(caller, callpos, fn, args, nil)
}

func (m *Machine) callSSA(caller *frame, callpos token.Pos, fn *ssa.Function, args []value, env []value) value {
	if fn.Synthetic == "package initializer" && caller != nil {
		// dependency initialisers are not run eagerly: packages are initialised lazily (ensureInit)
		return nil
	}
	if len(m.overrides) > 0 && fn.Parent() == nil {
		if ov, ok := m.overrides[fn.String()]; ok {
			return m.call(caller, callpos, ov, args)
		}
	}
	if fn.Parent() == nil {
		if ext := m.external(fn); ext != nil {
			return ext(m, caller, fn, args)
		}
	}
	if fn.Blocks == nil {
		if fn.Synthetic != "" && fn.Blocks == nil {
			// try building (instantiations are built lazily by ssa when InstantiateGenerics is set)
		}
		m.abort("no code for function %s", fn)
	}
	if fn.TypeParams().Len() > 0 && len(fn.TypeArgs()) == 0 {
		m.abort("generic function body %s", fn)
	}
	g := m.cur
	if len(g.stack) > 400 {
		m.abort("interpreter stack overflow in %s", fn)
	}
	fr := &frame{m: m, caller: caller, fn: fn}
	fr.env = make(map[ssa.Value]value, 16)
	fr.block = fn.Blocks[0]
	fr.locals = make([]value, len(fn.Locals))
	for i, l := range fn.Locals {
		fr.locals[i] = zero(deref(l.Type()))
		fr.env[l] = &fr.locals[i]
	}
	for i, p := range fn.Params {
		fr.env[p] = args[i]
	}
	for i, fv := range fn.FreeVars {
		fr.env[fv] = env[i]
	}
	g.stack = append(g.stack, fr)
	defer func() { g.stack = g.stack[:len(g.stack)-1] }()
	for fr.block != nil {
		m.runFrame(fr)
	}
	return fr.result
}

func (m *Machine) runFrame(fr *frame) {
	defer func() {
		if fr.block == nil {
			return
		}
		r := recover()
		switch r.(type) {
		case killG, *abortPath:
			panic(r)
		case targetPanic:
		default:
			// engine bug: propagate
			panic(r)
		}
		fr.panicking = true
		fr.panicVal = r
		fr.runDefers()
		fr.block = fr.fn.Recover
		if fr.block == nil {
			// recovered in a function without named results: return zero values
			fr.result = zeroResults(fr.fn)
		}
	}()
	for {
		nonPhis := m.executePhis(fr)
		for _, instr := range nonPhis {
			m.steps++
			if m.steps > m.opts.StepBudget {
				m.abort("step budget %d exceeded (possible non-termination) in %s", m.opts.StepBudget, fr.fn)
			}
			fr.cur = instr
			m.funcs[fr.fn]++
			if m.visitInstr(fr, instr) == kReturn {
				return
			}
		}
		// loop accounting: count visits to a block within this activation
		if fr.loopCount == nil {
			fr.loopCount = map[*ssa.BasicBlock]int{}
		}
		fr.loopCount[fr.block]++
		if m.opts.LoopBudget > 0 && fr.symLoop && fr.loopCount[fr.block] > m.opts.LoopBudget {
			m.loopOverrun(fr)
		}
	}
}

func zeroResults(fn *ssa.Function) value {
	res := fn.Signature.Results()
	switch res.Len() {
	case 0:
		return nil
	case 1:
		return zero(res.At(0).Type())
	}
	t := make(tuple, res.Len())
	for i := range t {
		t[i] = zero(res.At(i).Type())
	}
	return t
}

func (m *Machine) executePhis(fr *frame) []ssa.Instruction {
	firstNonPhi := -1
	for i, instr := range fr.block.Instrs {
		if _, ok := instr.(*ssa.Phi); !ok {
			firstNonPhi = i
			break
		}
	}
	nonPhis := fr.block.Instrs[firstNonPhi:]
	if firstNonPhi > 0 {
		phis := fr.block.Instrs[:firstNonPhi]
		predIndex := -1
		for i, p := range fr.block.Preds {
			if p == fr.prevBlock {
				predIndex = i
				break
			}
		}
		tmp := make([]value, len(phis))
		for i, phi := range phis {
			tmp[i] = fr.get(phi.(*ssa.Phi).Edges[predIndex])
		}
		for i, phi := range phis {
			fr.env[phi.(*ssa.Phi)] = tmp[i]
		}
	}
	return nonPhis
}

// loopOverrun: a loop in this activation ran more than LoopBudget times.
func (m *Machine) loopOverrun(fr *frame) {
	if m.opts.AllocBudget > 0 || m.opts.CheckPanics {
		// resource obligation: report as a finding of kind "loop"
		m.maximizeInputs(nil)
		m.recordViolation("loop", "bounded-loop", fmt.Sprintf("loop in %s exceeded %d iterations", fr.fn, m.opts.LoopBudget),
			map[string]string{"func": fr.fn.String(), "site": fr.posString()})
		panic(&abortPath{kind: "violation-stop", reason: "loop budget exceeded in " + fr.fn.String()})
	}
	m.abort("loop budget %d exceeded in %s at %s", m.opts.LoopBudget, fr.fn, fr.posString())
}

func (m *Machine) doRecover(caller *frame) value {
	if caller != nil && !caller.panicking && caller.caller != nil && caller.caller.panicking {
		caller.caller.panicking = false
		p := caller.caller.panicVal
		caller.caller.panicVal = nil
		switch p := p.(type) {
		case targetPanic:
			return p.v
		default:
			panic(p)
		}
	}
	return ifaceV{}
}

func (m *Machine) typeAssert(instr *ssa.TypeAssert, x value) value {
	if o, ok := x.(opaqueV); ok {
		m.abort("type assertion on opaque value from %s", o.src)
	}
	itf := x.(ifaceV)
	var v value
	err := ""
	if itf.t == nil {
		err = fmt.Sprintf("interface conversion: interface is nil, not %s", instr.AssertedType)
	} else if idst, ok := instr.AssertedType.Underlying().(*types.Interface); ok {
		v = itf
		if meth, _ := types.MissingMethod(itf.t, idst, true); meth != nil {
			err = fmt.Sprintf("interface conversion: %v is not %v: missing method %s", itf.t, idst, meth.Name())
		}
	} else if types.Identical(itf.t, instr.AssertedType) {
		v = itf.v
	} else {
		err = fmt.Sprintf("interface conversion: interface is %s, not %s", itf.t, instr.AssertedType)
	}
	if err != "" {
		if !instr.CommaOk {
			m.targetPanic(err)
		}
		return tuple{zero(instr.AssertedType), tFalse}
	}
	if instr.CommaOk {
		return tuple{v, tTrue}
	}
	return v
}

// appendVals: append(a0, a1...) with Go's aliasing rules (in place when the capacity allows it).
func appendVals(a0, a1 []value) []value {
	// copy elements (struct elements must not alias)
	if len(a0)+len(a1) <= cap(a0) {
		res := a0[:len(a0)+len(a1)]
		for i, e := range a1 {
			res[len(a0)+i] = copyVal(e)
		}
		return res
	}
	res := make([]value, len(a0), growCap(len(a0)+len(a1), cap(a0)))
	copy(res, a0)
	for _, e := range a1 {
		res = append(res, copyVal(e))
	}
	return res
}

func (m *Machine) callBuiltin(caller *frame, callpos token.Pos, fn *ssa.Builtin, args []value) value {
	switch fn.Name() {
	case "append":
		if len(args) == 1 {
			return args[0]
		}
		a0, _ := args[0].([]value)
		if s, ok := args[1].(strV); ok {
			for _, b := range s.Bytes() {
				a0 = append(a0, b)
			}
			return a0
		}
		a1, _ := args[1].([]value)
		if len(a1) == 0 {
			return a0
		}
		return appendVals(a0, a1)
	case "copy":
		dst, _ := args[0].([]value)
		var src []value
		if s, ok := args[1].(strV); ok {
			for _, b := range s.Bytes() {
				src = append(src, b)
			}
		} else {
			src, _ = args[1].([]value)
		}
		n := len(dst)
		if len(src) < n {
			n = len(src)
		}
		// memmove semantics
		tmp := make([]value, n)
		for i := 0; i < n; i++ {
			tmp[i] = copyVal(src[i])
		}
		copy(dst, tmp)
		return mkConst(64, uint64(n))
	case "close":
		c, _ := args[0].(*chanV)
		m.chanClose(c)
		return nil
	case "delete":
		mp, _ := args[0].(*mapV)
		if mp != nil {
			m.mapWrite(mp)
			m.mapDelete(mp, args[1])
		}
		return nil
	case "print", "println":
		return nil
	case "len":
		switch x := args[0].(type) {
		case strV:
			return mkConst(64, uint64(x.Len()))
		case arrayV:
			return mkConst(64, uint64(len(x)))
		case *value:
			return mkConst(64, uint64(len((*x).(arrayV))))
		case []value:
			return mkConst(64, uint64(len(x)))
		case *mapV:
			if x == nil {
				return mkConst(64, 0)
			}
			return mkConst(64, uint64(len(x.ents)))
		case *chanV:
			if x == nil {
				return mkConst(64, 0)
			}
			return mkConst(64, uint64(len(x.buf)))
		}
		m.abort("len of %T", args[0])
	case "cap":
		switch x := args[0].(type) {
		case arrayV:
			return mkConst(64, uint64(len(x)))
		case *value:
			return mkConst(64, uint64(len((*x).(arrayV))))
		case []value:
			return mkConst(64, uint64(cap(x)))
		case *chanV:
			if x == nil {
				return mkConst(64, 0)
			}
			return mkConst(64, uint64(x.cap))
		}
		m.abort("cap of %T", args[0])
	case "min", "max":
		x := args[0]
		for _, y := range args[1:] {
			var lt *Term
			t := caller.cur.(*ssa.Call).Call.Args[0].Type()
			if fn.Name() == "min" {
				lt = m.asTerm(m.binop(token.LSS, t, y, x))
			} else {
				lt = m.asTerm(m.binop(token.GTR, t, y, x))
			}
			if xt, ok := x.(*Term); ok {
				x = tIte(lt, y.(*Term), xt)
			} else if m.branch(lt) {
				x = y
			}
		}
		return x
	case "panic":
		panic(targetPanic{v: args[0], where: m.where(), fn: m.curFn()})
	case "recover":
		return m.doRecover(caller)
	case "ssa:wrapnilchk":
		recv := args[0]
		if p, ok := recv.(*value); ok && p == nil {
			m.targetPanic(fmt.Sprintf("value method %s.%s called using nil pointer", describe(args[1]), describe(args[2])))
		}
		return recv
	case "ssa:deferstack":
		return &caller.defers
	}
	panic("unknown built-in: " + fn.Name())
}

func growCap(need, old int) int {
	c := old * 2
	if c < need {
		c = need
	}
	if c < 8 {
		c = 8
	}
	return c
}

// makeSlice allocates a slice; symbolic sizes are enumerated up to MaxLen, beyond that the
// allocation obligation is checked and the path is cut as outside the bound.
func (m *Machine) makeSlice(tElt types.Type, ln, cp *Term, what string) []value {
	esz := m.sizeof(tElt)
	limitCheck := func(n int64) int64 {
		if n < 0 {
			m.targetPanic("runtime error: makeslice: len out of range")
		}
		maxMat := int64(1 << 13)
		if m.opts.MaxMat > 0 {
			maxMat = int64(m.opts.MaxMat)
		}
		if n > maxMat {
			if m.opts.AllocBudget > 0 && n*esz > m.opts.AllocBudget {
				m.violationNow("alloc", "bounded-alloc", fmt.Sprintf("%s of %d elements × %d bytes", what, n, esz),
					map[string]string{"site": m.where()})
				panic(&abortPath{kind: "violation-stop", reason: "oversized allocation"})
			}
			m.outside("%s of more than %d elements is beyond the engine's materialisation limit", what, maxMat)
		}
		return n
	}
	check := func(t *Term) int64 {
		if t.IsConst() {
			return limitCheck(t.SVal())
		}
		neg := tCmp("bvslt", t, mkConst(t.W, 0))
		if m.branch(neg) {
			m.targetPanic("runtime error: makeslice: len out of range")
		}
		return limitCheck(m.concretize(t, what+" size", m.opts.MaxLen+1, false, func(resid *Term) {
			m.allocObligation(t, esz, what)
		}))
	}
	n := check(ln)
	c := n
	if cp != ln {
		c = check(cp)
		if c < n {
			m.targetPanic("runtime error: makeslice: cap out of range")
		}
	}
	s := make([]value, c)
	z := zero(tElt)
	switch z.(type) {
	case structV, arrayV:
		for i := range s {
			s[i] = zero(tElt)
		}
	default:
		// immutable representation: share it
		for i := range s {
			s[i] = z
		}
	}
	return s[:n]
}

// allocObligation: with the current pc, can size*esz exceed the allocation budget?
func (m *Machine) allocObligation(size *Term, esz int64, what string) {
	if m.opts.AllocBudget <= 0 {
		return
	}
	m.obligations++
	limit := uint64(m.opts.AllocBudget / esz)
	over := tCmp("bvugt", size, mkConst(size.W, limit))
	d := m.nextDecision("br", func() *decision {
		r := m.check(over)
		if r == Unknown {
			m.abort("solver unknown on allocation obligation")
		}
		if r == Unsat {
			return &decision{alts: []uint64{1}}
		}
		m.maximizeInputs([]*Term{over})
		m.recordViolation("alloc", "bounded-alloc",
			fmt.Sprintf("%s: element count comes from the input and can exceed %d (×%d bytes) with this input length", what, limit, esz),
			map[string]string{"site": m.where(), "func": m.curFn()})
		// keep exploring under the assumption that this allocation stays within the budget, so that
		// later allocation sites (and other findings) on the same path are still reached
		if m.check(tNot(over)) == Sat {
			return &decision{alts: []uint64{1}, resid: true}
		}
		return &decision{alts: []uint64{0}}
	})
	if d.alts[0] == 0 {
		panic(&abortPath{kind: "violation-stop", reason: "unbounded allocation at " + m.where()})
	}
	if d.resid {
		m.addPC(tNot(over))
		return
	}
	m.discharged++
}

// toInt64 widens an integer operand of any integer type to a 64-bit (signed) length.
func (m *Machine) toInt64(t *Term, typ types.Type) *Term {
	if t.W == 64 {
		return t
	}
	if b, ok := typ.Underlying().(*types.Basic); ok && isSigned(b) {
		return tSext(t, 64)
	}
	return tZext(t, 64)
}

func (m *Machine) curFn() string {
	if m.cur != nil && len(m.cur.stack) > 0 {
		return m.cur.stack[len(m.cur.stack)-1].fn.String()
	}
	return ""
}

var stdSizes = types.SizesFor("gc", "amd64")

func (m *Machine) sizeof(t types.Type) int64 {
	defer func() { recover() }()
	s := stdSizes.Sizeof(t)
	if s <= 0 {
		return 1
	}
	return s
}

func (m *Machine) slice(instr *ssa.Slice, x, lo, hi, max value) value {
	var l, c int
	var str strV
	var sl []value
	isStr := false
	switch x := x.(type) {
	case strV:
		isStr = true
		str = x
		l = x.Len()
		c = l
	case []value:
		sl = x
		l, c = len(x), cap(x)
	case *value:
		if x == nil {
			m.targetPanic("runtime error: slice of nil array pointer")
		}
		a := (*x).(arrayV)
		sl = []value(a)
		l, c = len(a), len(a)
	default:
		m.abort("slice of %T", x)
	}
	getIdx := func(v value, def int, what string, upper int) int {
		if v == nil {
			return def
		}
		t := m.asTerm(v)
		if t.IsConst() {
			return int(t.SVal())
		}
		// fork: in-range values enumerated, out-of-range -> panic path
		inr := tCmp("bvule", t, mkConst(t.W, uint64(upper)))
		if !m.branch(inr) {
			m.targetPanic("runtime error: slice bounds out of range [symbolic " + what + "]")
		}
		return int(m.concretize(t, "slice "+what, upper+2, false, nil))
	}
	h := getIdx(hi, l, "high", c)
	if isStr {
		h = getIdx(hi, l, "high", l)
	}
	lw := getIdx(lo, 0, "low", c)
	mx := getIdx(max, c, "max", c)
	if isStr {
		if lw < 0 || h < lw || h > l {
			m.targetPanic(fmt.Sprintf("runtime error: slice bounds out of range [%d:%d] with length %d", lw, h, l))
		}
		if str.sym != nil {
			return strFromTerms(str.sym[lw:h], str.taint)
		}
		return strV{s: str.s[lw:h], taint: str.taint}
	}
	if lw < 0 || h < lw || mx < h || mx > c {
		m.targetPanic(fmt.Sprintf("runtime error: slice bounds out of range [%d:%d:%d] with capacity %d", lw, h, mx, c))
	}
	if sl == nil {
		return []value(nil)
	}
	return sl[lw:h:mx]
}
