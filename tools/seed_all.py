#!/usr/bin/env python3
"""Re-confirm every seeded change under /verif/seeded and record the outcome in meta.json + RESULTS.md."""
import json, os, re, subprocess, sys, time
root='/verif/seeded'
rows=[]
only=sys.argv[1:] 
for d in sorted(os.listdir(root)):
    p=os.path.join(root,d)
    if not os.path.isdir(p) or not os.path.exists(p+'/patch.diff'): continue
    if only and d not in only: continue
    prop=d.split('-')[0]
    t0=time.time()
    prev=None
    if os.path.exists(p+'/meta.json'):
        try: prev=json.load(open(p+'/meta.json'))
        except Exception: prev=None
    env=dict(os.environ)
    keep=bool(prev) and prev.get('confirmed',{}).get('existing_suite_with_change')=='ok' and prev['confirmed'].get('demo_with_change')=='fail' and prev['confirmed'].get('demo_without_change')=='pass' and not os.environ.get('SEED_RECONFIRM')
    if keep: env['SEED_SKIP_CONFIRM']='1'
    # a change may break another property than the one its author was given (meta.json "check_property")
    cprop=(prev or {}).get('check_property',prop)
    r=subprocess.run(['/verif/tools/seedcheck.sh',cprop,p],capture_output=True,text=True,env=env)
    out=r.stdout+r.stderr
    m=re.search(r'SEED \S+ \S+ suite=(\S+) demo_with=(\S+) demo_without=(\S+) check_exit=(\d+)',out)
    viol=[l.strip() for l in out.split('\n') if l.startswith('VIOLATION')]
    harn=[l.strip() for l in out.split('\n') if l.strip().startswith('harness=') or l.strip().startswith('(engine-trace)') or l.strip().startswith('label=')]
    notes=open(p+'/notes.md').read() if os.path.exists(p+'/notes.md') else ''
    meta={"seed":d,"property":prop,"breaks":cprop,
      "needs_to_manifest":notes.strip()[:1500],
      "confirmed":(prev['confirmed'] if keep else {"existing_suite_with_change":m.group(1) if m else '?',"demo_with_change":m.group(2) if m else '?',"demo_without_change":m.group(3) if m else '?'}),
      "what_i_ran":"tools/seedconfirm.sh / tools/seedcheck.sh %s seeded/%s (scratch worktree: go build, go test ./... with the change, demo with/without; then git -C /repo apply, bin/symgo check %s --tier quick, git -C /repo checkout -- .)"%(cprop,d,cprop),
      "check_exit":int(m.group(4)) if m else None,
      "caught_by":[re.sub(r'\s+',' ',h)[:240] for h in harn[:4]],
      "violation_lines":viol[:4],"wall_s":round(time.time()-t0,1)}
    if cprop!=prop:
        meta['check_property']=cprop
        meta['note']=(prev or {}).get('note','')
    json.dump(meta,open(p+'/meta.json','w'),indent=1)
    rows.append(meta)
    print(d, meta['confirmed'], 'check_exit=',meta['check_exit'], flush=True)
# RESULTS.md is rebuilt from every meta.json present (this run's and earlier runs')
rows=[]
for d in sorted(os.listdir(root)):
    mp=os.path.join(root,d,'meta.json')
    if os.path.exists(mp): rows.append(json.load(open(mp)))
if True:
    with open(root+'/RESULTS.md','w') as f:
        f.write('# Seeded changes: which check catches which\n\nEach change was written by an independent sub-agent that saw only the property text and a scratch worktree.\n`suite` = existing test suite with the change; `demo` = the agent\'s demonstration with / without the change; `check` = exit code of `bin/symgo check <property> --tier quick` with the change applied to /repo (1 = VIOLATION).\n\n| seed | property | suite | demo with/without | check | caught by |\n|---|---|---|---|---|---|\n')
        for m in rows:
            c=m['caught_by'][0] if m.get('caught_by') else m.get('note','')
            c=re.sub(r'site=\S+','',c).replace('|','/')[:150]
            if 'seed' not in m: continue
            f.write(f"| {m['seed']} | {m['property']} | {m['confirmed']['existing_suite_with_change']} | {m['confirmed']['demo_with_change']}/{m['confirmed']['demo_without_change']} | {m['check_exit']} | {c} |\n")
