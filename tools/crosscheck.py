#!/usr/bin/env python3
"""Cross-solver diff: replay a symgo SMT transcript (written with `symgo run -transcript f.smt2`)
through z3 4.8.12, z3-new 5.1.0 and cvc5 and compare the sequence of check-sat answers.
usage: crosscheck.py transcript.smt2 [max_queries]"""
import subprocess, sys, re, time
path=sys.argv[1]
lines=[l for l in open(path) if not l.startswith('(get-value')]
nq=sum(1 for l in lines if l.startswith('(check-sat'))
text=''.join(lines)
def run(cmd, txt):
    t=time.time()
    try:
        r=subprocess.run(cmd,input=txt,capture_output=True,text=True,timeout=3600)
    except subprocess.TimeoutExpired:
        return None, 3600
    ans=[l.strip() for l in r.stdout.split('\n') if l.strip() in ('sat','unsat','unknown') or l.strip().startswith('(error')]
    return ans, time.time()-t
res={}
res['z3-4.8.12'],t1=run(['z3','-in'],text)
res['z3-5.1.0'],t2=run(['z3-new','-in'],text)
# cvc5: needs a logic and does not know fp.to_ieee_bv / z3 options
ctext=re.sub(r'\(set-option :timeout \d+\)','',text)
ctext='(set-logic ALL)\n'+ctext.replace('(reset)','(reset)\n(set-logic ALL)')
if 'fp.to_ieee_bv' in ctext:
    res['cvc5']=None; t3=0
else:
    res['cvc5'],t3=run(['cvc5','--incremental','--produce-models'],ctext)
base=res['z3-4.8.12']
print(f"queries={nq} z3-4.8.12: {len(base or [])} answers in {t1:.1f}s; z3-5.1.0 in {t2:.1f}s; cvc5 in {t3:.1f}s")
bad=0
for name,ans in res.items():
    if ans is None:
        print(name,'skipped (fp.to_ieee_bv is z3-specific) or timed out'); continue
    if any(a.startswith('(error') for a in ans):
        print(name,'ERROR lines:',[a for a in ans if a.startswith('(error')][:3]); bad+=1; continue
    if len(ans)!=len(base):
        print(name,'answer count differs',len(ans),len(base)); bad+=1; continue
    diff=[i for i,(a,b) in enumerate(zip(ans,base)) if a!=b and 'unknown' not in (a,b)]
    print(name,'disagreements:',len(diff), 'unknown:',sum(1 for a in ans if a=='unknown'))
    bad+=len(diff)
sys.exit(1 if bad else 0)
