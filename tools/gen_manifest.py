#!/usr/bin/env python3
"""Generate /verif/MANIFEST.json from checks.json (registry) + properties_meta.json."""
import json, os
root = os.path.dirname(os.path.dirname(os.path.abspath(__file__)))
reg = json.load(open(os.path.join(root, 'checks.json')))
meta = json.load(open(os.path.join(root, 'properties_meta.json')))
checks = []
claimed = sorted(reg['properties'].keys())
for pid in claimed:
    p = reg['properties'][pid]
    m = meta['claimed'].get(pid, {})
    c = {
        "property_id": pid,
        "quick_cmd": f"bin/symgo check {pid} --tier quick",
        "thorough_cmd": f"bin/symgo check {pid} --tier thorough",
        "evidence_file": f"evidence/{pid}.json",
        "replay_cmd_template": "bin/symgo replay {path}",
        "engine": "symgo",
        "level_claimed": {
            "category": p.get("level", "model_checking"),
            "text": m.get("level_text", ""),
            "design_ref": m.get("design_ref", "DESIGN.md §6 " + pid),
        },
        "level_note": m.get("level_note", ""),
        "technique": m.get("technique", "bounded symbolic execution of the real go/ssa code; every assertion discharged by an SMT solver (z3) over all inputs within the bound; counterexamples replayed natively"),
    }
    checks.append(c)
na = [{"property_id": k, "reason": v} for k, v in sorted(meta['not_applicable'].items()) if k not in claimed]
man = {
    "version": 1,
    "setup_cmd": "cd engine && GOFLAGS=-mod=mod GOPROXY=off GOSUMDB=off GOTOOLCHAIN=local go build -o ../bin/symgo .",
    "hooks": {
        "guard": "verif",
        "enable": "harness files carry //go:build verif and are injected from /verif/harness with packages.Config.Overlay / go test -overlay (-tags verif); /repo itself contains no hook code",
        "baseline_off_cmd": "cd /repo && M=$(mktemp -d) && cp go.mod go.sum $M/ && GOFLAGS=-mod=mod GOPROXY=off GOSUMDB=off GOTOOLCHAIN=local go test -modfile=$M/go.mod -json -vet=off -count=1 -timeout 25m ./...; rc=$?; rm -rf $M; exit $rc",
        "source_commits": meta.get("source_commits", []),
        "add_only": True,
    },
    "engines": [{
        "name": "symgo",
        "path": "engine/",
        "serves_properties": claimed,
        "kind_free_text": "purpose-built symbolic interpreter for go/ssa (x/tools v0.29.0): executes the real functions of /repo with symbolic inputs, forks on feasible branches only, discharges assertions with z3 (check-sat-assuming over the path condition), replays models natively via go test -overlay",
    }],
    "checks": checks,
    "notes": meta.get("notes", ""),
    "not_applicable": na,
}
json.dump(man, open(os.path.join(root, 'MANIFEST.json'), 'w'), indent=1)
print("MANIFEST.json:", len(checks), "checks,", len(na), "not applicable")
