#!/bin/bash
# seedcheck.sh <property> <dir with patch.diff + demo_test.go> [tier]
# 1. confirms the seeded change in a scratch worktree of /repo: it compiles, the existing suite passes
#    with it, the demonstration fails with it and passes without it;
# 2. applies it to /repo, runs the property's check, undoes it straight afterwards.
# Prints one summary line: SEED <prop> <dir> suite=<ok|FAIL> demo_with=<fail|PASS> demo_without=<pass|FAIL> check_exit=<n>
set -u
PROP=$1; DIR=$(realpath $2); TIER=${3:-quick}
export GOFLAGS=-mod=mod GOPROXY=off GOSUMDB=off GOTOOLCHAIN=local
if [ "${SEED_SKIP_CONFIRM:-0}" = "1" ]; then
  # the change was confirmed earlier (suite passes, demonstration fails with / passes without): only re-run the check
  if ! git -C /repo apply --check $DIR/patch.diff 2>/tmp/seed_apply.log; then echo "SEED $PROP $DIR patch-does-not-apply: $(head -2 /tmp/seed_apply.log)"; exit 4; fi
  git -C /repo apply $DIR/patch.diff
  cd /verif && timeout 3600 bin/symgo check $PROP --tier $TIER -no-evidence > /tmp/seed_check.log 2>&1; rc=$?
  git -C /repo checkout -- . ; git -C /repo status --short | grep -v '^??' | head -3
  echo "SEED $PROP $DIR suite=kept demo_with=kept demo_without=kept check_exit=$rc"
  grep -E "^VIOLATION|^INCONCLUSIVE|^KNOWN-FINDING|  harness=|  \(engine-trace\)" /tmp/seed_check.log | cut -c1-300 | head -8
  exit 0
fi
WT=$(mktemp -d /tmp/seedwt-XXXXXX); rmdir $WT
git -C /repo worktree add -q --detach $WT HEAD || exit 3
M=$(mktemp -d); cp $WT/go.mod $WT/go.sum $M/
PKG=$(head -1 $DIR/demo_test.go | sed -n 's#^// place in: *##p' | tr -d ' \r')
[ -z "$PKG" ] && PKG=$(grep -m1 -o 'place in: *[^ ]*' $DIR/demo_test.go | sed 's/place in: *//')
cd $WT
suite=ok; dwith=PASS; dwithout=FAIL
cp $DIR/demo_test.go $WT/$PKG/zz_seed_demo_test.go
# demo without the change
if go test -modfile=$M/go.mod -vet=off -count=1 ./$PKG >/tmp/seed_without.log 2>&1; then dwithout=pass; fi
if ! git apply $DIR/patch.diff 2>/tmp/seed_apply.log; then echo "SEED $PROP $DIR patch-does-not-apply: $(head -2 /tmp/seed_apply.log)"; cd /; git -C /repo worktree remove --force $WT; rm -rf $M; exit 4; fi
# demo with the change (must fail)
if ! timeout 300 go test -modfile=$M/go.mod -vet=off -count=1 ./$PKG >/tmp/seed_with.log 2>&1; then dwith=fail; fi
# existing suite with the change (demo removed)
rm -f $WT/$PKG/zz_seed_demo_test.go
if ! go build -modfile=$M/go.mod ./... >/tmp/seed_build.log 2>&1; then suite=BUILD-FAIL; fi
go test -modfile=$M/go.mod -vet=off -count=1 ./... 2>&1 | grep -v "no test files" | grep -v "^ok" | grep -v "TestSynchronizedTimestamp\|clock_test.go\|examples/clock\|^FAIL$" > /tmp/seed_suite.log
if [ -s /tmp/seed_suite.log ]; then suite=FAIL; fi
cd /
git -C /repo worktree remove --force $WT; rm -rf $M
# run the check against /repo with the change applied
git -C /repo apply $DIR/patch.diff
cd /verif && timeout 3600 bin/symgo check $PROP --tier $TIER -no-evidence > /tmp/seed_check.log 2>&1; rc=$?
git -C /repo checkout -- . ; git -C /repo status --short | grep -v '^??' | head -3
echo "SEED $PROP $DIR suite=$suite demo_with=$dwith demo_without=$dwithout check_exit=$rc"
grep -E "^VIOLATION|^INCONCLUSIVE|^KNOWN-FINDING|  harness=|  \(engine-trace\)" /tmp/seed_check.log | cut -c1-300 | head -8
