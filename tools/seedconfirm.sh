#!/bin/bash
# seedconfirm.sh <dir with patch.diff + demo_test.go>
# Confirmation only (safe to run in parallel): scratch worktree of /repo, the change compiles, the existing suite
# passes with it, the demonstration fails with it and passes without it. Writes <dir>/meta.json {"confirmed":…}.
set -u
DIR=$(realpath $1); ID=$(basename $DIR)
export GOFLAGS=-mod=mod GOPROXY=off GOSUMDB=off GOTOOLCHAIN=local
WT=$(mktemp -d /tmp/seedwt-XXXXXX); rmdir $WT
L=$(mktemp -d /tmp/seedlog-XXXXXX)
git -C /repo worktree add -q --detach $WT HEAD || exit 3
M=$(mktemp -d); cp $WT/go.mod $WT/go.sum $M/
PKG=$(head -1 $DIR/demo_test.go | sed -n 's#^// place in: *##p' | tr -d ' \r')
cd $WT
suite=ok; dwith=PASS; dwithout=FAIL
cp $DIR/demo_test.go $WT/$PKG/zz_seed_demo_test.go
if timeout 600 go test -modfile=$M/go.mod -vet=off -count=1 ./$PKG >$L/without.log 2>&1; then dwithout=pass; fi
if ! git apply $DIR/patch.diff 2>$L/apply.log; then echo "SEEDCONFIRM $ID patch-does-not-apply: $(head -2 $L/apply.log)"; cd /; git -C /repo worktree remove --force $WT; rm -rf $M $L; exit 4; fi
if ! timeout 600 go test -modfile=$M/go.mod -vet=off -count=1 ./$PKG >$L/with.log 2>&1; then dwith=fail; fi
rm -f $WT/$PKG/zz_seed_demo_test.go
if ! go build -modfile=$M/go.mod ./... >$L/build.log 2>&1; then suite=BUILD-FAIL; fi
go test -modfile=$M/go.mod -vet=off -count=1 ./... 2>&1 | grep -v "no test files" | grep -v "^ok" | grep -v "TestSynchronizedTimestamp\|clock_test.go\|examples/clock\|^FAIL$" > $L/suite.log
if [ -s $L/suite.log ]; then
  # one retry: the suite is timing-sensitive under load
  go test -modfile=$M/go.mod -vet=off -count=1 ./... 2>&1 | grep -v "no test files" | grep -v "^ok" | grep -v "TestSynchronizedTimestamp\|clock_test.go\|examples/clock\|^FAIL$" > $L/suite.log
  if [ -s $L/suite.log ]; then suite=FAIL; cp $L/suite.log /tmp/seedconfirm-$ID-suite.log; fi
fi
[ "$dwithout" = FAIL ] && cp $L/without.log /tmp/seedconfirm-$ID-without.log
[ "$dwith" = PASS ] && cp $L/with.log /tmp/seedconfirm-$ID-with.log
cd /
git -C /repo worktree remove --force $WT; rm -rf $M $L
python3 - "$DIR" "$suite" "$dwith" "$dwithout" <<'PY'
import json,sys,os
d,suite,dw,dwo=sys.argv[1:]
p=d+'/meta.json'
m=json.load(open(p)) if os.path.exists(p) else {}
m['confirmed']={"existing_suite_with_change":suite,"demo_with_change":dw,"demo_without_change":dwo}
json.dump(m,open(p,'w'),indent=1)
PY
echo "SEEDCONFIRM $ID suite=$suite demo_with=$dwith demo_without=$dwithout"
