//go:build verif

package value

import (
	"bytes"
	"io"

	"github.com/lugu/qiloop/internal/zzverif/sym"
)

// c07NewValue: arbitrary bytes into the dynamic-value decoder: value or error, never a panic, no
// allocation or loop bounded only by a length field of the input.
func c07NewValue(maxN int) {
	n := sym.Choose("n", maxN+1)
	in := sym.Bytes("in", n)
	sym.Bounded(16<<20+64*n, n+8, func() {
		v, err := NewValue(bytes.NewReader(in))
		// the same bytes a second time in the same process: same outcome (nothing remembered from the
		// first attempt may make the second one crash)
		v2, err2 := NewValue(bytes.NewReader(in))
		sym.Assert((err == nil) == (err2 == nil), "second-decode-of-the-same-bytes-differs")
		if err == nil {
			sym.Assert(v != nil && v2 != nil, "nil-value-without-error")
			sym.Reach("decoded")
		} else {
			sym.Reach("rejected")
		}
	})
}

func C07NewValue()     { c07NewValue(12) }
func C07NewValueDeep() { c07NewValue(16) }

// c08Value: every strict prefix of a valid value encoding is refused.
func c08Value(maxStr int) {
	which := sym.Choose("which", 3)
	var v Value
	label := ""
	switch which {
	case 0:
		kind := sym.Choose("kind", 12) // void (12) has no body: its encoding is the signature only
		v, _ = zzScalar(kind, maxStr)
		label = "truncated-scalar"
	case 1:
		v = c02Lists(2, 0)
		label = "truncated-list"
	default:
		sig, data, _ := zzData(sym.Choose("sig", zzNSigs))
		v = Opaque(sig, data)
		label = "truncated-opaque[" + sig + "]"
	}
	var buf bytes.Buffer
	sym.Assert(v.Write(&buf) == nil, "encode-ok")
	enc := buf.Bytes()
	k := sym.Concrete(sym.Int("cut", 0, len(enc)-1))
	// the truncated input comes from a bytes.Reader, a bytes.Buffer (what stubs and proxies decode
	// from) or a plain stream
	var src io.Reader
	switch sym.Choose("source-kind", 3) {
	case 0:
		src = bytes.NewReader(enc[:k])
	case 1:
		src = bytes.NewBuffer(append([]byte{}, enc[:k]...))
	default:
		src = &zzPlainReader{data: enc[:k]}
	}
	_, err := NewValue(src)
	sym.Assert(err != nil, label)
	sym.Reach("cut-checked")
}

func C08Value()     { c08Value(2) }
func C08ValueDeep() { c08Value(4) }

// C07SignatureText: a dynamic value whose signature text is grammatical but inconsistent (struct
// annotations with more or fewer names than members, taken from the engine's signature catalogue):
// the decoder must answer with a value or an error, not a crash.
func C07SignatureText() {
	// ... and text that is not a signature at all
	sigs := []string{"()<P,a>", "(i)<P,a,b>", "(ii)<P,a>", "[(i)<P,a,b>]", "(i)<P>", "(s)<P,a>", "(", "zz", "[", "{i}", "(i"}
	sig := sigs[sym.Choose("sig", len(sigs))]
	body := sym.Bytes("body", sym.Choose("n", 9))
	in := append(zzStr(sig), body...)
	sym.Bounded(16<<20+64*len(in), len(in)+8, func() {
		_, err := NewValue(bytes.NewReader(in))
		// a second value of the same signature in the same process: same outcome
		_, err2 := NewValue(bytes.NewReader(in))
		sym.Assert((err == nil) == (err2 == nil), "second-decode-of-the-same-bytes-differs")
		if err == nil {
			sym.Reach("decoded")
		} else {
			sym.Reach("rejected")
		}
	})
}

// C08LongList: a list of 70 dynamic values cut anywhere inside its last 8 elements (beyond any
// preallocated part): refused.
func C08LongList() {
	v := zzLongList(70)
	if sym.Bool("nested") {
		v = List([]Value{String("head"), v})
	}
	var buf bytes.Buffer
	sym.Assert(v.Write(&buf) == nil, "encode-ok")
	enc := buf.Bytes()
	k := sym.Concrete(sym.Int("cut", len(enc)-72, len(enc)-1))
	_, err := NewValue(bytes.NewReader(enc[:k]))
	sym.Assert(err != nil, "truncated-long-list")
	sym.Reach("cut-checked")
}

// C07TypedData: typed data for composite signatures (the signature text is concrete, so that all the
// symbolic bytes go to the data): dynamic values nested in tuples, maps and lists — whose inner
// signature and length fields are the input's to choose —, raw data and strings at every level.
func C07TypedData() {
	sigs := []string{"m", "(m)", "{sm}", "[m]", "(sm)", "[(m)]", "{Im}", "(r)", "[r]", "{sr}", "(mm)", "[[m]]", "([s])", "{s[r]}"}
	sig := sigs[sym.Choose("sig", len(sigs))]
	body := sym.Bytes("body", sym.Choose("n", 15))
	in := append(zzStr(sig), body...)
	sym.Bounded(16<<20+64*len(in), len(in)+8, func() {
		_, err := NewValue(bytes.NewReader(in))
		if err == nil {
			sym.Reach("decoded")
		} else {
			sym.Reach("rejected")
		}
	})
}
