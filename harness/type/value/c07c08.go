//go:build verif

package value

import (
	"bytes"
	"io"
	"strconv"
	"strings"

	"github.com/lugu/qiloop/internal/zzverif/sym"
)

// c07NewValue: arbitrary bytes into the dynamic-value decoder: value or error, never a panic, no
// allocation or loop bounded only by a length field of the input.
func c07NewValue(maxN int) {
	n := sym.Choose("n", maxN+1)
	in := sym.Bytes("in", n)
	sym.Bounded(16<<20+64*n, n+8, func() {
		v, err := NewValue(bytes.NewReader(in))
		// the same bytes a second time in the same process: same outcome (nothing remembered from the
		// first attempt may make the second one crash)
		v2, err2 := NewValue(bytes.NewReader(in))
		sym.Assert((err == nil) == (err2 == nil), "second-decode-of-the-same-bytes-differs")
		if err == nil {
			sym.Assert(v != nil && v2 != nil, "nil-value-without-error")
			sym.Reach("decoded")
		} else {
			sym.Reach("rejected")
		}
	})
}

func C07NewValue()     { c07NewValue(12) }
func C07NewValueDeep() { c07NewValue(16) }

// c08Value: every strict prefix of a valid value encoding is refused.
func c08Value(maxStr int) {
	which := sym.Choose("which", 3)
	var v Value
	label := ""
	switch which {
	case 0:
		kind := sym.Choose("kind", 12) // void (12) has no body: its encoding is the signature only
		v, _ = zzScalar(kind, maxStr)
		label = "truncated-scalar"
	case 1:
		v = c02Lists(2, 0)
		label = "truncated-list"
	default:
		sig, data, _ := zzData(sym.Choose("sig", zzNSigs))
		v = Opaque(sig, data)
		label = "truncated-opaque[" + sig + "]"
	}
	var buf bytes.Buffer
	sym.Assert(v.Write(&buf) == nil, "encode-ok")
	enc := buf.Bytes()
	k := sym.Concrete(sym.Int("cut", 0, len(enc)-1))
	// the truncated input comes from a bytes.Reader, a bytes.Buffer (what stubs and proxies decode
	// from) or a plain stream
	var src io.Reader
	switch sym.Choose("source-kind", 3) {
	case 0:
		src = bytes.NewReader(enc[:k])
	case 1:
		src = bytes.NewBuffer(append([]byte{}, enc[:k]...))
	default:
		src = &zzPlainReader{data: enc[:k]}
	}
	_, err := NewValue(src)
	sym.Assert(err != nil, label)
	sym.Reach("cut-checked")
}

func C08Value()     { c08Value(2) }
func C08ValueDeep() { c08Value(4) }

// C07SignatureText: a dynamic value whose signature text is grammatical but inconsistent (struct
// annotations with more or fewer names than members, taken from the engine's signature catalogue):
// the decoder must answer with a value or an error, not a crash.
func C07SignatureText() {
	// ... and text that is not a signature at all
	sigs := []string{"()<P,a>", "(i)<P,a,b>", "(ii)<P,a>", "[(i)<P,a,b>]", "(i)<P>", "(s)<P,a>", "(", "zz", "[", "{i}", "(i"}
	sig := sigs[sym.Choose("sig", len(sigs))]
	body := sym.Bytes("body", sym.Choose("n", 9))
	in := append(zzStr(sig), body...)
	sym.Bounded(16<<20+64*len(in), len(in)+8, func() {
		_, err := NewValue(bytes.NewReader(in))
		// a second value of the same signature in the same process: same outcome
		_, err2 := NewValue(bytes.NewReader(in))
		sym.Assert((err == nil) == (err2 == nil), "second-decode-of-the-same-bytes-differs")
		if err == nil {
			sym.Reach("decoded")
		} else {
			sym.Reach("rejected")
		}
	})
}

// C08LongList: a list of 70 dynamic values cut anywhere inside its last 8 elements (beyond any
// preallocated part): refused.
func C08LongList() {
	v := zzLongList(70)
	if sym.Bool("nested") {
		v = List([]Value{String("head"), v})
	}
	var buf bytes.Buffer
	sym.Assert(v.Write(&buf) == nil, "encode-ok")
	enc := buf.Bytes()
	k := sym.Concrete(sym.Int("cut", len(enc)-72, len(enc)-1))
	_, err := NewValue(bytes.NewReader(enc[:k]))
	sym.Assert(err != nil, "truncated-long-list")
	sym.Reach("cut-checked")
}

// C07TypedData: typed data for composite signatures (the signature text is concrete, so that all the
// symbolic bytes go to the data): dynamic values nested in tuples, maps and lists — whose inner
// signature and length fields are the input's to choose —, raw data and strings at every level.
func C07TypedData() {
	sigs := []string{"m", "(m)", "{sm}", "[m]", "(sm)", "[(m)]", "{Im}", "(r)", "[r]", "{sr}", "(mm)", "[[m]]", "([s])", "{s[r]}"}
	sig := sigs[sym.Choose("sig", len(sigs))]
	body := sym.Bytes("body", sym.Choose("n", 15))
	in := append(zzStr(sig), body...)
	sym.Bounded(16<<20+64*len(in), len(in)+8, func() {
		_, err := NewValue(bytes.NewReader(in))
		if err == nil {
			sym.Reach("decoded")
		} else {
			sym.Reach("rejected")
		}
	})
}

// C08WideTuple: a dynamic value whose signature is a tuple / structure of many adjacent fixed-size
// members (40 doubles = 320 bytes; 70 int32 = 280 bytes; 300 bytes then a string), cut at every
// position: refused. (Runs of constant-size members are what a reader is tempted to gather.)
func C08WideTuple() {
	var sig string
	var data []byte
	switch sym.Choose("shape", 3) {
	case 0:
		sig = "(" + strings.Repeat("d", 40) + ")"
		data = make([]byte, 320)
	case 1:
		sig = "(" + strings.Repeat("i", 70) + ")<Wide"
		for i := 0; i < 70; i++ {
			sig += ",m" + strconv.Itoa(i)
		}
		sig += ">"
		data = make([]byte, 280)
	default:
		sig = "(" + strings.Repeat("l", 37) + "Cs)"
		data = append(make([]byte, 37*8+1), zzStr(sym.Str("tail", 2))...)
	}
	data[0], data[len(data)/2], data[len(data)-1] = sym.U8("first"), sym.U8("middle"), sym.U8("last")
	v := Opaque(sig, data)
	var buf bytes.Buffer
	sym.Assert(v.Write(&buf) == nil, "wide/encode-ok")
	enc := buf.Bytes()
	full, err := NewValue(bytes.NewReader(enc))
	sym.Assert(err == nil && full != nil, "wide/full-decodes")
	k := sym.Concrete(sym.Int("cut", 0, len(enc)-1))
	var src io.Reader
	if sym.Choose("source-kind", 2) == 0 {
		src = bytes.NewReader(enc[:k])
	} else {
		src = &zzPlainReader{data: enc[:k]}
	}
	_, err = NewValue(src)
	sym.Assert(err != nil, "truncated-wide-tuple")
	sym.Reach("wide-cut-checked")
}

// C08AfterOtherSignature: the decoder has first decoded a value of one signature; a truncated value of a
// SIMILAR signature (same structure names, a nested structure of the same name with other members) is
// still refused at every cut, and the full value is still read completely. Both orders.
func C08AfterOtherSignature() {
	sigA := "((i)<Inner,a>s)<Outer,in,name>"
	sigB := "((il)<Inner,a,b>s)<Outer,in,name>"
	dataA := zzCat(zzLE32(sym.U32("a")), zzStr(sym.Str("nameA", 1)))
	dataB := zzCat(zzLE32(sym.U32("a2")), zzLE64(sym.U64("b")), zzStr(sym.Str("nameB", 1)))
	first, second := Opaque(sigA, dataA), Opaque(sigB, dataB)
	if sym.Choose("order", 2) == 1 {
		first, second = second, first
	}
	var b1, b2 bytes.Buffer
	sym.Assert(first.Write(&b1) == nil, "history/encode-first")
	sym.Assert(second.Write(&b2) == nil, "history/encode-second")
	_, err := NewValue(bytes.NewReader(b1.Bytes()))
	sym.Assert(err == nil, "history/first-decodes")
	enc := b2.Bytes()
	r := bytes.NewReader(append(append([]byte{}, enc...), 0x5A))
	back, err := NewValue(r)
	sym.Assert(err == nil, "history/second-decodes")
	if err == nil {
		sym.Assert(r.Len() == 1, "history/second-consumed-exactly")
		var again bytes.Buffer
		back.Write(&again)
		sym.Assert(sym.EqBytes(again.Bytes(), enc), "history/second-reencodes-identically")
	}
	k := sym.Concrete(sym.Int("cut", 0, len(enc)-1))
	_, err = NewValue(bytes.NewReader(enc[:k]))
	sym.Assert(err != nil, "truncated-after-similar-signature")
	sym.Reach("history-cut-checked")
}
