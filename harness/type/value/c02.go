//go:build verif

package value

import (
	"bytes"
	"io"
	"strconv"

	"github.com/lugu/qiloop/internal/zzverif/sym"
)

func zzLE32(x uint32) []byte { return []byte{byte(x), byte(x >> 8), byte(x >> 16), byte(x >> 24)} }
func zzLE64(x uint64) []byte {
	return []byte{byte(x), byte(x >> 8), byte(x >> 16), byte(x >> 24), byte(x >> 32), byte(x >> 40), byte(x >> 48), byte(x >> 56)}
}
func zzStr(s string) []byte { return append(zzLE32(uint32(len(s))), []byte(s)...) }
func zzCat(parts ...[]byte) []byte {
	var out []byte
	for _, p := range parts {
		out = append(out, p...)
	}
	return out
}

// zzPlainReader: an io.Reader and nothing else (no ReadByte, no Len): what a connection looks like.
type zzPlainReader struct {
	data []byte
	pos  int
}

func (r *zzPlainReader) Read(p []byte) (int, error) {
	if r.pos >= len(r.data) {
		return 0, io.EOF
	}
	n := copy(p, r.data[r.pos:])
	r.pos += n
	return n, nil
}

// zzRoundTrip: v's own encoding decodes (with trailing garbage present) consuming exactly the
// encoder's bytes, to a value of the same signature whose re-encoding is byte-identical.
func zzRoundTrip(v Value, label string) Value {
	var buf bytes.Buffer
	sym.Assert(v.Write(&buf) == nil, label+"/encode-ok")
	enc := append([]byte{}, buf.Bytes()...)
	// the source is a buffer (bytes.Reader) or a plain stream that only implements Read (a socket)
	wire := append(append([]byte{}, enc...), 0xA5, 0x5A)
	var back Value
	var err error
	left := 0
	switch sym.Choose("source-kind", 3) {
	case 0:
		r := bytes.NewReader(wire)
		back, err = NewValue(r)
		left = r.Len()
	case 1:
		r := &zzPlainReader{data: wire}
		back, err = NewValue(r)
		left = len(r.data) - r.pos
	default:
		// a receive buffer that is overwritten by the next message while the decoded value is still held
		store := append([]byte{}, wire...)
		b := bytes.NewBuffer(store)
		back, err = NewValue(b)
		left = b.Len()
		for i := range store {
			store[i] = 0x5C
		}
	}
	sym.Assert(err == nil, label+"/decode-ok")
	if err != nil {
		return nil
	}
	sym.Assert(left == 2, label+"/consumed-exactly")
	sym.Assert(back.Signature() == v.Signature(), label+"/same-signature")
	var buf2 bytes.Buffer
	sym.Assert(back.Write(&buf2) == nil, label+"/reencode-ok")
	sym.Assert(sym.EqBytes(buf2.Bytes(), enc), label+"/reencode-identical")
	return back
}

func zzScalar(kind int, maxStr int) (Value, []byte) {
	switch kind {
	case 0:
		b := sym.Bool("bool")
		x := byte(0)
		if b {
			x = 1
		}
		return Bool(b), zzCat(zzStr("b"), []byte{x})
	case 1:
		x := sym.U8("u8")
		return Uint8(x), zzCat(zzStr("C"), []byte{x})
	case 2:
		x := sym.I8("i8")
		return Int8(x), zzCat(zzStr("c"), []byte{byte(x)})
	case 3:
		x := sym.U16("u16")
		return Uint16(x), zzCat(zzStr("W"), []byte{byte(x), byte(x >> 8)})
	case 4:
		x := sym.I16("i16")
		return Int16(x), zzCat(zzStr("w"), []byte{byte(x), byte(uint16(x) >> 8)})
	case 5:
		x := sym.U32("u32")
		return Uint(x), zzCat(zzStr("I"), zzLE32(x))
	case 6:
		x := sym.I32("i32")
		return Int(x), zzCat(zzStr("i"), zzLE32(uint32(x)))
	case 7:
		x := sym.U64("u64")
		return Ulong(x), zzCat(zzStr("L"), zzLE64(x))
	case 8:
		x := sym.I64("i64")
		return Long(x), zzCat(zzStr("l"), zzLE64(uint64(x)))
	case 9:
		x := sym.F32("f32")
		return Float(zzF32(x)), zzCat(zzStr("f"), zzLE32(x))
	case 10:
		s := sym.Str("str", sym.Choose("strlen", maxStr+1))
		return String(s), zzCat(zzStr("s"), zzStr(s))
	case 11:
		b := sym.Bytes("raw", sym.Choose("rawlen", maxStr+1))
		return Raw(b), zzCat(zzStr("r"), zzLE32(uint32(len(b))), b)
	default:
		return Void(), zzStr("v")
	}
}

// c02Scalars: every scalar/string/raw/void constructor: the encoding is the documented one
// (signature string, then the little-endian body) and it round-trips.
func c02Scalars(maxStr int) {
	kind := sym.Choose("kind", 13)
	v, spec := zzScalar(kind, maxStr)
	var buf bytes.Buffer
	sym.Assert(v.Write(&buf) == nil, "scalar/encode-ok")
	sym.Assert(sym.EqBytes(buf.Bytes(), spec), "scalar/documented-layout")
	back := zzRoundTrip(v, "scalar")
	if back != nil && kind != 11 && kind != 9 { // raw is a slice (not comparable); float: NaN != NaN, bits are compared by reencode-identical
		sym.Assert(back == v, "scalar/equal-value")
	}
	sym.Reach("scalars-done")
}

func C02Scalars()     { c02Scalars(2) }
func C02ScalarsDeep() { c02Scalars(5) }

// c02Lists: lists of values (nested one level), each element any scalar kind.
func c02Lists(maxLen, depth int) Value {
	n := sym.Choose("listlen", maxLen+1)
	l := make([]Value, n)
	for i := range l {
		if depth > 0 && sym.Bool("nest") {
			l[i] = c02Lists(1, depth-1)
		} else {
			l[i], _ = zzScalar(sym.Choose("kind", 13), 1)
		}
	}
	return List(l)
}

func C02Lists() {
	v := c02Lists(2, 1)
	zzRoundTrip(v, "list")
	sym.Reach("lists-done")
}

func C02ListsDeep() {
	v := c02Lists(3, 2)
	zzRoundTrip(v, "list")
	sym.Reach("lists-done")
}

// zzData builds well-formed typed data for signature index k (leaves symbolic), and says whether
// the signature nests a dynamic value ("m") below a container/struct.
func zzData(k int) (sig string, data []byte, nestsValue bool) {
	inner := func() []byte { // a dynamic value: signature + body, of any scalar signature
		sigs := []string{"i", "s", "c", "C", "w", "W", "I", "l", "L", "f", "d", "b"}
		widths := []int{4, 0, 1, 1, 2, 2, 4, 8, 8, 4, 8, 1}
		j := sym.Choose("inner-signature", len(sigs)+3)
		switch j {
		case len(sigs):
			// a value of a value: the dynamic member's own signature is "m"
			return zzCat(zzStr("m"), zzStr("I"), sym.Bytes("inner-inner-body", 4))
		case len(sigs) + 1:
			// a value of a value of a string
			return zzCat(zzStr("m"), zzStr("m"), zzStr("s"), zzStr(sym.Str("iistr", 1)))
		case len(sigs) + 2:
			// a composite dynamic member
			return zzCat(zzStr("[s]"), zzLE32(1), zzStr(sym.Str("ilist", 1)))
		}
		if j == 1 {
			return zzCat(zzStr("s"), zzStr(sym.Str("istr", sym.Choose("istrlen", 2))))
		}
		body := sym.Bytes("inner-body", widths[j])
		if sigs[j] == "b" {
			body[0] &= 1
		}
		return zzCat(zzStr(sigs[j]), body)
	}
	count := func(max int) int { return sym.Choose("count", max+1) }
	switch k {
	case 0:
		return "d", zzLE64(sym.U64("f64")), false
	case 1:
		n := count(2)
		d := zzLE32(uint32(n))
		for i := 0; i < n; i++ {
			d = append(d, zzLE32(sym.U32("elem"))...)
		}
		return "[i]", d, false
	case 2:
		n := count(1)
		d := zzLE32(uint32(n))
		for i := 0; i < n; i++ {
			d = zzCat(d, zzStr(sym.Str("key", sym.Choose("keylen", 2))), zzLE32(sym.U32("val")))
		}
		return "{sI}", d, false
	case 3:
		return "(sb)<P,a,b>", zzCat(zzStr(sym.Str("a", sym.Choose("alen", 3))), []byte{sym.U8("b")}), false
	case 4:
		n := count(2)
		d := zzLE32(uint32(n))
		for i := 0; i < n; i++ {
			d = zzCat(d, zzStr(sym.Str("e", sym.Choose("elen", 2))))
		}
		return "[s]", d, false
	case 5:
		return "(iI)", zzCat(zzLE32(sym.U32("x")), zzLE32(sym.U32("y"))), false
	case 6:
		n := count(1)
		d := zzLE32(uint32(n))
		for i := 0; i < n; i++ {
			m := count(1)
			d = append(d, zzLE32(uint32(m))...)
			for j := 0; j < m; j++ {
				d = append(d, zzLE32(sym.U32("elem"))...)
			}
		}
		return "[[i]]", d, false
	case 7:
		return "(cCwW)", []byte{sym.U8("c"), sym.U8("C"), sym.U8("w0"), sym.U8("w1"), sym.U8("W0"), sym.U8("W1")}, false
	case 8:
		// object reference with an empty meta-object: 3 empty maps, empty description, service, object
		return "o", zzCat(zzLE32(0), zzLE32(0), zzLE32(0), zzLE32(0), zzLE32(sym.U32("svc")), zzLE32(sym.U32("obj"))), false
	case 9:
		return "(m)<P,a>", inner(), true
	case 10:
		n := count(1)
		d := zzLE32(uint32(n))
		for i := 0; i < n; i++ {
			d = zzCat(d, zzStr(sym.Str("key", sym.Choose("keylen", 2))), inner())
		}
		return "{sm}", d, n > 0
	case 11:
		n := count(1)
		d := zzLE32(uint32(n))
		for i := 0; i < n; i++ {
			d = zzCat(d, inner())
		}
		return "([m])", d, n > 0
	case 12:
		// template-style struct name (C++ style), accepted by the grammar
		return "(ff)<Pair<float>,value,confidence>", zzCat(zzLE32(sym.U32("v")), zzLE32(sym.U32("c"))), false
	case 13:
		// zero-sized elements: the encoding is the count alone
		return "[v]", zzLE32(uint32(count(3))), false
	case 14:
		return "[()]", zzLE32(uint32(count(2))), false
	case 16:
		// an object reference below the top level (struct member)
		return "(oI)<Handle,obj,flags>", zzCat(zzObjRef(), zzLE32(sym.U32("flags"))), false
	case 17:
		n := count(2)
		d := zzLE32(uint32(n))
		for i := 0; i < n; i++ {
			d = zzCat(d, zzObjRef())
		}
		return "[o]", d, false
	case 18:
		return "{so}", zzCat(zzLE32(1), zzStr(sym.Str("key", 1)), zzObjRef()), false
	case 19:
		// the object-reference STRUCT spelled out (what "o" is read as): a struct value like any other,
		// it keeps its own signature
		return ObjectReferenceSignature, zzObjRef(), false
	default:
		n := count(1)
		d := zzLE32(uint32(n))
		for i := 0; i < n; i++ {
			d = zzCat(d, zzLE32(sym.U32("k")))
		}
		return "{Iv}", d, false
	}
}

// zzObjRef: an object reference with an empty meta-object (3 empty maps, empty description), then
// symbolic service and object ids.
func zzObjRef() []byte {
	return zzCat(zzLE32(0), zzLE32(0), zzLE32(0), zzLE32(0), zzLE32(sym.U32("svc")), zzLE32(sym.U32("obj")))
}

const zzNSigs = 20

// C02Opaque: values of composite signatures carried opaquely round-trip byte for byte.
func C02Opaque() {
	k := sym.Choose("sig", zzNSigs)
	sig, data, nests := zzData(k)
	v := Opaque(sig, data)
	// one label per signature (and per "a nested dynamic value is present"): a finding is keyed by the
	// signature class that fails, any other signature failing is a different violation
	label := "opaque[" + sig + "]"
	if nests {
		label += "+value"
	}
	zzRoundTrip(v, label)
	sym.Reach("opaque-done")
}

// C02ListOfOpaque: opaque values nested inside a list of values.
func C02ListOfOpaque() {
	k := sym.Choose("sig", 9)
	sig, data, _ := zzData(k)
	v := List([]Value{Opaque(sig, data), Int(sym.I32("tail"))})
	zzRoundTrip(v, "list-of-opaque["+sig+"]")
	sym.Reach("list-of-opaque-done")
}

// C02TwoOpaques: two opaque values of struct/tuple signatures alive at the same time (inside one
// list, and from two consecutive decodes): decoding the second must not disturb the first.
func C02TwoOpaques() {
	k1 := []int{1, 2, 3, 5}[sym.Choose("sig1", 4)]
	k2 := []int{1, 2, 3, 5}[sym.Choose("sig2", 4)]
	sig1, data1, _ := zzData(k1)
	sig2, data2, _ := zzData(k2)
	v := List([]Value{Opaque(sig1, data1), Opaque(sig2, data2)})
	zzRoundTrip(v, "two-opaques["+sig1+","+sig2+"]")
	// consecutive decodes
	var b1, b2 bytes.Buffer
	Opaque(sig1, data1).Write(&b1)
	Opaque(sig2, data2).Write(&b2)
	enc1 := append([]byte{}, b1.Bytes()...)
	first, err := NewValue(bytes.NewReader(enc1))
	sym.Assert(err == nil, "consecutive/first-decodes")
	_, err = NewValue(bytes.NewReader(b2.Bytes()))
	sym.Assert(err == nil, "consecutive/second-decodes")
	if first != nil {
		var again bytes.Buffer
		first.Write(&again)
		sym.Assert(sym.EqBytes(again.Bytes(), enc1), "consecutive/first-value-changed-by-second-decode")
	}
	sym.Reach("two-opaques-done")
}

// C02LargeRaw: a raw buffer of 70000 bytes (first, middle, last byte symbolic), alone and as the first
// element of a list of values, followed by more bytes: it decodes to an equal value and the decoder
// stops exactly at its end.
func C02LargeRaw() {
	sym.SetMaxMaterialise(1 << 18)
	const n = 70000
	b := make([]byte, n)
	b[0], b[n/2], b[n-1] = sym.U8("first"), sym.U8("middle"), sym.U8("last")
	var v Value = Raw(b)
	inList := sym.Bool("inside-a-list")
	if inList {
		v = List([]Value{Raw(b), Int(sym.I32("next"))})
	}
	var buf bytes.Buffer
	sym.Assert(v.Write(&buf) == nil, "large-raw/encode-ok")
	encLen := buf.Len()
	wire := append(append([]byte{}, buf.Bytes()...), 0xA5, 0x5A, 0x11)
	var back Value
	var err error
	left := 0
	if sym.Choose("source-kind", 2) == 0 {
		r := bytes.NewReader(wire)
		back, err = NewValue(r)
		left = r.Len()
	} else {
		r := &zzPlainReader{data: wire}
		back, err = NewValue(r)
		left = len(r.data) - r.pos
	}
	sym.Assert(err == nil, "large-raw/decode-ok")
	if err != nil {
		return
	}
	sym.Assert(left == 3, "large-raw/consumed-exactly")
	var buf2 bytes.Buffer
	sym.Assert(back.Write(&buf2) == nil, "large-raw/reencode-ok")
	sym.Assert(buf2.Len() == encLen, "large-raw/reencoded-length")
	if buf2.Len() == encLen {
		e1, e2 := wire[:encLen], buf2.Bytes()
		// compare the symbolic positions and the tail (the rest is constant zero bytes)
		off := encLen - n
		if inList {
			off = encLen - n - 8 // the trailing Int value: signature "i" (5 bytes) + 4 bytes... computed below
		}
		_ = off
		ok := sym.EqBytes(e2[encLen-16:], e1[encLen-16:])
		sym.Assert(ok, "large-raw/reencode-tail-identical")
		sym.Assert(sym.EqBytes(e2[:32], e1[:32]), "large-raw/reencode-head-identical")
	}
	sym.Reach("large-raw-done")
}

// zzLongList: a list of n dynamic values (ints; first, middle and last symbolic).
func zzLongList(n int) Value {
	els := make([]Value, n)
	for i := range els {
		els[i] = Int(int32(i))
	}
	els[0], els[n/2], els[n-1] = Int(sym.I32("first")), Int(sym.I32("middle")), Int(sym.I32("last"))
	return List(els)
}

// C02StringLengths: EVERY string length 0..200 (one solver-enumerated value, first and last byte
// symbolic), alone and followed by another value in a list: documented layout, exact consumption,
// identical re-encoding.
func C02StringLengths() {
	n := sym.Concrete(sym.Int("string-length", 0, 200))
	b := make([]byte, n)
	for i := range b {
		b[i] = byte('a' + i%26)
	}
	if n > 0 {
		b[0], b[n-1] = sym.U8("first"), sym.U8("last")
	}
	s := string(b)
	var v Value = String(s)
	var buf bytes.Buffer
	sym.Assert(v.Write(&buf) == nil, "string-lengths/encode-ok")
	sym.Assert(buf.Len() == 4+1+4+n, "string-lengths/encoded-length")
	sym.Assert(sym.EqBytes(buf.Bytes(), zzCat(zzStr("s"), zzStr(s))), "string-lengths/documented-layout")
	zzRoundTrip(List([]Value{String(s), Int(sym.I32("next"))}), "string-lengths")
	sym.Reach("string-lengths-done")
}

// C02WideNested: an opaque map whose entry is a dynamic value holding a WIDE list of dynamic values
// (70 of them), and an opaque struct holding such a map: counting limits on nested values must count
// depth, not breadth.
func C02WideNested() {
	wide := zzCat(zzStr("[m]"), zzLE32(70))
	for i := 0; i < 70; i++ {
		wide = zzCat(wide, zzStr("i"), zzLE32(uint32(i)))
	}
	last := sym.U32("last-element")
	wide = append(wide[:len(wide)-4], zzLE32(last)...)
	var v Value
	if sym.Bool("inside-a-struct") {
		v = Opaque("(m)<Wrap,v>", zzCat(zzStr("{sm}"), zzLE32(1), zzStr("k"), wide))
	} else {
		v = Opaque("{sm}", zzCat(zzLE32(1), zzStr("k"), wide))
	}
	zzRoundTrip(v, "wide-nested")
	sym.Reach("wide-nested-done")
}

// C02LongList: long lists of dynamic values (lengths around 32, 64 and 100: preallocation, depth and
// chunking limits live there), also nested as the last element of another list: they round-trip.
func C02LongList() {
	n := []int{31, 32, 33, 63, 64, 65, 100}[sym.Choose("list-length", 7)]
	v := zzLongList(n)
	if sym.Bool("nested") {
		v = List([]Value{String("head"), v})
	}
	zzRoundTrip(v, "long-list")
	sym.Reach("long-list-done")
}

// zzFragReader delivers its data k bytes at a time; with eofWithData the last fragment comes together
// with io.EOF (both are what the io.Reader contract allows a stream to do).
type zzFragReader struct {
	data        []byte
	k           int
	eofWithData bool
}

func (f *zzFragReader) Read(p []byte) (int, error) {
	if len(f.data) == 0 {
		return 0, io.EOF
	}
	n := f.k
	if n > len(p) {
		n = len(p)
	}
	if n > len(f.data) {
		n = len(f.data)
	}
	copy(p, f.data[:n])
	f.data = f.data[n:]
	if len(f.data) == 0 && f.eofWithData {
		return n, io.EOF
	}
	return n, nil
}

// C02Fragmented: the value crosses a stream that fragments it (1, 2 or 3 bytes per Read); the stream
// either goes on after the value (trailing bytes must stay unread) or ends exactly with it, the last
// fragment arriving together with io.EOF: every scalar kind, a list and an opaque struct decode to
// the same value and re-encode identically.
func C02Fragmented() {
	var v Value
	kind := sym.Choose("kind", 15)
	switch kind {
	case 13:
		v = List([]Value{Int(sym.I32("e0")), String(sym.Str("e1", 2)), Long(sym.I64("e2"))})
	case 14:
		v = Opaque("(iI)", zzCat(zzLE32(sym.U32("o0")), zzLE32(sym.U32("o1"))))
	default:
		v, _ = zzScalar(kind, 2)
	}
	var buf bytes.Buffer
	sym.Assert(v.Write(&buf) == nil, "fragmented/encode-ok")
	enc := append([]byte{}, buf.Bytes()...)
	r := &zzFragReader{k: 1 + sym.Choose("fragment-size", 3), eofWithData: sym.Bool("stream-ends-with-the-value")}
	if r.eofWithData {
		r.data = append([]byte{}, enc...)
	} else {
		r.data = append(append([]byte{}, enc...), 0xA5, 0x5A, 0xA5)
	}
	back, err := NewValue(r)
	sym.Assert(err == nil, "fragmented/decode-ok")
	if err != nil {
		return
	}
	if r.eofWithData {
		sym.Assert(len(r.data) == 0, "fragmented/consumed-exactly")
	} else {
		sym.Assert(len(r.data) == 3, "fragmented/consumed-exactly")
	}
	sym.Assert(back.Signature() == v.Signature(), "fragmented/same-signature")
	var buf2 bytes.Buffer
	sym.Assert(back.Write(&buf2) == nil, "fragmented/reencode-ok")
	sym.Assert(sym.EqBytes(buf2.Bytes(), enc), "fragmented/reencode-identical")
	sym.Reach("fragmented-done")
}

// C02ManySignatures: one process decodes dynamic values of 70 different structure signatures (alternating
// member layouts), then values of the FIRST signatures again: each still decodes to an equal value, consuming
// exactly its bytes (whatever the decoder keeps per signature must still belong to that signature after any
// number of other signatures).
func C02ManySignatures() {
	// five layouts: a count that shares no factor with the table sizes an implementation is likely to use,
	// so that a signature and the one a power-of-two positions later never have the same layout
	layouts := []string{"(C)", "(l)", "(Ci)", "(sW)", "(wCl)"}
	mk := func(k int) (string, []byte) {
		sig := layouts[k%len(layouts)] + "<S" + strconv.Itoa(k) + ",a"
		var data []byte
		switch k % len(layouts) {
		case 0:
			data = []byte{sym.U8("c")}
		case 1:
			data = zzLE64(sym.U64("l"))
		case 2:
			sig += ",b"
			data = zzCat([]byte{sym.U8("c")}, zzLE32(sym.U32("i")))
		case 3:
			sig += ",b"
			data = zzCat(zzStr(sym.Str("s", 1)), []byte{sym.U8("w0"), sym.U8("w1")})
		default:
			sig += ",b,c"
			data = zzCat([]byte{sym.U8("w0"), sym.U8("w1"), sym.U8("c")}, zzLE64(sym.U64("l")))
		}
		return sig + ">", data
	}
	const n = 70
	for k := 0; k < n; k++ {
		sig, data := mk(k)
		var buf bytes.Buffer
		Opaque(sig, data).Write(&buf)
		_, err := NewValue(bytes.NewReader(buf.Bytes()))
		sym.Assert(err == nil, "many-signatures/decode-ok")
	}
	again := sym.Choose("signature-decoded-again", 6)
	sig, data := mk(again)
	zzRoundTrip(Opaque(sig, data), "many-signatures/decoded-again")
	sym.Reach("many-signatures-done")
}
