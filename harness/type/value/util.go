//go:build verif

package value

import "math"

func zzF32(bits uint32) float32 { return math.Float32frombits(bits) }
