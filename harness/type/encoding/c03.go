//go:build verif

package encoding

import (
	"bytes"
	"io"
	"math"
	"reflect"
	"strings"

	"github.com/lugu/qiloop/internal/zzverif/sym"
	"github.com/lugu/qiloop/meta/signature"
	"github.com/lugu/qiloop/type/value"
)

func zzLE16(x uint16) []byte { return []byte{byte(x), byte(x >> 8)} }
func zzLE32(x uint32) []byte { return []byte{byte(x), byte(x >> 8), byte(x >> 16), byte(x >> 24)} }
func zzLE64(x uint64) []byte {
	return []byte{byte(x), byte(x >> 8), byte(x >> 16), byte(x >> 24), byte(x >> 32), byte(x >> 40), byte(x >> 48), byte(x >> 56)}
}
func zzStr(s string) []byte { return append(zzLE32(uint32(len(s))), []byte(s)...) }
func zzBool(b bool) []byte {
	if b {
		return []byte{1}
	}
	return []byte{0}
}
func zzCat(parts ...[]byte) []byte {
	var out []byte
	for _, p := range parts {
		out = append(out, p...)
	}
	return out
}

// zzChunkReader returns at most chunk bytes per Read.
type zzChunkReader struct {
	data        []byte
	pos         int
	chunk       int
	eofWithData bool // report io.EOF together with the last bytes (legal for an io.Reader)
}

func (c *zzChunkReader) Read(p []byte) (int, error) {
	if c.pos >= len(c.data) {
		return 0, io.EOF
	}
	n := c.chunk
	if n > len(p) {
		n = len(p)
	}
	if n > len(c.data)-c.pos {
		n = len(c.data) - c.pos
	}
	copy(p, c.data[c.pos:c.pos+n])
	c.pos += n
	if c.eofWithData && c.pos == len(c.data) {
		return n, io.EOF
	}
	return n, nil
}

type zzSmall struct {
	A int8
	B uint8
	C uint16
}

type zzMixed struct {
	I int32
	S string
	L []bool
	N struct{ X uint64 }
}

type zzWithValue struct {
	V value.Value
	I int16
}

// zzCheck: (1) Encode(v) is exactly the documented serialization spec; (2) the signature-driven
// reader accepts exactly those bytes and returns them unchanged; (3) Decode recovers the value
// (checked by the caller through eq).
func zzCheck(label, sig string, v interface{}, spec []byte, fresh interface{}, eq func() bool) {
	var buf bytes.Buffer
	err := NewEncoder(nil, &buf).Encode(v)
	sym.Assert(err == nil, label+"/encode-ok")
	enc := append([]byte{}, buf.Bytes()...)
	sym.Assert(sym.EqBytes(enc, spec), label+"/documented-layout")

	// the reader is driven from the documented bytes so that it is checked independently of the encoder
	reader, err := signature.MakeReader(sig)
	sym.Assert(err == nil, label+"/reader-built")
	if err == nil {
		r := bytes.NewReader(append(append([]byte{}, spec...), 0x77))
		got, err := reader.Read(r)
		sym.Assert(err == nil, label+"/reader-accepts")
		if err == nil {
			sym.Assert(r.Len() == 1, label+"/reader-consumes-exactly")
			sym.Assert(sym.EqBytes(got, spec), label+"/reader-returns-unchanged")
		}
		// the same bytes arriving in small chunks (a stream, not a buffer)
		cr := &zzChunkReader{data: append(append([]byte{}, spec...), 0x77), chunk: 1 + sym.Choose("chunk", 3)}
		got, err = reader.Read(cr)
		sym.Assert(err == nil, label+"/chunked-reader-accepts")
		if err == nil {
			sym.Assert(len(cr.data)-cr.pos == 1, label+"/chunked-reader-consumes-exactly")
			sym.Assert(sym.EqBytes(got, spec), label+"/chunked-reader-returns-unchanged")
		}
	}
	err = NewDecoder(nil, bytes.NewReader(spec)).Decode(fresh)
	sym.Assert(err == nil, label+"/decode-ok")
	if err == nil {
		sym.Assert(eq(), label+"/decode-recovers")
	}
}

// C03Scalars: every fixed-width scalar, bool, floats, string at top level.
func C03Scalars() {
	switch sym.Choose("kind", 10) {
	case 0:
		x := sym.I16("x")
		var y int16
		zzCheck("int16", "w", x, zzLE16(uint16(x)), &y, func() bool { return y == x })
	case 1:
		x := sym.U16("x")
		var y uint16
		zzCheck("uint16", "W", x, zzLE16(x), &y, func() bool { return y == x })
	case 2:
		x := sym.I32("x")
		var y int32
		zzCheck("int32", "i", x, zzLE32(uint32(x)), &y, func() bool { return y == x })
	case 3:
		x := sym.U32("x")
		var y uint32
		zzCheck("uint32", "I", x, zzLE32(x), &y, func() bool { return y == x })
	case 4:
		x := sym.I64("x")
		var y int64
		zzCheck("int64", "l", x, zzLE64(uint64(x)), &y, func() bool { return y == x })
	case 5:
		x := sym.U64("x")
		var y uint64
		zzCheck("uint64", "L", x, zzLE64(x), &y, func() bool { return y == x })
	case 6:
		x := sym.Bool("x")
		var y bool
		zzCheck("bool", "b", x, zzBool(x), &y, func() bool { return y == x })
	case 7:
		bits := sym.F32("x")
		var y float32
		zzCheck("float32", "f", math.Float32frombits(bits), zzLE32(bits), &y, func() bool { return math.Float32bits(y) == bits })
	case 8:
		bits := sym.F64("x")
		var y float64
		zzCheck("float64", "d", math.Float64frombits(bits), zzLE64(bits), &y, func() bool { return math.Float64bits(y) == bits })
	default:
		x := sym.Str("x", sym.Choose("len", 3))
		var y string
		zzCheck("string", "s", x, zzStr(x), &y, func() bool { return sym.EqStr(y, x) })
	}
	sym.Reach("scalars-done")
}

// C03Small: 8- and 16-bit fields inside a struct (the only way 8-bit integers reach the wire).
func C03Small() {
	v := zzSmall{A: sym.I8("a"), B: sym.U8("b"), C: sym.U16("c")}
	var back zzSmall
	zzCheck("struct{int8,uint8,uint16}", "(cCW)", v, zzCat([]byte{byte(v.A)}, []byte{v.B}, zzLE16(v.C)), &back,
		func() bool { return back == v })
	sym.Reach("small-done")
}

// C03Containers: lists, nested lists, maps, structs with lists and nested structs.
func C03Containers() {
	switch sym.Choose("shape", 5) {
	case 4:
		// a list of maps: every element must get its own map
		v := []map[string]uint32{{"a": sym.U32("x")}, {"b": sym.U32("y")}}
		spec := zzCat(zzLE32(2), zzLE32(1), zzStr("a"), zzLE32(v[0]["a"]), zzLE32(1), zzStr("b"), zzLE32(v[1]["b"]))
		var back []map[string]uint32
		zzCheck("[]map[string]uint32", "[{sI}]", v, spec, &back, func() bool {
			if !(len(back) == 2 && len(back[0]) == 1 && len(back[1]) == 1) {
				return false
			}
			return sym.And(back[0]["a"] == v[0]["a"], back[1]["b"] == v[1]["b"])
		})
	case 0:
		n := sym.Choose("n", 3)
		v := make([]int32, n)
		spec := zzLE32(uint32(n))
		for i := range v {
			v[i] = sym.I32("e")
			spec = append(spec, zzLE32(uint32(v[i]))...)
		}
		var back []int32
		zzCheck("[]int32", "[i]", v, spec, &back, func() bool {
			if len(back) != n {
				return false
			}
			ok := true
			for i := range v {
				ok = sym.And(ok, back[i] == v[i])
			}
			return ok
		})
	case 1:
		v := [][]uint16{{sym.U16("a"), sym.U16("b")}, {sym.U16("c")}, {sym.U16("d"), sym.U16("e")}}
		spec := zzCat(zzLE32(3), zzLE32(2), zzLE16(v[0][0]), zzLE16(v[0][1]), zzLE32(1), zzLE16(v[1][0]), zzLE32(2), zzLE16(v[2][0]), zzLE16(v[2][1]))
		var back [][]uint16
		zzCheck("[][]uint16", "[[W]]", v, spec, &back, func() bool {
			if !(len(back) == 3 && len(back[0]) == 2 && len(back[1]) == 1 && len(back[2]) == 2) {
				return false
			}
			return sym.And(sym.And(back[0][0] == v[0][0], back[0][1] == v[0][1]),
				sym.And(back[1][0] == v[1][0], sym.And(back[2][0] == v[2][0], back[2][1] == v[2][1])))
		})
	case 2:
		k := sym.Str("k", 1)
		x := sym.U32("x")
		v := map[string]uint32{k: x}
		spec := zzCat(zzLE32(1), zzStr(k), zzLE32(x))
		var back map[string]uint32
		zzCheck("map[string]uint32", "{sI}", v, spec, &back, func() bool {
			got, ok := back[k]
			return len(back) == 1 && ok && got == x
		})
	default:
		var v zzMixed
		v.I = sym.I32("i")
		v.S = sym.Str("s", 1)
		v.L = []bool{sym.Bool("l0")}
		v.N.X = sym.U64("x")
		spec := zzCat(zzLE32(uint32(v.I)), zzStr(v.S), zzLE32(1), zzBool(v.L[0]), zzLE64(v.N.X))
		var back zzMixed
		zzCheck("struct{int32,string,[]bool,struct{uint64}}", "(is[b](L))", v, spec, &back, func() bool {
			return len(back.L) == 1 && sym.And(sym.And(back.I == v.I, sym.EqStr(back.S, v.S)), sym.And(back.L[0] == v.L[0], back.N.X == v.N.X))
		})
	}
	sym.Reach("containers-done")
}

// C03Dynamic: a signature-prefixed dynamic value inside a struct.
func C03Dynamic() {
	x := sym.I32("x")
	v := zzWithValue{V: value.Int(x), I: sym.I16("i")}
	spec := zzCat(zzStr("i"), zzLE32(uint32(x)), zzLE16(uint16(v.I)))
	var back zzWithValue
	zzCheck("struct{value,int16}", "(mw)", v, spec, &back, func() bool {
		iv, ok := back.V.(value.IntValue)
		return ok && sym.And(iv.Value() == x, back.I == v.I)
	})
	// a dynamic member whose own signature is a struct with a template-style name (the grammar accepts
	// "Sample<double>"), plain or nested in a list: read by the signature-driven reader and by the decoder
	for _, tsig := range []string{"(di)<Sample<double>,value,count>", "[(di)<Sample<double>,value,count>]", "(i(di)<Pair<double>,a,b>)<Outer<X>,n,p>"} {
		d, c := sym.U64("tpl-d"), sym.U32("tpl-c")
		body := zzCat(zzLE64(d), zzLE32(c))
		switch tsig[0] {
		case '[':
			body = zzCat(zzLE32(1), body)
		case '(':
			if tsig[1] == 'i' {
				body = zzCat(zzLE32(sym.U32("tpl-n")), body)
			}
		}
		tv := zzWithValue{V: value.Opaque(tsig, body), I: sym.I16("tpl-i")}
		tspec := zzCat(zzStr(tsig), body, zzLE16(uint16(tv.I)))
		var tback zzWithValue
		zzCheck("struct{value"+tsig+",int16}", "(mw)", tv, tspec, &tback, func() bool {
			if tback.V == nil {
				return false
			}
			var b0 bytes.Buffer
			tback.V.Write(&b0)
			return sym.And(sym.EqBytes(b0.Bytes(), zzCat(zzStr(tsig), body)), tback.I == tv.I)
		})
	}
	sym.Reach("dynamic-done")
}

// C03TwoDynamic: two dynamic values of composite signatures decoded by the reflection decoder in one
// go (a list of values, and a struct with two value fields): each keeps its own bytes.
func C03TwoDynamic() {
	a, b := sym.I32("a"), sym.I32("b")
	d1 := zzCat(zzLE32(1), zzLE32(uint32(a)))
	d2 := zzCat(zzLE32(1), zzLE32(uint32(b)))
	v := []value.Value{value.Opaque("[i]", d1), value.Opaque("[i]", d2)}
	spec := zzCat(zzLE32(2), zzStr("[i]"), d1, zzStr("[i]"), d2)
	var back []value.Value
	zzCheck("[]value{[i],[i]}", "[m]", v, spec, &back, func() bool {
		if len(back) != 2 {
			return false
		}
		var b0, b1 bytes.Buffer
		back[0].Write(&b0)
		back[1].Write(&b1)
		return sym.And(sym.EqBytes(b0.Bytes(), zzCat(zzStr("[i]"), d1)), sym.EqBytes(b1.Bytes(), zzCat(zzStr("[i]"), d2)))
	})
	type two struct{ X, Y value.Value }
	t := two{value.Opaque("(ii)", zzCat(zzLE32(uint32(a)), zzLE32(uint32(b)))), value.Opaque("(ii)", zzCat(zzLE32(uint32(b)), zzLE32(uint32(a))))}
	spec2 := zzCat(zzStr("(ii)"), zzLE32(uint32(a)), zzLE32(uint32(b)), zzStr("(ii)"), zzLE32(uint32(b)), zzLE32(uint32(a)))
	var back2 two
	zzCheck("struct{value,value}", "(mm)", t, spec2, &back2, func() bool {
		if back2.X == nil || back2.Y == nil {
			return false
		}
		var b0, b1 bytes.Buffer
		back2.X.Write(&b0)
		back2.Y.Write(&b1)
		return sym.And(sym.EqBytes(b0.Bytes(), spec2[:len(spec2)/2]), sym.EqBytes(b1.Bytes(), spec2[len(spec2)/2:]))
	})
	sym.Reach("two-dynamic-done")
}

// C03GoTypes: the Go type a signature maps to (Type.Type(), used by the proxies to decode a result
// whose signature differs from the expected one) follows the signature's own members, also when two
// struct signatures share a name, in whatever order they are asked for; decoding documented bytes
// into a value of that type recovers the members.
func C03GoTypes() {
	sigs := []string{"(is)<P,a,b>", "(si)<P,a,b>", "(Wl)<P,a,b>"}
	first := sym.Choose("first", len(sigs))
	second := sym.Choose("second", len(sigs))
	for _, k := range []int{first, second} {
		sig := sigs[k]
		typ, err := signature.Parse(sig)
		sym.Assert(err == nil, "gotype/parse-ok")
		if err != nil {
			return
		}
		t := typ.Type()
		sym.Assert(t.Kind() == reflect.Struct && t.NumField() == 2, "gotype/struct-of-two["+sig+"]")
		if t.Kind() != reflect.Struct || t.NumField() != 2 {
			return
		}
		want := [][2]reflect.Kind{{reflect.Int32, reflect.String}, {reflect.String, reflect.Int32}, {reflect.Uint16, reflect.Int64}}[k]
		sym.Assert(t.Field(0).Type.Kind() == want[0] && t.Field(1).Type.Kind() == want[1], "gotype/member-kinds["+sig+"]")
	}
	sym.Reach("gotypes-done")
}

type zzDeep struct {
	Names []string
	Grid  [][]int16
	Inner struct {
		F float32
		T []struct {
			A uint8
			B string
		}
	}
}

// C03ContainersDeep (thorough): longer lists, lists of strings of symbolic lengths, a multi-entry map
// (decoded from documented bytes in a fixed order; Go randomises the encoder's order, so the encoder
// side is checked on the entry SET through the decoder), and a three-level struct.
type zzPadded struct {
	A uint8
	L int64
}

type zzPadded2 struct {
	W int16
	I uint32
}

type zzWide struct {
	L1, L2, L3, L4, L5, L6, L7 int64
	I                          int32
	L8                         int64 // crosses byte 64 of the run of scalars
	W                          int16
	C                          int8
	D                          float64
	S                          string
	T                          uint16
}

func C03ContainersDeep() {
	switch sym.Choose("shape", 8) {
	case 7:
		// more than 64 bytes of consecutive scalars of mixed widths, then a string, then a scalar
		var v zzWide
		v.L1, v.L2, v.L3, v.L4, v.L5, v.L6, v.L7 = sym.I64("l1"), sym.I64("l2"), sym.I64("l3"), sym.I64("l4"), sym.I64("l5"), sym.I64("l6"), sym.I64("l7")
		v.I, v.L8, v.W, v.C = sym.I32("i"), sym.I64("l8"), sym.I16("w"), sym.I8("c")
		db := sym.F64("d")
		v.D = math.Float64frombits(db)
		v.S, v.T = sym.Str("s", 1), sym.U16("t")
		spec := zzCat(zzLE64(uint64(v.L1)), zzLE64(uint64(v.L2)), zzLE64(uint64(v.L3)), zzLE64(uint64(v.L4)), zzLE64(uint64(v.L5)), zzLE64(uint64(v.L6)), zzLE64(uint64(v.L7)),
			zzLE32(uint32(v.I)), zzLE64(uint64(v.L8)), zzLE16(uint16(v.W)), []byte{byte(v.C)}, zzLE64(db), zzStr(v.S), zzLE16(v.T))
		var back zzWide
		zzCheck("wide-scalar-struct", "(lllllllilwcdsW)", v, spec, &back, func() bool {
			ok := sym.And(sym.And(back.L1 == v.L1, back.L7 == v.L7), sym.And(back.I == v.I, back.L8 == v.L8))
			ok = sym.And(ok, sym.And(sym.And(back.W == v.W, back.C == v.C), math.Float64bits(back.D) == db))
			return sym.And(ok, sym.And(sym.EqStr(back.S, v.S), back.T == v.T))
		})
	case 4:
		// entries whose in-memory size (alignment padding) differs from their 9 wire bytes
		n := 1 + sym.Choose("n", 2)
		v := make([]zzPadded, n)
		spec := zzLE32(uint32(n))
		for i := range v {
			v[i] = zzPadded{A: sym.U8("a"), L: sym.I64("l")}
			spec = zzCat(spec, []byte{v[i].A}, zzLE64(uint64(v[i].L)))
		}
		var back []zzPadded
		zzCheck("[]struct{uint8,int64}", "[(Cl)]", v, spec, &back, func() bool {
			if len(back) != n {
				return false
			}
			ok := true
			for i := range v {
				ok = sym.And(ok, back[i] == v[i])
			}
			return ok
		})
	case 5:
		k := sym.U8("k")
		e := zzPadded2{W: sym.I16("w"), I: sym.U32("i")}
		v := map[uint8]zzPadded2{k: e}
		spec := zzCat(zzLE32(1), []byte{k}, zzLE16(uint16(e.W)), zzLE32(e.I))
		var back map[uint8]zzPadded2
		zzCheck("map[uint8]struct{int16,uint32}", "{C(wI)}", v, spec, &back, func() bool {
			got, ok := back[k]
			return len(back) == 1 && ok && got == e
		})
	case 6:
		// a map whose key has no serialized form (empty tuple): the entry is the value alone; the
		// signature-driven reader must still consume and return it
		x := sym.U8("x")
		spec := zzCat(zzLE32(1), []byte{x}, []byte{0x77})
		for _, sig := range []string{"{()C}", "{vC}"} {
			reader, err := signature.MakeReader(sig)
			sym.Assert(err == nil, sig+"/reader-built")
			r := bytes.NewReader(spec)
			got, err := reader.Read(r)
			sym.Assert(err == nil, sig+"/reader-accepts")
			sym.Assert(r.Len() == 1, sig+"/reader-consumes-exactly")
			sym.Assert(sym.EqBytes(got, spec[:5]), sig+"/reader-returns-unchanged")
		}
	case 0:
		n := sym.Choose("n", 7)
		v := make([]int32, n)
		spec := zzLE32(uint32(n))
		for i := range v {
			v[i] = sym.I32("e")
			spec = append(spec, zzLE32(uint32(v[i]))...)
		}
		var back []int32
		zzCheck("[]int32", "[i]", v, spec, &back, func() bool {
			if len(back) != n {
				return false
			}
			ok := true
			for i := range v {
				ok = sym.And(ok, back[i] == v[i])
			}
			return ok
		})
	case 1:
		n := sym.Choose("n", 4)
		v := make([]string, n)
		spec := zzLE32(uint32(n))
		for i := range v {
			v[i] = sym.Str("s", sym.Choose("len", 4))
			spec = append(spec, zzStr(v[i])...)
		}
		var back []string
		zzCheck("[]string", "[s]", v, spec, &back, func() bool {
			if len(back) != n {
				return false
			}
			ok := true
			for i := range v {
				ok = sym.And(ok, sym.EqStr(back[i], v[i]))
			}
			return ok
		})
	case 2:
		// three entries with symbolic, pairwise distinct keys
		k := []uint16{sym.U16("k0"), sym.U16("k1"), sym.U16("k2")}
		sym.Assume(k[0] != k[1])
		sym.Assume(k[0] != k[2])
		sym.Assume(k[1] != k[2])
		x := []int64{sym.I64("x0"), sym.I64("x1"), sym.I64("x2")}
		spec := zzLE32(3)
		for i := range k {
			spec = zzCat(spec, zzLE16(k[i]), zzLE64(uint64(x[i])))
		}
		var back map[uint16]int64
		err := NewDecoder(nil, bytes.NewReader(spec)).Decode(&back)
		sym.Assert(err == nil, "map3/decode-ok")
		sym.Assert(len(back) == 3, "map3/entries")
		for i := range k {
			got, ok := back[k[i]]
			sym.Assert(ok, "map3/key-present")
			sym.Assert(got == x[i], "map3/value")
		}
		// the encoder writes the same SET of entries: its output decodes to the same map and has the documented length
		var buf bytes.Buffer
		sym.Assert(NewEncoder(nil, &buf).Encode(map[uint16]int64{k[0]: x[0], k[1]: x[1], k[2]: x[2]}) == nil, "map3/encode-ok")
		sym.Assert(buf.Len() == len(spec), "map3/encoded-length")
		var again map[uint16]int64
		sym.Assert(NewDecoder(nil, bytes.NewReader(buf.Bytes())).Decode(&again) == nil, "map3/re-decode-ok")
		sym.Assert(len(again) == 3, "map3/re-decode-entries")
		for i := range k {
			sym.Assert(again[k[i]] == x[i], "map3/re-decode-value")
		}
	default:
		var v zzDeep
		v.Names = []string{sym.Str("n0", 2), sym.Str("n1", 0), sym.Str("n2", 1)}
		v.Grid = [][]int16{{sym.I16("g00")}, {}, {sym.I16("g20"), sym.I16("g21")}}
		fb := sym.F32("f")
		v.Inner.F = math.Float32frombits(fb)
		v.Inner.T = []struct {
			A uint8
			B string
		}{{sym.U8("a0"), sym.Str("b0", 1)}, {sym.U8("a1"), sym.Str("b1", 2)}}
		spec := zzCat(zzLE32(3), zzStr(v.Names[0]), zzStr(v.Names[1]), zzStr(v.Names[2]),
			zzLE32(3), zzLE32(1), zzLE16(uint16(v.Grid[0][0])), zzLE32(0), zzLE32(2), zzLE16(uint16(v.Grid[2][0])), zzLE16(uint16(v.Grid[2][1])),
			zzLE32(fb), zzLE32(2), []byte{v.Inner.T[0].A}, zzStr(v.Inner.T[0].B), []byte{v.Inner.T[1].A}, zzStr(v.Inner.T[1].B))
		var back zzDeep
		// a float32 MEMBER goes through reflect's float64 accessors; for a signalling NaN that is not
		// the identity (the hardware sets the quiet bit): that input class has a label of its own
		name := "deep-struct"
		if sym.And(fb&0x7f800000 == 0x7f800000, sym.And(fb&0x007fffff != 0, fb&0x00400000 == 0)) {
			name = "deep-struct[float32-member-is-a-signalling-NaN]"
		}
		zzCheck(name, "([s][[w]](f[(Cs)]))", v, spec, &back, func() bool {
			if !(len(back.Names) == 3 && len(back.Grid) == 3 && len(back.Grid[0]) == 1 && len(back.Grid[1]) == 0 && len(back.Grid[2]) == 2 && len(back.Inner.T) == 2) {
				return false
			}
			ok := sym.And(sym.EqStr(back.Names[0], v.Names[0]), sym.And(sym.EqStr(back.Names[1], v.Names[1]), sym.EqStr(back.Names[2], v.Names[2])))
			ok = sym.And(ok, sym.And(back.Grid[0][0] == v.Grid[0][0], sym.And(back.Grid[2][0] == v.Grid[2][0], back.Grid[2][1] == v.Grid[2][1])))
			ok = sym.And(ok, math.Float32bits(back.Inner.F) == fb)
			ok = sym.And(ok, sym.And(back.Inner.T[0].A == v.Inner.T[0].A, sym.EqStr(back.Inner.T[0].B, v.Inner.T[0].B)))
			return sym.And(ok, sym.And(back.Inner.T[1].A == v.Inner.T[1].A, sym.EqStr(back.Inner.T[1].B, v.Inner.T[1].B)))
		})
	}
	sym.Reach("containers-deep-done")
}

type zzLongList struct {
	L []int16
	T uint32
}

// C03LongLists: list lengths around the powers of two up to 4097 (chunked allocation, growth and
// limit boundaries live there): the three codecs still agree on every element and on what follows the list.
func C03LongLists() {
	sym.SetMaxMaterialise(1 << 16)
	// (the reflection decoder documents a limit of 4096 elements: listValueMaxSize)
	lens := []int{15, 16, 17, 63, 64, 65, 255, 256, 257, 1023, 1024, 1025, 2047, 2048, 2049, 4095, 4096}
	n := lens[sym.Choose("list-length", len(lens))]
	v := zzLongList{L: make([]int16, n), T: sym.U32("trailer")}
	// a few symbolic positions, the rest distinct constants
	for i := range v.L {
		v.L[i] = int16(i)
	}
	v.L[0], v.L[n/2], v.L[n-1] = sym.I16("first"), sym.I16("middle"), sym.I16("last")
	var buf bytes.Buffer
	sym.Assert(NewEncoder(nil, &buf).Encode(v) == nil, "long-list/encode-ok")
	enc := buf.Bytes()
	sym.Assert(len(enc) == 4+2*n+4, "long-list/encoded-length")
	if len(enc) != 4+2*n+4 {
		return
	}
	sym.Assert(sym.EqBytes(enc[:4], zzLE32(uint32(n))), "long-list/count")
	sym.Assert(sym.EqBytes(enc[4+2*(n-1):], zzCat(zzLE16(uint16(v.L[n-1])), zzLE32(v.T))), "long-list/tail-layout")
	reader, err := signature.MakeReader("([w]I)")
	sym.Assert(err == nil, "long-list/reader-built")
	if err == nil {
		r := bytes.NewReader(append(append([]byte{}, enc...), 0x77))
		got, err := reader.Read(r)
		sym.Assert(err == nil, "long-list/reader-accepts")
		if err == nil {
			sym.Assert(r.Len() == 1 && len(got) == len(enc), "long-list/reader-consumes-exactly")
		}
	}
	var back zzLongList
	sym.Assert(NewDecoder(nil, bytes.NewReader(enc)).Decode(&back) == nil, "long-list/decode-ok")
	sym.Assert(len(back.L) == n, "long-list/decoded-length")
	if len(back.L) == n {
		sym.Assert(sym.And(back.L[0] == v.L[0], sym.And(back.L[n/2] == v.L[n/2], back.L[n-1] == v.L[n-1])), "long-list/decoded-elements")
		sym.Assert(back.L[n-2] == v.L[n-2] && back.L[1] == v.L[1], "long-list/decoded-neighbours")
	}
	sym.Assert(back.T == v.T, "long-list/field-after-the-list")
	sym.Reach("long-lists-done")
}

// zzWide66: a struct with more members than a machine word has bits.
type zzWide66 struct {
	F0  uint8
	F1  uint8
	F2  uint8
	F3  uint8
	F4  uint8
	F5  uint8
	F6  uint8
	F7  uint8
	F8  uint8
	F9  uint8
	F10 uint8
	F11 uint8
	F12 uint8
	F13 uint8
	F14 uint8
	F15 uint8
	F16 uint8
	F17 uint8
	F18 uint8
	F19 uint8
	F20 uint8
	F21 uint8
	F22 uint8
	F23 uint8
	F24 uint8
	F25 uint8
	F26 uint8
	F27 uint8
	F28 uint8
	F29 uint8
	F30 uint8
	F31 uint8
	F32 uint8
	F33 uint8
	F34 uint8
	F35 uint8
	F36 uint8
	F37 uint8
	F38 uint8
	F39 uint8
	F40 uint8
	F41 uint8
	F42 uint8
	F43 uint8
	F44 uint8
	F45 uint8
	F46 uint8
	F47 uint8
	F48 uint8
	F49 uint8
	F50 uint8
	F51 uint8
	F52 uint8
	F53 uint8
	F54 uint8
	F55 uint8
	F56 uint8
	F57 uint8
	F58 uint8
	F59 uint8
	F60 uint8
	F61 uint8
	F62 uint8
	F63 uint8
	F64 uint8
	F65 uint8
}

// C03WideTypes: types that are wide rather than deep. (a) a struct of 66 one-byte members: the encoder
// writes all 66, the signature reader returns them unchanged, the decoder recovers the last ones too;
// (b) a dynamic value whose signature is long (a tuple of 600 integers: 602 bytes of signature): the
// signature-driven reader of "m" and of "(sm)" accepts what the encoder wrote and returns it unchanged.
func C03WideTypes() {
	if sym.Bool("long-signature") {
		const n = 600
		sig := "(" + strings.Repeat("i", n) + ")"
		data := make([]byte, 4*n)
		data[0], data[4*n-1] = sym.U8("first"), sym.U8("last")
		v := value.Opaque(sig, data)
		var buf bytes.Buffer
		sym.Assert(NewEncoder(nil, &buf).Encode(struct {
			S string
			V value.Value
		}{"k", v}) == nil, "long-signature/encode-ok")
		enc := append([]byte{}, buf.Bytes()...)
		spec := zzCat(zzStr("k"), zzStr(sig), data)
		sym.Assert(sym.EqBytes(enc, spec), "long-signature/documented-layout")
		reader, err := signature.MakeReader("(sm)")
		sym.Assert(err == nil, "long-signature/reader-built")
		if err == nil {
			r := bytes.NewReader(append(append([]byte{}, spec...), 0x77))
			got, err := reader.Read(r)
			sym.Assert(err == nil, "long-signature/reader-accepts")
			if err == nil {
				sym.Assert(r.Len() == 1, "long-signature/reader-consumes-exactly")
				sym.Assert(sym.EqBytes(got, spec), "long-signature/reader-returns-unchanged")
			}
		}
		var back struct {
			S string
			V value.Value
		}
		sym.Assert(NewDecoder(nil, bytes.NewReader(spec)).Decode(&back) == nil, "long-signature/decode-ok")
		if back.V != nil {
			var again bytes.Buffer
			sym.Assert(back.V.Write(&again) == nil, "long-signature/reencode-ok")
			sym.Assert(sym.EqBytes(again.Bytes(), spec[5:]), "long-signature/decode-recovers")
		}
		sym.Reach("wide-done")
		return
	}
	var v zzWide66
	v.F0, v.F63, v.F64, v.F65 = sym.U8("f0"), sym.U8("f63"), sym.U8("f64"), sym.U8("f65")
	spec := make([]byte, 66)
	spec[0], spec[63], spec[64], spec[65] = v.F0, v.F63, v.F64, v.F65
	var back zzWide66
	zzCheck("wide-struct", "("+strings.Repeat("C", 66)+")", v, spec, &back, func() bool {
		return sym.And(sym.And(back.F0 == v.F0, back.F63 == v.F63), sym.And(back.F64 == v.F64, back.F65 == v.F65))
	})
	sym.Reach("wide-done")
}

type zzPairKey struct{ A, B string }

// C03MapCompositeKeys: maps whose keys are structures or dynamic values. The keys are concrete and chosen
// so that distinct keys look alike under every textual rendering one might be tempted to order or index
// them by (%v of {"a b","c"} and {"a","b c"}; Int(1) and Uint(1)); the values are symbolic. The encoder's
// entry order is Go's, so the encoder side is checked through its length and the decoder, entry by entry.
func C03MapCompositeKeys() {
	x, y, z := sym.I32("x"), sym.I32("y"), sym.I32("z")
	switch sym.Choose("keys", 2) {
	case 0:
		k := []zzPairKey{{"a b", "c"}, {"a", "b c"}, {"", "a b c"}}
		m := map[zzPairKey]int32{k[0]: x, k[1]: y, k[2]: z}
		var buf bytes.Buffer
		sym.Assert(NewEncoder(nil, &buf).Encode(m) == nil, "pair-keys/encode-ok")
		want := 4
		for _, kk := range k {
			want += 4 + len(kk.A) + 4 + len(kk.B) + 4
		}
		sym.Assert(buf.Len() == want, "pair-keys/encoded-length")
		reader, err := signature.MakeReader("{(ss)i}")
		sym.Assert(err == nil, "pair-keys/reader-built")
		if err == nil {
			r := bytes.NewReader(append(append([]byte{}, buf.Bytes()...), 0x77))
			got, err := reader.Read(r)
			sym.Assert(err == nil, "pair-keys/reader-accepts")
			if err == nil {
				sym.Assert(r.Len() == 1, "pair-keys/reader-consumes-exactly")
				sym.Assert(sym.EqBytes(got, buf.Bytes()), "pair-keys/reader-returns-unchanged")
			}
		}
		var back map[zzPairKey]int32
		sym.Assert(NewDecoder(nil, bytes.NewReader(buf.Bytes())).Decode(&back) == nil, "pair-keys/decode-ok")
		sym.Assert(len(back) == 3, "pair-keys/entries")
		for i, v := range []int32{x, y, z} {
			got, ok := back[k[i]]
			sym.Assert(ok, "pair-keys/key-present")
			sym.Assert(got == v, "pair-keys/value")
		}
	default:
		type entry struct {
			K value.Value
			V int32
		}
		// a map keyed by dynamic values cannot be compared natively key by key (interface keys holding
		// different concrete types are distinct keys): checked through the list-of-pairs view of the bytes
		m := map[value.Value]int32{value.Int(1): x, value.Uint(1): y, value.Long(1): z}
		var buf bytes.Buffer
		sym.Assert(NewEncoder(nil, &buf).Encode(m) == nil, "value-keys/encode-ok")
		var back []entry
		sym.Assert(NewDecoder(nil, bytes.NewReader(buf.Bytes())).Decode(&back) == nil, "value-keys/decode-ok")
		sym.Assert(len(back) == 3, "value-keys/entries")
		seen := map[string]int32{}
		for _, e := range back {
			if e.K != nil {
				seen[e.K.Signature()] = e.V
			}
		}
		sym.Assert(len(seen) == 3, "value-keys/distinct-keys")
		sym.Assert(sym.And(seen["i"] == x, sym.And(seen["I"] == y, seen["l"] == z)), "value-keys/values")
	}
	sym.Reach("composite-keys-done")
}

type zzTwoLists struct {
	A, B []int16
	M    map[string]int32
	N    map[string]int32
}

// C03SharedParts: a value whose parts are shared (the same list used twice in a list of lists, two members
// holding the same list or the same map, two lists that are prefixes of one array): sharing is not part of
// the value — it is encoded like the value with equal, distinct parts.
func C03SharedParts() {
	x, y := sym.I16("x"), sym.I16("y")
	row := []int16{x, y}
	switch sym.Choose("shape", 3) {
	case 0:
		v := [][]int16{row, row}
		spec := zzCat(zzLE32(2), zzLE32(2), zzLE16(uint16(x)), zzLE16(uint16(y)), zzLE32(2), zzLE16(uint16(x)), zzLE16(uint16(y)))
		var back [][]int16
		zzCheck("same-list-twice", "[[w]]", v, spec, &back, func() bool {
			return len(back) == 2 && len(back[0]) == 2 && len(back[1]) == 2 && sym.And(back[0][0] == x, back[1][1] == y)
		})
	case 1:
		m := map[string]int32{"k": sym.I32("m")}
		v := zzTwoLists{A: row, B: row, M: m, N: m}
		one := zzCat(zzLE32(2), zzLE16(uint16(x)), zzLE16(uint16(y)))
		mp := zzCat(zzLE32(1), zzStr("k"), zzLE32(uint32(m["k"])))
		spec := zzCat(one, one, mp, mp)
		var back zzTwoLists
		zzCheck("two-members-one-list", "([w][w]{si}{si})", v, spec, &back, func() bool {
			return len(back.A) == 2 && len(back.B) == 2 && len(back.M) == 1 && len(back.N) == 1 && sym.And(back.B[1] == y, back.N["k"] == m["k"])
		})
	default:
		v := [][]int16{row[:1], row[:2]}
		spec := zzCat(zzLE32(2), zzLE32(1), zzLE16(uint16(x)), zzLE32(2), zzLE16(uint16(x)), zzLE16(uint16(y)))
		var back [][]int16
		zzCheck("two-prefixes-of-one-array", "[[w]]", v, spec, &back, func() bool {
			return len(back) == 2 && len(back[0]) == 1 && len(back[1]) == 2 && sym.And(back[0][0] == x, back[1][1] == y)
		})
	}
	sym.Reach("shared-parts-done")
}
