//go:build verif

package encoding

import (
	"bytes"
	"io"

	"github.com/lugu/qiloop/type/value"

	"github.com/lugu/qiloop/internal/zzverif/sym"
)

type zzTrailingValue struct {
	I int16
	V value.Value
}

// C08Reflect: strict prefixes of the reflection encoder's output are refused by the reflection decoder.
func C08Reflect() {
	var enc []byte
	var decode func(r io.Reader) error
	label := ""
	switch sym.Choose("shape", 6) {
	case 4:
		// a dynamic value as the LAST thing decoded (cut inside its body)
		v := []value.Value{value.Long(sym.I64("l")), value.String(sym.Str("vs", 2))}
		var buf bytes.Buffer
		sym.Assert(NewEncoder(nil, &buf).Encode(v) == nil, "encode-ok")
		enc = buf.Bytes()
		decode = func(r io.Reader) error { var back []value.Value; return NewDecoder(nil, r).Decode(&back) }
		label = "truncated-list-of-values"
	case 5:
		v := zzTrailingValue{I: sym.I16("i"), V: value.Uint(sym.U32("u"))}
		var buf bytes.Buffer
		sym.Assert(NewEncoder(nil, &buf).Encode(v) == nil, "encode-ok")
		enc = buf.Bytes()
		decode = func(r io.Reader) error { var back zzTrailingValue; return NewDecoder(nil, r).Decode(&back) }
		label = "truncated-struct-with-trailing-value"
	case 0:
		var v zzMixed
		v.I = sym.I32("i")
		v.S = sym.Str("s", 2)
		v.L = []bool{sym.Bool("l0")}
		v.N.X = sym.U64("x")
		var buf bytes.Buffer
		sym.Assert(NewEncoder(nil, &buf).Encode(v) == nil, "encode-ok")
		enc = buf.Bytes()
		decode = func(r io.Reader) error { var back zzMixed; return NewDecoder(nil, r).Decode(&back) }
		label = "truncated-struct"
	case 1:
		v := []string{sym.Str("a", 1), sym.Str("b", 2)}
		var buf bytes.Buffer
		sym.Assert(NewEncoder(nil, &buf).Encode(v) == nil, "encode-ok")
		enc = buf.Bytes()
		decode = func(r io.Reader) error { var back []string; return NewDecoder(nil, r).Decode(&back) }
		label = "truncated-slice"
	case 2:
		v := map[string]uint32{sym.Str("k", 1): sym.U32("x")}
		var buf bytes.Buffer
		sym.Assert(NewEncoder(nil, &buf).Encode(v) == nil, "encode-ok")
		enc = buf.Bytes()
		decode = func(r io.Reader) error { var back map[string]uint32; return NewDecoder(nil, r).Decode(&back) }
		label = "truncated-map"
	default:
		v := sym.U64("u")
		var buf bytes.Buffer
		sym.Assert(NewEncoder(nil, &buf).Encode(v) == nil, "encode-ok")
		enc = buf.Bytes()
		decode = func(r io.Reader) error { var back uint64; return NewDecoder(nil, r).Decode(&back) }
		label = "truncated-scalar"
	}
	sym.Assert(decode(bytes.NewReader(enc)) == nil, label+"/full-decodes")
	k := sym.Concrete(sym.Int("cut", 0, len(enc)-1))
	// the truncated stream either reports EOF on the next call or together with its last bytes
	var r io.Reader = bytes.NewReader(enc[:k])
	if sym.Bool("eof-with-data") {
		r = &zzChunkReader{data: enc[:k], chunk: 1 << 20, eofWithData: true}
	}
	sym.Assert(decode(r) != nil, label)
	sym.Reach("cut-checked")
}

// C07Reflect: arbitrary bytes into the reflection decoder for a few target types.
func C07Reflect() {
	n := sym.Choose("n", 13)
	in := sym.Bytes("in", n)
	target := sym.Choose("target", 4)
	sym.Bounded(16<<20+64*n, n+8, func() {
		var err error
		switch target {
		case 0:
			var v []string
			err = NewDecoder(nil, bytes.NewReader(in)).Decode(&v)
		case 1:
			var v map[uint32]string
			err = NewDecoder(nil, bytes.NewReader(in)).Decode(&v)
		case 2:
			var v zzMixed
			err = NewDecoder(nil, bytes.NewReader(in)).Decode(&v)
		default:
			var v [][]uint16
			err = NewDecoder(nil, bytes.NewReader(in)).Decode(&v)
		}
		if err == nil {
			sym.Reach("decoded")
		} else {
			sym.Reach("rejected")
		}
	})
}
