//go:build verif

package encoding

import (
	"bytes"
	"io"
	"math"

	"github.com/lugu/qiloop/type/value"

	"github.com/lugu/qiloop/internal/zzverif/sym"
)

type zzTrailingValue struct {
	I int16
	V value.Value
}

// C08Reflect: strict prefixes of the reflection encoder's output are refused by the reflection decoder.
func C08Reflect() {
	var enc []byte
	var decode func(r io.Reader) error
	label := ""
	switch sym.Choose("shape", 10) {
	case 6:
		v := []float32{math.Float32frombits(sym.F32("f0")), math.Float32frombits(sym.F32("f1")), math.Float32frombits(sym.F32("f2"))}
		var buf bytes.Buffer
		sym.Assert(NewEncoder(nil, &buf).Encode(v) == nil, "encode-ok")
		enc = buf.Bytes()
		decode = func(r io.Reader) error { var back []float32; return NewDecoder(nil, r).Decode(&back) }
		label = "truncated-float32-vector"
	case 7:
		v := []float64{math.Float64frombits(sym.F64("d0")), math.Float64frombits(sym.F64("d1"))}
		var buf bytes.Buffer
		sym.Assert(NewEncoder(nil, &buf).Encode(v) == nil, "encode-ok")
		enc = buf.Bytes()
		decode = func(r io.Reader) error { var back []float64; return NewDecoder(nil, r).Decode(&back) }
		label = "truncated-float64-vector"
	case 8:
		v := []int16{sym.I16("w0"), sym.I16("w1"), sym.I16("w2")}
		var buf bytes.Buffer
		sym.Assert(NewEncoder(nil, &buf).Encode(v) == nil, "encode-ok")
		enc = buf.Bytes()
		decode = func(r io.Reader) error { var back []int16; return NewDecoder(nil, r).Decode(&back) }
		label = "truncated-int16-vector"
	case 9:
		v := struct {
			N uint8
			F []float32
		}{sym.U8("n"), []float32{math.Float32frombits(sym.F32("f0")), math.Float32frombits(sym.F32("f1"))}}
		var buf bytes.Buffer
		sym.Assert(NewEncoder(nil, &buf).Encode(v) == nil, "encode-ok")
		enc = buf.Bytes()
		decode = func(r io.Reader) error {
			var back struct {
				N uint8
				F []float32
			}
			return NewDecoder(nil, r).Decode(&back)
		}
		label = "truncated-struct-ending-with-float32-vector"
	case 4:
		// a dynamic value as the LAST thing decoded (cut inside its body)
		v := []value.Value{value.Long(sym.I64("l")), value.String(sym.Str("vs", 2))}
		var buf bytes.Buffer
		sym.Assert(NewEncoder(nil, &buf).Encode(v) == nil, "encode-ok")
		enc = buf.Bytes()
		decode = func(r io.Reader) error { var back []value.Value; return NewDecoder(nil, r).Decode(&back) }
		label = "truncated-list-of-values"
	case 5:
		v := zzTrailingValue{I: sym.I16("i"), V: value.Uint(sym.U32("u"))}
		var buf bytes.Buffer
		sym.Assert(NewEncoder(nil, &buf).Encode(v) == nil, "encode-ok")
		enc = buf.Bytes()
		// the destination is fresh, or a holder that still contains the value of an earlier decode
		reused := sym.Bool("destination-already-holds-a-value")
		decode = func(r io.Reader) error {
			var back zzTrailingValue
			if reused {
				back.V = value.String("earlier")
			}
			return NewDecoder(nil, r).Decode(&back)
		}
		label = "truncated-struct-with-trailing-value"
	case 0:
		var v zzMixed
		v.I = sym.I32("i")
		v.S = sym.Str("s", 2)
		v.L = []bool{sym.Bool("l0")}
		v.N.X = sym.U64("x")
		var buf bytes.Buffer
		sym.Assert(NewEncoder(nil, &buf).Encode(v) == nil, "encode-ok")
		enc = buf.Bytes()
		decode = func(r io.Reader) error { var back zzMixed; return NewDecoder(nil, r).Decode(&back) }
		label = "truncated-struct"
	case 1:
		v := []string{sym.Str("a", 1), sym.Str("b", 2)}
		var buf bytes.Buffer
		sym.Assert(NewEncoder(nil, &buf).Encode(v) == nil, "encode-ok")
		enc = buf.Bytes()
		decode = func(r io.Reader) error { var back []string; return NewDecoder(nil, r).Decode(&back) }
		label = "truncated-slice"
	case 2:
		v := map[string]uint32{sym.Str("k", 1): sym.U32("x")}
		var buf bytes.Buffer
		sym.Assert(NewEncoder(nil, &buf).Encode(v) == nil, "encode-ok")
		enc = buf.Bytes()
		decode = func(r io.Reader) error { var back map[string]uint32; return NewDecoder(nil, r).Decode(&back) }
		label = "truncated-map"
	default:
		v := sym.U64("u")
		var buf bytes.Buffer
		sym.Assert(NewEncoder(nil, &buf).Encode(v) == nil, "encode-ok")
		enc = buf.Bytes()
		decode = func(r io.Reader) error { var back uint64; return NewDecoder(nil, r).Decode(&back) }
		label = "truncated-scalar"
	}
	sym.Assert(decode(bytes.NewReader(enc)) == nil, label+"/full-decodes")
	k := sym.Concrete(sym.Int("cut", 0, len(enc)-1))
	// the truncated stream either reports EOF on the next call or together with its last bytes
	var r io.Reader = bytes.NewReader(enc[:k])
	if sym.Bool("eof-with-data") {
		r = &zzChunkReader{data: enc[:k], chunk: 1 << 20, eofWithData: true}
	}
	sym.Assert(decode(r) != nil, label)
	sym.Reach("cut-checked")
}

// C07Reflect: arbitrary bytes into the reflection decoder for a few target types.
func C07Reflect() { zzC07Reflect(0, 4) }

// C07ReflectBuffers: the same with byte buffers, numeric vectors, a string, a map of buffers and a
// struct of vectors as destination.
func C07ReflectBuffers() { zzC07Reflect(4, 5) }

func zzC07Reflect(first, count int) {
	n := sym.Choose("n", 13)
	in := sym.Bytes("in", n)
	target := first + sym.Choose("target", count)
	// the destination is fresh, or a holder that still contains an earlier (valid, non-empty) result
	reused := sym.Bool("destination-already-holds-a-value")
	sym.Bounded(16<<20+64*n, n+8, func() {
		var err error
		switch target {
		case 0:
			var v []string
			if reused {
				v = []string{"x"}
			}
			err = NewDecoder(nil, bytes.NewReader(in)).Decode(&v)
		case 1:
			var v map[uint32]string
			if reused {
				v = map[uint32]string{1: "x"}
			}
			err = NewDecoder(nil, bytes.NewReader(in)).Decode(&v)
		case 2:
			var v zzMixed
			if reused {
				v.L = []bool{true}
			}
			err = NewDecoder(nil, bytes.NewReader(in)).Decode(&v)
		case 4:
			// a byte buffer at the top level (the Go type of "[C]": images, audio samples)
			var v []byte
			if reused {
				v = []byte{1, 2}
			}
			err = NewDecoder(nil, bytes.NewReader(in)).Decode(&v)
		case 5:
			var v []int32
			if reused {
				v = []int32{7}
			}
			err = NewDecoder(nil, bytes.NewReader(in)).Decode(&v)
		case 6:
			var v string
			if reused {
				v = "x"
			}
			err = NewDecoder(nil, bytes.NewReader(in)).Decode(&v)
		case 7:
			var v map[string][]byte
			if reused {
				v = map[string][]byte{"k": {1}}
			}
			err = NewDecoder(nil, bytes.NewReader(in)).Decode(&v)
		case 8:
			var v struct {
				B []uint8
				S []int8
				T uint16
			}
			if reused {
				v.B = []uint8{1}
			}
			err = NewDecoder(nil, bytes.NewReader(in)).Decode(&v)
		case 3:
			var v [][]uint16
			if reused {
				v = [][]uint16{{1}}
			}
			err = NewDecoder(nil, bytes.NewReader(in)).Decode(&v)
		}
		if err == nil {
			sym.Reach("decoded")
		} else {
			sym.Reach("rejected")
		}
	})
}

type zzZeroWidthHolder struct {
	L []struct{}
	N uint8
}

// C07ReflectZeroWidth: arbitrary bytes into the reflection decoder for destinations whose list
// elements have no wire representation (struct{}): the count field is all there is, so nothing but a
// check on the count itself can bound the work. The work allowed is that of the largest list the
// decoder accepts (4096 elements), whatever the count says. (Counts 3..4095 behave like 2 and 4096
// and are left out to keep the number of paths small.)
func C07ReflectZeroWidth() {
	n := sym.Choose("n", 7)
	in := sym.Bytes("in", n)
	if n >= 4 {
		l := uint32(in[0]) | uint32(in[1])<<8 | uint32(in[2])<<16 | uint32(in[3])<<24
		sym.Assume(sym.Or(l <= 2, l >= 4096))
	}
	target := sym.Choose("target", 2)
	sym.Bounded(16<<20+64*n, 4096+16, func() {
		var err error
		if target == 0 {
			var v []struct{}
			err = NewDecoder(nil, bytes.NewReader(in)).Decode(&v)
		} else {
			var v zzZeroWidthHolder
			err = NewDecoder(nil, bytes.NewReader(in)).Decode(&v)
		}
		if err == nil {
			sym.Reach("decoded")
		} else {
			sym.Reach("rejected")
		}
	})
}

type zzFrameBytes struct {
	ID   uint32
	Data []uint8
}

// C08LongByteList: a list of 5000 one-byte elements (beyond the decoder's list limit) — at top level, as the
// last member of a structure, as a list of booleans — encoded by hand from the documented layout and cut
// short at a handful of positions from both ends and the middle: no strict prefix is ever accepted, whatever
// the decoder does with lists longer than its limit.
func C08LongByteList() {
	sym.SetMaxMaterialise(1 << 16)
	const n = 5000
	body := make([]byte, n)
	body[0], body[n/2], body[n-1] = sym.U8("first")&1, sym.U8("middle")&1, sym.U8("last")&1
	enc := zzCat(zzLE32(n), body)
	shape := sym.Choose("shape", 3)
	if shape == 1 {
		enc = zzCat(zzLE32(sym.U32("id")), enc)
	}
	cuts := []int{0, 3, 4, 5, 9, n / 2, len(enc) - 900, len(enc) - 2, len(enc) - 1}
	k := cuts[sym.Choose("cut", len(cuts))]
	var err error
	switch shape {
	case 0:
		var v []uint8
		err = NewDecoder(nil, bytes.NewReader(enc[:k])).Decode(&v)
	case 1:
		var v zzFrameBytes
		err = NewDecoder(nil, bytes.NewBuffer(append([]byte{}, enc[:k]...))).Decode(&v)
	default:
		var v []bool
		err = NewDecoder(nil, bytes.NewReader(enc[:k])).Decode(&v)
	}
	sym.Assert(err != nil, "truncated-long-byte-list")
	sym.Reach("long-byte-list-cut-checked")
}
