//go:build verif

package basic

import (
	"bytes"

	"github.com/lugu/qiloop/internal/zzverif/sym"
)

// C08LongString: strings longer than the usual buffer sizes (70000 bytes, content symbolic at both
// ends): the full encoding decodes to the same string; a prefix cut at a symbolic position is refused.
func C08LongString() {
	sym.SetMaxMaterialise(1 << 18)
	const n = 70000
	b := make([]byte, n)
	for i := range b {
		b[i] = 'x'
	}
	b[0], b[n-1] = sym.U8("first"), sym.U8("last")
	var buf bytes.Buffer
	sym.Assert(WriteString(string(b), &buf) == nil, "encode-ok")
	enc := buf.Bytes()
	sym.Assert(len(enc) == n+4, "encoding-length")
	got, err := ReadString(bytes.NewReader(enc))
	sym.Assert(err == nil, "full-decodes")
	sym.Assert(len(got) == n, "full-length")
	if len(got) == n {
		sym.Assert(sym.And(got[0] == b[0], got[n-1] == b[n-1]), "full-content")
	}
	cuts := []int{3, 4, 5, 4096, 65536, 65540, n, n + 3}
	k := cuts[sym.Choose("cut", len(cuts))]
	_, err = ReadString(bytes.NewReader(enc[:k]))
	sym.Assert(err != nil, "truncated-long-string")
	sym.Reach("long-string-done")
}
