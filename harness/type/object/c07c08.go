//go:build verif

package object

import (
	"bytes"

	"github.com/lugu/qiloop/internal/zzverif/sym"
)

// zzShort: a string of symbolic content; its length is symbolic too only in deep mode.
var zzDeep bool

func zzShort(label string, max int) string {
	if zzDeep {
		return sym.Str(label, sym.Choose(label+"-len", max+1))
	}
	return sym.Str(label, max)
}

func zzMetaObject() MetaObject {
	m := MetaObject{
		Methods:    map[uint32]MetaMethod{},
		Signals:    map[uint32]MetaSignal{},
		Properties: map[uint32]MetaProperty{},
	}
	if sym.Bool("has-method") {
		uid := sym.U32("muid")
		mm := MetaMethod{Uid: uid, ReturnSignature: zzShort("ret", 1), Name: zzShort("name", 1), ParametersSignature: "(s)"}
		if sym.Bool("has-param") {
			mm.Parameters = []MetaMethodParameter{{Name: zzShort("pname", 1), Description: ""}}
		}
		m.Methods[uid] = mm
	}
	if sym.Bool("has-signal") {
		uid := sym.U32("suid")
		m.Signals[uid] = MetaSignal{Uid: uid, Name: zzShort("sname", 1), Signature: "(i)"}
	}
	if sym.Bool("has-property") {
		uid := sym.U32("puid")
		m.Properties[uid] = MetaProperty{Uid: uid, Name: "p", Signature: zzShort("psig", 1)}
	}
	m.Description = zzShort("desc", 1)
	return m
}

// C08MetaObject: every strict prefix of an encoded meta-object is refused; the full encoding decodes.
func C08MetaObjectDeep() { zzDeep = true; C08MetaObject() }

func C08MetaObject() {
	m := zzMetaObject()
	var buf bytes.Buffer
	sym.Assert(WriteMetaObject(m, &buf) == nil, "encode-ok")
	enc := buf.Bytes()
	full, err := ReadMetaObject(bytes.NewReader(enc))
	sym.Assert(err == nil, "full-decodes")
	sym.Assert(len(full.Methods) == len(m.Methods), "full-methods")
	k := sym.Concrete(sym.Int("cut", 0, len(enc)-1))
	_, err = ReadMetaObject(bytes.NewReader(enc[:k]))
	sym.Assert(err != nil, "truncated-metaobject")
	sym.Reach("cut-checked")
}

// C08ObjectReference: same for object references.
func C08ObjectReference() {
	ref := ObjectReference{MetaObject: zzMetaObject(), ServiceID: sym.U32("service"), ObjectID: sym.U32("object")}
	var buf bytes.Buffer
	sym.Assert(WriteObjectReference(ref, &buf) == nil, "encode-ok")
	enc := buf.Bytes()
	full, err := ReadObjectReference(bytes.NewReader(enc))
	sym.Assert(err == nil, "full-decodes")
	sym.Assert(sym.And(full.ServiceID == ref.ServiceID, full.ObjectID == ref.ObjectID), "full-ids")
	k := sym.Concrete(sym.Int("cut", 0, len(enc)-1))
	_, err = ReadObjectReference(bytes.NewReader(enc[:k]))
	sym.Assert(err != nil, "truncated-objectreference")
	sym.Reach("cut-checked")
}

func c07MetaObject(maxN int) {
	n := sym.Choose("n", maxN+1)
	in := sym.Bytes("in", n)
	sym.Bounded(16<<20+64*n, n+8, func() {
		_, err := ReadMetaObject(bytes.NewReader(in))
		if err == nil {
			sym.Reach("decoded")
		} else {
			sym.Reach("rejected")
		}
	})
}

// C07MetaObject: arbitrary bytes into the meta-object decoder.
func C07MetaObject()     { c07MetaObject(12) }
func C07MetaObjectDeep() { c07MetaObject(20) }

func C07ObjectReference() {
	n := sym.Choose("n", 13)
	in := sym.Bytes("in", n)
	sym.Bounded(16<<20+64*n, n+8, func() {
		_, err := ReadObjectReference(bytes.NewReader(in))
		if err == nil {
			sym.Reach("decoded")
		} else {
			sym.Reach("rejected")
		}
	})
}
