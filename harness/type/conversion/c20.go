//go:build verif

package conversion

import (
	"bytes"
	"math"

	"github.com/lugu/qiloop/meta/signature"
	"github.com/lugu/qiloop/type/encoding"

	"github.com/lugu/qiloop/internal/zzverif/sym"
)

type zzSrcStruct struct {
	Count int16
	Name  string
	Flags []uint8
}

type zzDstStruct struct {
	COUNT int64 // matched case-insensitively
	Name  string
	Flags []uint32
	Extra bool // absent in the source: keeps its value
}

type zzInner struct {
	A int8
	B uint16
}
type zzInnerWide struct {
	A int32
	B uint64
}
type zzOuter struct {
	Items []zzInner
	Index map[string]zzInner
}
type zzOuterWide struct {
	Items []zzInnerWide
	Index map[string]zzInnerWide
}

func zzNotNaN32(bits uint32) bool { return sym.Or(bits&0x7f800000 != 0x7f800000, bits&0x007fffff == 0) }

// C20Scalars: compatible scalar conversions preserve the value and convert back exactly.
func C20Scalars() {
	switch sym.Choose("pair", 8) {
	case 0:
		src := sym.I8("i8")
		var dst int32
		sym.Assert(ConvertFrom(&dst, src) == nil, "int8->int32/ok")
		sym.Assert(dst == int32(src), "int8->int32/value")
		var back int8
		sym.Assert(ConvertFrom(&back, dst) == nil, "int32->int8/ok")
		sym.Assert(back == src, "int8->int32->int8/roundtrip")
	case 1:
		src := sym.U16("u16")
		var dst uint64
		sym.Assert(ConvertFrom(&dst, src) == nil, "uint16->uint64/ok")
		sym.Assert(dst == uint64(src), "uint16->uint64/value")
		var back uint16
		sym.Assert(ConvertFrom(&back, dst) == nil, "uint64->uint16/ok")
		sym.Assert(back == src, "uint16->uint64->uint16/roundtrip")
	case 2:
		src := sym.I32("i32")
		var dst int64
		sym.Assert(ConvertFrom(&dst, src) == nil, "int32->int64/ok")
		sym.Assert(dst == int64(src), "int32->int64/value")
		var dst2 int
		sym.Assert(ConvertFrom(&dst2, src) == nil, "int32->int/ok")
		sym.Assert(dst2 == int(src), "int32->int/value")
	case 3:
		src := sym.U8("u8")
		var dst uint32
		sym.Assert(ConvertFrom(&dst, src) == nil, "uint8->uint32/ok")
		sym.Assert(dst == uint32(src), "uint8->uint32/value")
	case 4:
		bits := sym.F32("f32")
		sym.Assume(zzNotNaN32(bits))
		src := math.Float32frombits(bits)
		var dst float64
		sym.Assert(ConvertFrom(&dst, src) == nil, "float32->float64/ok")
		sym.Assert(math.Float64bits(dst) == math.Float64bits(float64(src)), "float32->float64/value")
		var back float32
		sym.Assert(ConvertFrom(&back, dst) == nil, "float64->float32/ok")
		sym.Assert(math.Float32bits(back) == bits, "float32->float64->float32/roundtrip")
	case 5:
		src := sym.Str("s", sym.Choose("slen", 3))
		if sym.Bool("a-string-that-is-not-well-formed-utf8") {
			// strings are byte strings (concrete samples: rune decoding of symbolic bytes is not encoded)
			src = []string{"caf\xe9", "\xff", "a\xc3", "\x80abc"}[sym.Choose("which", 4)]
		}
		var dst string
		sym.Assert(ConvertFrom(&dst, src) == nil, "string/ok")
		sym.Assert(sym.EqStr(dst, src), "string/value")
		var back string
		sym.Assert(ConvertFrom(&back, dst) == nil, "string/back-ok")
		sym.Assert(sym.EqStr(back, src), "string/roundtrip")
	case 6:
		src := sym.Bool("b")
		var dst bool
		sym.Assert(ConvertFrom(&dst, src) == nil, "bool/ok")
		sym.Assert(dst == src, "bool/value")
	default:
		src := sym.U64("u64")
		var dst uint64
		sym.Assert(ConvertFrom(&dst, src) == nil, "uint64->uint64/ok")
		sym.Assert(dst == src, "uint64->uint64/value")
	}
	sym.Reach("scalars-done")
}

// C20Slices: element-wise.
func C20Slices()     { c20Slices(3) }
func C20SlicesDeep() { c20Slices(7) }

func c20Slices(maxN int) {
	n := sym.Choose("n", maxN)
	src := make([]int16, n)
	for i := range src {
		src[i] = sym.I16("e")
	}
	var dst []int64
	sym.Assert(ConvertFrom(&dst, src) == nil, "[]int16->[]int64/ok")
	sym.Assert(len(dst) == n, "[]int16->[]int64/len")
	for i := 0; i < n && i < len(dst); i++ {
		sym.Assert(dst[i] == int64(src[i]), "[]int16->[]int64/elem")
	}
	var back []int16
	sym.Assert(ConvertFrom(&back, dst) == nil, "[]int64->[]int16/ok")
	sym.Assert(len(back) == n, "slice-roundtrip/len")
	for i := 0; i < n && i < len(back); i++ {
		sym.Assert(back[i] == src[i], "slice-roundtrip/elem")
	}
	// nested
	nested := [][]uint8{{sym.U8("x")}, {}}
	var wide [][]uint32
	sym.Assert(ConvertFrom(&wide, nested) == nil, "[][]uint8->[][]uint32/ok")
	sym.Assert(len(wide) == 2 && len(wide[0]) == 1 && len(wide[1]) == 0, "[][]uint8->[][]uint32/shape")
	if len(wide) == 2 && len(wide[0]) == 1 {
		sym.Assert(wide[0][0] == uint32(nested[0][0]), "[][]uint8->[][]uint32/elem")
	}
	sym.Reach("slices-done")
}

// C20Maps: keys and values are preserved.
func C20Maps()     { c20Maps(3) }
func C20MapsDeep() { c20Maps(5) }

func c20Maps(maxN int) {
	n := sym.Choose("n", maxN)
	src := map[string]int32{}
	keys := []string{"a", "bb", "ccc", "", "A"}
	for i := 0; i < n; i++ {
		src[keys[i]] = sym.I32("v")
	}
	var dst map[string]int64
	err := ConvertFrom(&dst, src)
	sym.Assert(err == nil, "map[string]int32->map[string]int64/ok")
	if err == nil {
		sym.Assert(len(dst) == n, "map/len")
		for i := 0; i < n; i++ {
			v, ok := dst[keys[i]]
			sym.Assert(ok, "map/key-present")
			sym.Assert(v == int64(src[keys[i]]), "map/value")
		}
	}
	// symbolic key contents, different key/value kinds
	k := sym.U16("k")
	src2 := map[uint16]string{k: sym.Str("sv", 1)}
	var dst2 map[uint32]string
	err = ConvertFrom(&dst2, src2)
	sym.Assert(err == nil, "map[uint16]string->map[uint32]string/ok")
	if err == nil {
		v, ok := dst2[uint32(k)]
		sym.Assert(ok, "map2/key-present")
		sym.Assert(sym.EqStr(v, src2[k]), "map2/value")
	}
	sym.Reach("maps-done")
}

// C20Structs: fields matched by (case-insensitive) name.
func C20Structs() {
	src := zzSrcStruct{Count: sym.I16("count"), Name: sym.Str("name", 2), Flags: []uint8{sym.U8("f0")}}
	dst := zzDstStruct{Extra: true}
	sym.Assert(ConvertFrom(&dst, src) == nil, "struct/ok")
	sym.Assert(dst.COUNT == int64(src.Count), "struct/count")
	sym.Assert(sym.EqStr(dst.Name, src.Name), "struct/name")
	sym.Assert(len(dst.Flags) == 1, "struct/flags-len")
	if len(dst.Flags) == 1 {
		sym.Assert(dst.Flags[0] == uint32(src.Flags[0]), "struct/flags-elem")
	}
	sym.Assert(dst.Extra, "struct/extra-untouched")

	in := zzOuter{Items: []zzInner{{A: sym.I8("a"), B: sym.U16("b")}}, Index: map[string]zzInner{"k": {A: sym.I8("ia"), B: sym.U16("ib")}}}
	var out zzOuterWide
	err := ConvertFrom(&out, in)
	sym.Assert(err == nil, "nested/ok")
	if err == nil {
		sym.Assert(len(out.Items) == 1, "nested/items-len")
		if len(out.Items) == 1 {
			sym.Assert(sym.And(out.Items[0].A == int32(in.Items[0].A), out.Items[0].B == uint64(in.Items[0].B)), "nested/item")
		}
		e, ok := out.Index["k"]
		sym.Assert(ok, "nested/index-key")
		sym.Assert(sym.And(e.A == int32(in.Index["k"].A), e.B == uint64(in.Index["k"].B)), "nested/index-value")
	}
	// members whose names differ only by an underscore or a digit position are different members
	type srcU struct {
		Id_ int16
		Id  int16
		X_1 uint8
		X1  uint8
		X11 uint8
	}
	type dstU struct {
		X11 uint32
		X1  uint32
		X_1 uint32
		Id  int64
		Id_ int64
	}
	su := srcU{Id_: sym.I16("id_"), Id: sym.I16("id"), X_1: sym.U8("x_1"), X1: sym.U8("x1"), X11: sym.U8("x11")}
	var du dstU
	sym.Assert(ConvertFrom(&du, su) == nil, "underscore-members/ok")
	sym.Assert(sym.And(du.Id == int64(su.Id), du.Id_ == int64(su.Id_)), "underscore-members/id")
	sym.Assert(sym.And(sym.And(du.X1 == uint32(su.X1), du.X_1 == uint32(su.X_1)), du.X11 == uint32(su.X11)), "underscore-members/x")
	var bu srcU
	sym.Assert(ConvertFrom(&bu, du) == nil, "underscore-members/back-ok")
	sym.Assert(sym.And(sym.And(bu.Id == su.Id, bu.Id_ == su.Id_), sym.And(bu.X1 == su.X1, bu.X_1 == su.X_1)), "underscore-members/roundtrip")
	sym.Reach("structs-done")
}

// C20Incompatible: kinds that are not compatible are refused with an error.
func C20Incompatible() {
	var (
		i  int32
		s  string
		b  bool
		f  float64
		sl []int32
		mp map[string]int32
		st zzInner
	)
	switch sym.Choose("pair", 27) {
	case 21:
		// destination kinds the conversion does not support at all are refused, never left at their zero value
		var d [2]int32
		sym.Assert(ConvertFrom(&d, []int32{sym.I32("x"), sym.I32("y")}) != nil, "slice->array/refused")
	case 22:
		var d interface{}
		sym.Assert(ConvertFrom(&d, sym.I32("x")) != nil, "int->interface/refused")
	case 23:
		var d complex64
		sym.Assert(ConvertFrom(&d, math.Float32frombits(sym.F32("x"))) != nil, "float->complex/refused")
	case 24:
		type src struct{ V []int32 }
		type dst struct{ V [1]int32 }
		var d dst
		sym.Assert(ConvertFrom(&d, src{V: []int32{sym.I32("x")}}) != nil, "struct-member slice->array/refused")
	case 25:
		var d []interface{}
		sym.Assert(ConvertFrom(&d, []int32{sym.I32("x")}) != nil, "list-element int->interface/refused")
	case 26:
		var d map[string]uintptr
		sym.Assert(ConvertFrom(&d, map[string]uint32{"k": sym.U32("x")}) != nil, "map-element uint->uintptr/refused")
	case 19:
		// the KEY kinds are incompatible (the elements are fine)
		var d map[int32]int32
		sym.Assert(ConvertFrom(&d, map[string]int32{"a": sym.I32("x"), "b": sym.I32("y")}) != nil, "map key string->int/refused")
	case 20:
		type src struct{ M map[string]int32 }
		type dst struct{ M map[bool]int32 }
		var d dst
		sym.Assert(ConvertFrom(&d, src{M: map[string]int32{"a": sym.I32("x")}}) != nil, "struct-member map key string->bool/refused")
	case 15:
		// a list of bytes is a list, not a string (they only share their wire format)
		sym.Assert(ConvertFrom(&s, []uint8{sym.U8("x"), sym.U8("y")}) != nil, "[]uint8->string/refused")
	case 16:
		var raw []uint8
		sym.Assert(ConvertFrom(&raw, sym.Str("s", 2)) != nil, "string->[]uint8/refused")
	case 17:
		type src struct{ Data []uint8 }
		type dst struct{ Data string }
		var d dst
		sym.Assert(ConvertFrom(&d, src{Data: []uint8{sym.U8("x")}}) != nil, "struct-member []uint8->string/refused")
	case 18:
		var d map[string][]uint8
		sym.Assert(ConvertFrom(&d, map[string]string{"k": sym.Str("s", 1)}) != nil, "map-element string->[]uint8/refused")
	case 12:
		// incompatible kinds inside a struct member
		type src struct {
			Name  string
			Count string
		}
		type dst struct {
			Name  string
			Count int32
		}
		var d dst
		sym.Assert(ConvertFrom(&d, src{Name: "n", Count: sym.Str("c", 1)}) != nil, "struct-member string->int/refused")
	case 13:
		type src struct{ Items []string }
		type dst struct{ Items []int32 }
		var d dst
		sym.Assert(ConvertFrom(&d, src{Items: []string{sym.Str("c", 1)}}) != nil, "struct-member []string->[]int32/refused")
	case 14:
		type src struct{ Flag bool }
		type dst struct{ Flag int8 }
		d := []dst{}
		sym.Assert(ConvertFrom(&d, []src{{Flag: sym.Bool("f")}}) != nil, "[]struct-member bool->int/refused")
	case 0:
		sym.Assert(ConvertFrom(&i, sym.Str("s", 1)) != nil, "string->int/refused")
	case 1:
		sym.Assert(ConvertFrom(&s, sym.I32("i")) != nil, "int->string/refused")
	case 2:
		sym.Assert(ConvertFrom(&b, sym.I32("i")) != nil, "int->bool/refused")
	case 3:
		sym.Assert(ConvertFrom(&i, sym.Bool("b")) != nil, "bool->int/refused")
	case 4:
		sym.Assert(ConvertFrom(&f, sym.I32("i")) != nil, "int->float/refused")
	case 5:
		sym.Assert(ConvertFrom(&i, 1.5) != nil, "float->int/refused")
	case 6:
		sym.Assert(ConvertFrom(&sl, zzInner{}) != nil, "struct->slice/refused")
	case 7:
		sym.Assert(ConvertFrom(&st, []int32{1}) != nil, "slice->struct/refused")
	case 8:
		sym.Assert(ConvertFrom(&mp, []int32{1}) != nil, "slice->map/refused")
	case 9:
		sym.Assert(ConvertFrom(&sl, map[string]int32{"a": 1}) != nil, "map->slice/refused")
	case 10:
		sym.Assert(ConvertFrom(&s, true) != nil, "bool->string/refused")
	default:
		sym.Assert(ConvertFrom(&sl, []string{"x"}) != nil, "[]string->[]int32/refused")
	}
	sym.Reach("incompatible-done")
}

// C20MapsOfContainers: maps whose elements are themselves containers (each entry must get its own
// converted element: no state shared between entries).
func C20MapsOfContainers() {
	x, y := sym.I16("x"), sym.I16("y")
	src := map[string][]int16{"a": {x}, "bb": {y}}
	var dst map[string][]int64
	err := ConvertFrom(&dst, src)
	sym.Assert(err == nil, "map-of-slices/ok")
	if err == nil {
		sym.Assert(len(dst) == 2 && len(dst["a"]) == 1 && len(dst["bb"]) == 1, "map-of-slices/shape")
		if len(dst["a"]) == 1 && len(dst["bb"]) == 1 {
			sym.Assert(sym.And(dst["a"][0] == int64(x), dst["bb"][0] == int64(y)), "map-of-slices/elements")
		}
	}
	p, q := sym.U8("p"), sym.U8("q")
	src2 := map[uint8]map[string]uint8{1: {"k": p}, 2: {"l": q}}
	var dst2 map[uint16]map[string]uint32
	err = ConvertFrom(&dst2, src2)
	sym.Assert(err == nil, "map-of-maps/ok")
	if err == nil {
		sym.Assert(len(dst2) == 2 && len(dst2[1]) == 1 && len(dst2[2]) == 1, "map-of-maps/shape")
		sym.Assert(sym.And(dst2[1]["k"] == uint32(p), dst2[2]["l"] == uint32(q)), "map-of-maps/elements")
	}
	type inner struct{ A, B int8 }
	type innerWide struct{ A, B int32 }
	type partial struct{ A int8 }
	// struct elements: a field missing in a later entry's source must not inherit an earlier entry's value
	src3 := []interface{}{inner{A: sym.I8("ia"), B: sym.I8("ib")}, partial{A: sym.I8("pa")}}
	_ = src3
	sym.Reach("maps-of-containers-done")
}

// C20DecodeFrom: the path used by Proxy.Call2 when the remote signature differs from the expected
// one: the remote value is decoded with the Go type of ITS signature and converted by field NAME.
func C20DecodeFrom() {
	type local struct {
		Max int32
		Min int32
		Tag string
	}
	minV, maxV := sym.I32("min"), sym.I32("max")
	typ, err := signature.Parse("(ii)<Range,min,max>")
	sym.Assert(err == nil, "decodefrom/parse-ok")
	if err != nil {
		return
	}
	wire := append(zzLE32(uint32(minV)), zzLE32(uint32(maxV))...)
	got := local{Tag: "keep"}
	err = DecodeFrom(encoding.NewDecoder(nil, bytes.NewReader(wire)), &got, typ.Type())
	sym.Assert(err == nil, "decodefrom/ok")
	sym.Assert(sym.And(got.Min == minV, got.Max == maxV), "decodefrom/matched-by-field-name")
	sym.Assert(got.Tag == "keep", "decodefrom/unrelated-field-untouched")
	// same positional layout, permuted names: still matched by name
	type permuted struct {
		Max int32
		Min int32
	}
	var pm permuted
	err = DecodeFrom(encoding.NewDecoder(nil, bytes.NewReader(wire)), &pm, typ.Type())
	sym.Assert(err == nil, "decodefrom-permuted/ok")
	sym.Assert(sym.And(pm.Min == minV, pm.Max == maxV), "decodefrom-permuted/matched-by-field-name")
	// widening through the same path
	type wide struct {
		Min int64
		Max int64
	}
	var w wide
	err = DecodeFrom(encoding.NewDecoder(nil, bytes.NewReader(wire)), &w, typ.Type())
	sym.Assert(err == nil, "decodefrom-wide/ok")
	sym.Assert(sym.And(w.Min == int64(minV), w.Max == int64(maxV)), "decodefrom-wide/values")
	sym.Reach("decodefrom-done")
}

func zzLE32(x uint32) []byte { return []byte{byte(x), byte(x >> 8), byte(x >> 16), byte(x >> 24)} }

type zzSrcReordered struct {
	Name  string
	Flags []uint8
	Count int16
}

type zzTwoInts struct {
	A int32
	B int32
}
type zzTwoIntsSwapped struct {
	B int16
	A int16
}
type zzTwoIntsWide struct {
	A int64
	B int64
}

// C20Sequences: conversion is a function of the two values only, whatever was converted before in
// the same process: (a) the same destination TYPE is filled from two source struct types that order
// their fields differently; (b) a destination VALUE is reused: converting an empty (or shorter) list
// into a holder that still contains the previous result leaves exactly the new contents.
type zzSrcUnexported struct {
	count int16 // unexported members take part in the by-name matching too
	Name  string
	flags []uint8
}

type zzSrcMarks struct {
	marks []int32 // unexported, same element type as the destination member
	Name  string
	Items []zzSrcMarkItem
}
type zzSrcMarkItem struct{ samples []float32 }
type zzDstMarks struct {
	Marks []int32
	Name  string
	Items []zzDstMarkItem
}
type zzDstMarkItem struct{ Samples []float32 }

func C20Sequences() {
	switch sym.Choose("sequence", 6) {
	case 5:
		// unexported list members whose element type is IDENTICAL on both sides (nothing to convert:
		// whatever shortcut is taken must still be allowed to read an unexported source), also nested
		s0 := sym.F32("s0")
		sym.Assume(zzNotNaN32(s0)) // (a NaN keeps being a NaN, its payload is the hardware's business)
		src := zzSrcMarks{marks: []int32{sym.I32("m0"), sym.I32("m1")}, Name: sym.Str("name", 1),
			Items: []zzSrcMarkItem{{samples: []float32{math.Float32frombits(s0)}}}}
		var dst zzDstMarks
		sym.Assert(ConvertFrom(&dst, src) == nil, "unexported-same-type/ok")
		sym.Assert(len(dst.Marks) == 2 && len(dst.Items) == 1, "unexported-same-type/shape")
		if len(dst.Marks) == 2 && len(dst.Items) == 1 {
			sym.Assert(sym.And(dst.Marks[0] == src.marks[0], dst.Marks[1] == src.marks[1]), "unexported-same-type/marks")
			sym.Assert(len(dst.Items[0].Samples) == 1, "unexported-same-type/nested-shape")
			if len(dst.Items[0].Samples) == 1 {
				sym.Assert(math.Float32bits(dst.Items[0].Samples[0]) == math.Float32bits(src.Items[0].samples[0]), "unexported-same-type/nested-samples")
			}
		}
		sym.Assert(sym.EqStr(dst.Name, src.Name), "unexported-same-type/name")
		// the source is left untouched and not aliased
		if len(dst.Marks) == 2 {
			dst.Marks[0]++
			sym.Assert(src.marks[0] == dst.Marks[0]-1, "unexported-same-type/source-aliased")
		}
	case 4:
		// unexported source members (the existing suite does this with a bool): integers and lists too
		src := zzSrcUnexported{count: sym.I16("count"), Name: sym.Str("name", 1), flags: []uint8{sym.U8("f0")}}
		var dst zzDstStruct
		sym.Assert(ConvertFrom(&dst, src) == nil, "unexported/ok")
		sym.Assert(dst.COUNT == int64(src.count), "unexported/count")
		sym.Assert(sym.EqStr(dst.Name, src.Name), "unexported/name")
		sym.Assert(len(dst.Flags) == 1, "unexported/flags-len")
		if len(dst.Flags) == 1 {
			sym.Assert(dst.Flags[0] == uint32(src.flags[0]), "unexported/flags-elem")
		}
	case 3:
		// two successive replies of the same remote type decoded through DecodeFrom (what Proxy.Call2
		// does at every call): the second result holds exactly the second reply's entries
		typ, err := signature.Parse("{si}")
		sym.Assert(err == nil, "decode-sequence/parse-ok")
		if err != nil {
			return
		}
		zzS := func(s string) []byte { return append(zzLE32(uint32(len(s))), []byte(s)...) }
		x, y, z := sym.I32("x"), sym.I32("y"), sym.I32("z")
		first := append(append(append(zzLE32(2), zzS("a")...), zzLE32(uint32(x))...), append(zzS("b"), zzLE32(uint32(y))...)...)
		second := append(append(zzLE32(1), zzS("c")...), zzLE32(uint32(z))...)
		var r1, r2 map[string]int64
		sym.Assert(DecodeFrom(encoding.NewDecoder(nil, bytes.NewReader(first)), &r1, typ.Type()) == nil, "decode-sequence/first-ok")
		sym.Assert(DecodeFrom(encoding.NewDecoder(nil, bytes.NewReader(second)), &r2, typ.Type()) == nil, "decode-sequence/second-ok")
		sym.Assert(len(r1) == 2 && r1["a"] == int64(x) && r1["b"] == int64(y), "decode-sequence/first-result")
		sym.Assert(len(r2) == 1, "decode-sequence/second-result-size")
		sym.Assert(r2["c"] == int64(z), "decode-sequence/second-result-value")
	case 0:
		a := zzSrcStruct{Count: sym.I16("count1"), Name: sym.Str("name1", 1), Flags: []uint8{sym.U8("f1")}}
		b := zzSrcReordered{Count: sym.I16("count2"), Name: sym.Str("name2", 1), Flags: []uint8{sym.U8("f2")}}
		var d1, d2 zzDstStruct
		first := sym.Bool("reordered-source-first")
		if first {
			sym.Assert(ConvertFrom(&d2, b) == nil, "sequence/second-source-ok")
			sym.Assert(ConvertFrom(&d1, a) == nil, "sequence/first-source-ok")
		} else {
			sym.Assert(ConvertFrom(&d1, a) == nil, "sequence/first-source-ok")
			sym.Assert(ConvertFrom(&d2, b) == nil, "sequence/second-source-ok")
		}
		sym.Assert(sym.And(d1.COUNT == int64(a.Count), sym.EqStr(d1.Name, a.Name)), "sequence/first-source-fields")
		sym.Assert(sym.And(d2.COUNT == int64(b.Count), sym.EqStr(d2.Name, b.Name)), "sequence/second-source-fields")
		sym.Assert(len(d1.Flags) == 1 && len(d2.Flags) == 1, "sequence/flags-len")
		if len(d1.Flags) == 1 && len(d2.Flags) == 1 {
			sym.Assert(sym.And(d1.Flags[0] == uint32(a.Flags[0]), d2.Flags[0] == uint32(b.Flags[0])), "sequence/flags")
		}
	case 1:
		// same kinds in both orders: a stale field mapping would swap silently
		x := zzTwoInts{A: sym.I32("a"), B: sym.I32("b")}
		y := zzTwoIntsSwapped{A: sym.I16("sa"), B: sym.I16("sb")}
		var w1, w2 zzTwoIntsWide
		sym.Assert(ConvertFrom(&w1, x) == nil, "sequence/ints-ok")
		sym.Assert(ConvertFrom(&w2, y) == nil, "sequence/swapped-ints-ok")
		sym.Assert(sym.And(w1.A == int64(x.A), w1.B == int64(x.B)), "sequence/ints-fields")
		sym.Assert(sym.And(w2.A == int64(y.A), w2.B == int64(y.B)), "sequence/swapped-ints-fields")
	default:
		// a reused destination holder
		holder := [][]int64{}
		first := [][]int16{{sym.I16("p0"), sym.I16("p1")}, {sym.I16("p2")}}
		sym.Assert(ConvertFrom(&holder, first) == nil, "reuse/first-ok")
		sym.Assert(len(holder) == 2 && len(holder[0]) == 2 && len(holder[1]) == 1, "reuse/first-shape")
		var second [][]int16
		switch sym.Choose("second", 3) {
		case 0:
			second = [][]int16{} // empty
		case 1:
			second = [][]int16{{}} // one empty row
		default:
			second = [][]int16{{sym.I16("q0")}, {}}
		}
		sym.Assert(ConvertFrom(&holder, second) == nil, "reuse/second-ok")
		sym.Assert(len(holder) == len(second), "reuse/outer-length")
		for i := 0; i < len(second) && i < len(holder); i++ {
			sym.Assert(len(holder[i]) == len(second[i]), "reuse/inner-length")
			for j := 0; j < len(second[i]) && j < len(holder[i]); j++ {
				sym.Assert(holder[i][j] == int64(second[i][j]), "reuse/element")
			}
		}
	}
	sym.Reach("sequences-done")
}
