package signature

// Native oracle for signature.Parse on CONCRETE strings (the parser is goparsec/regexp and cannot
// be put in front of the solver). The symbolic engine asks this process for the type tree and
// rebuilds it with the interpreted constructors, so readers, printers and Go types still come from
// the code under test.

import (
	"bufio"
	"encoding/hex"
	"encoding/json"
	"fmt"
	"os"
	"testing"
)

type zzNode struct {
	K       string    `json:"k"`
	Sig     string    `json:"sig,omitempty"`
	Name    string    `json:"name,omitempty"`
	Elems   []*zzNode `json:"elems,omitempty"`
	Members []string  `json:"members,omitempty"`
	Err     string    `json:"err,omitempty"`
}

func zzDump(t Type) *zzNode {
	if t == nil {
		// a member without a type (a half-built tree): handed on as it is, so that the code under test meets it
		return &zzNode{K: "nil"}
	}
	switch v := t.(type) {
	case *typeConstructor:
		return &zzNode{K: "basic", Sig: v.signature}
	case *ListType:
		return &zzNode{K: "list", Elems: []*zzNode{zzDump(v.value)}}
	case *MapType:
		return &zzNode{K: "map", Elems: []*zzNode{zzDump(v.key), zzDump(v.value)}}
	case *TupleType:
		n := &zzNode{K: "tuple"}
		for _, m := range v.Members {
			n.Elems = append(n.Elems, zzDump(m.Type))
			n.Members = append(n.Members, m.Name)
		}
		return n
	case *StructType:
		n := &zzNode{K: "struct", Name: v.Name}
		for _, m := range v.Members {
			n.Elems = append(n.Elems, zzDump(m.Type))
			n.Members = append(n.Members, m.Name)
		}
		return n
	}
	return &zzNode{K: "unsupported", Err: fmt.Sprintf("%T", t)}
}

func TestVerifSigOracle(t *testing.T) {
	if os.Getenv("VERIF_SIGORACLE") == "" {
		t.Skip("oracle mode only")
	}
	sc := bufio.NewScanner(os.Stdin)
	sc.Buffer(make([]byte, 1<<20), 1<<20)
	out := bufio.NewWriter(os.Stdout)
	for sc.Scan() {
		raw, err := hex.DecodeString(sc.Text())
		var n *zzNode
		if err != nil {
			n = &zzNode{K: "error", Err: "bad hex"}
		} else {
			func() {
				defer func() {
					if r := recover(); r != nil {
						n = &zzNode{K: "panic", Err: fmt.Sprint(r)}
					}
				}()
				typ, perr := Parse(string(raw))
				if perr != nil {
					n = &zzNode{K: "error", Err: perr.Error()}
				} else {
					n = zzDump(typ)
				}
			}()
		}
		d, _ := json.Marshal(n)
		fmt.Fprintf(out, "ORACLE %s\n", d)
		out.Flush()
	}
}
