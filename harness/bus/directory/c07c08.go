//go:build verif

package directory

import (
	"bytes"

	"github.com/lugu/qiloop/internal/zzverif/sym"
)

func zzServiceInfo() ServiceInfo {
	info := ServiceInfo{
		Name:      sym.Str("name", 1),
		ServiceId: sym.U32("sid"),
		MachineId: sym.Str("machine", 1),
		ProcessId: sym.U32("pid"),
		SessionId: sym.Str("session", 1),
		ObjectUid: "",
	}
	n := sym.Choose("endpoints", 3)
	for i := 0; i < n; i++ {
		info.Endpoints = append(info.Endpoints, sym.Str("endpoint", 1))
	}
	return info
}

// C08ServiceInfo: strict prefixes of an encoded ServiceInfo are refused; the whole decodes equal.
func C08ServiceInfo() {
	info := zzServiceInfo()
	var buf bytes.Buffer
	sym.Assert(writeServiceInfo(info, &buf) == nil, "encode-ok")
	enc := buf.Bytes()
	full, err := readServiceInfo(bytes.NewReader(enc))
	sym.Assert(err == nil, "full-decodes")
	sym.Assert(sym.And(sym.EqStr(full.Name, info.Name), full.ServiceId == info.ServiceId), "full-equal")
	sym.Assert(len(full.Endpoints) == len(info.Endpoints), "full-endpoints")
	k := sym.Concrete(sym.Int("cut", 0, len(enc)-1))
	_, err = readServiceInfo(bytes.NewReader(enc[:k]))
	sym.Assert(err != nil, "truncated-serviceinfo")
	sym.Reach("cut-checked")
}

func c07ServiceInfo(maxN int) {
	n := sym.Choose("n", maxN+1)
	in := sym.Bytes("in", n)
	sym.Bounded(16<<20+64*n, n+8, func() {
		_, err := readServiceInfo(bytes.NewReader(in))
		if err == nil {
			sym.Reach("decoded")
		} else {
			sym.Reach("rejected")
		}
	})
}

// C07ServiceInfo: arbitrary bytes into the ServiceInfo decoder.
func C07ServiceInfo()     { c07ServiceInfo(12) }
func C07ServiceInfoDeep() { c07ServiceInfo(24) }

// C07ServiceInfoMutated: a valid encoding with one 32-bit field (any aligned-or-not position)
// replaced by an arbitrary value: "length fields set to 0xFFFFFFFF or negative".
func C07ServiceInfoMutated() {
	info := ServiceInfo{Name: "a", ServiceId: 1, MachineId: "m", ProcessId: 2, Endpoints: []string{"e"}, SessionId: "s", ObjectUid: "u"}
	var buf bytes.Buffer
	writeServiceInfo(info, &buf)
	enc := append([]byte{}, buf.Bytes()...)
	pos := sym.Choose("pos", len(enc)-3)
	v := sym.U32("field")
	enc[pos], enc[pos+1], enc[pos+2], enc[pos+3] = byte(v), byte(v>>8), byte(v>>16), byte(v>>24)
	sym.Bounded(16<<20+64*len(enc), len(enc)+8, func() {
		_, err := readServiceInfo(bytes.NewReader(enc))
		if err == nil {
			sym.Reach("decoded")
		} else {
			sym.Reach("rejected")
		}
	})
}
