//go:build verif

package directory

import (
	"errors"
	"github.com/lugu/qiloop/bus/util"

	"github.com/lugu/qiloop/bus"
	"github.com/lugu/qiloop/bus/net"
	"github.com/lugu/qiloop/internal/zzverif/sym"
)

type zzSignal struct {
	added bool
	id    uint32
	name  string
}

type zzSignals struct {
	log  []zzSignal
	slow bool // emitting takes time: other goroutines may run meanwhile
	fail bool // the delivery to some subscriber fails: the helper reports an error (the event was emitted)
}

var errZZDelivery = errors.New("a subscriber is unreachable")

func (s *zzSignals) SignalServiceAdded(id uint32, name string) error {
	if s.slow {
		sym.Yield()
	}
	s.log = append(s.log, zzSignal{true, id, name})
	if s.fail {
		return errZZDelivery
	}
	return nil
}
func (s *zzSignals) SignalServiceRemoved(id uint32, name string) error {
	if s.slow {
		sym.Yield()
	}
	s.log = append(s.log, zzSignal{false, id, name})
	if s.fail {
		return errZZDelivery
	}
	return nil
}

type zzEntry struct {
	id      uint32
	name    string
	staging bool
}

func zzInfo(name string, id uint32) ServiceInfo {
	return ServiceInfo{Name: name, ServiceId: id, MachineId: "m", ProcessId: 1, Endpoints: []string{"tcp://e"}}
}

// zzPreState builds an arbitrary directory state satisfying the representation invariant:
// ids distinct, 1 <= id <= lastID, names distinct and non-empty, entry id == map key.
func zzPreState(n int) (*serviceDirectory, *zzSignals, []zzEntry) {
	d := serviceDirectoryImpl()
	sig := &zzSignals{}
	d.signal = sig
	d.lastID = sym.U32("lastID")
	var es []zzEntry
	for i := 0; i < n; i++ {
		e := zzEntry{id: sym.U32("entry-id"), name: sym.Str("entry-name", 1), staging: sym.Bool("entry-staging")}
		sym.Assume(e.id >= 1)
		sym.Assume(e.id <= d.lastID)
		for _, o := range es {
			sym.Assume(o.id != e.id)
			sym.Assume(o.name != e.name)
		}
		es = append(es, e)
		if e.staging {
			d.staging[e.id] = zzInfo(e.name, e.id)
		} else {
			d.services[e.id] = zzInfo(e.name, e.id)
		}
	}
	return d, sig, es
}

// zzCheckState: the implementation's maps are exactly the model's entries.
func zzCheckState(d *serviceDirectory, es []zzEntry, label string) {
	ns, nr := 0, 0
	for _, e := range es {
		if e.staging {
			ns++
			got, ok := d.staging[e.id]
			sym.Assert(ok, label+"/staging-entry-missing")
			sym.Assert(got.Name == e.name && got.ServiceId == e.id, label+"/staging-entry-altered")
			_, also := d.services[e.id]
			sym.Assert(!also, label+"/entry-in-both-maps")
		} else {
			nr++
			got, ok := d.services[e.id]
			sym.Assert(ok, label+"/ready-entry-missing")
			sym.Assert(got.Name == e.name && got.ServiceId == e.id, label+"/ready-entry-altered")
			_, also := d.staging[e.id]
			sym.Assert(!also, label+"/entry-in-both-maps")
		}
	}
	sym.Assert(len(d.staging) == ns, label+"/staging-size")
	sym.Assert(len(d.services) == nr, label+"/services-size")
}

// c15Step: the inductive step of sequential conformance. One operation with arbitrary arguments from
// an arbitrary valid state; result, post-state, visibility and signals agree with the reference model.
func c15Step(maxN int) {
	d, sig, es := zzPreState(sym.Choose("entries", maxN+1))
	sym.Assume(d.lastID < 0xffffffff)
	lastID := d.lastID
	// an unreachable subscriber makes the signal helper report an error: the transition and its
	// (single) event are the same
	sig.fail = sym.Bool("event-delivery-fails")
	switch sym.Choose("op", 6) {
	case 0: // register
		name := sym.Str("name", sym.Choose("name-len", 2))
		if sym.Bool("well-known-name") {
			// the directory's own name is a name like any other (it registers itself through this path)
			name = "ServiceDirectory"
		}
		id, err := d.RegisterService(zzInfo(name, sym.U32("claimed-id")))
		taken := name == ""
		for _, e := range es {
			if e.name == name {
				taken = true
			}
		}
		if taken {
			sym.Assert(err != nil, "register/name-held-twice-or-empty")
			zzCheckState(d, es, "register-refused")
		} else {
			sym.Assert(err == nil, "register/free-name-refused")
			sym.Assert(id == lastID+1, "register/id-not-strictly-increasing")
			for _, e := range es {
				sym.Assert(e.id != id, "register/id-reused")
			}
			es = append(es, zzEntry{id: id, name: name, staging: true})
			zzCheckState(d, es, "register")
			sym.Assert(d.lastID == id, "register/lastID")
		}
		sym.Assert(len(sig.log) == 0, "register/signal-emitted")
	case 1: // ready
		id := sym.U32("id")
		err := d.ServiceReady(id)
		found := -1
		for i, e := range es {
			if e.id == id && e.staging {
				found = i
			}
		}
		if found >= 0 {
			sym.Assert(err == nil, "ready/refused")
			es[found].staging = false
			sym.Assert(len(sig.log) == 1, "ready/signal-count")
			if len(sig.log) == 1 {
				sym.Assert(sig.log[0].added && sig.log[0].id == id && sig.log[0].name == es[found].name, "ready/signal-content")
			}
		} else {
			sym.Assert(err != nil, "ready/unknown-id-accepted")
			sym.Assert(len(sig.log) == 0, "ready/signal-emitted")
		}
		zzCheckState(d, es, "ready")
	case 2: // unregister
		id := sym.U32("id")
		err := d.UnregisterService(id)
		found := -1
		for i, e := range es {
			if e.id == id {
				found = i
			}
		}
		if found >= 0 {
			sym.Assert(err == nil, "unregister/refused")
			if es[found].staging {
				sym.Assert(len(sig.log) == 0, "unregister/signal-for-staging-service")
			} else {
				sym.Assert(len(sig.log) == 1, "unregister/signal-count")
				if len(sig.log) == 1 {
					sym.Assert(!sig.log[0].added && sig.log[0].id == id && sig.log[0].name == es[found].name, "unregister/signal-content")
				}
			}
			es = append(es[:found:found], es[found+1:]...)
		} else {
			sym.Assert(err != nil, "unregister/unknown-id-accepted")
			sym.Assert(len(sig.log) == 0, "unregister/signal-emitted")
		}
		zzCheckState(d, es, "unregister")
		sym.Assert(d.lastID == lastID, "unregister/lastID-changed")
	case 3: // update
		id := sym.U32("id")
		name := sym.Str("name", 1)
		info := zzInfo(name, id)
		info.SessionId = "changed"
		err := d.UpdateServiceInfo(info)
		found := -1
		for i, e := range es {
			if e.id == id && !e.staging {
				found = i
			}
		}
		if found >= 0 && es[found].name == name {
			sym.Assert(err == nil, "update/refused")
			sym.Assert(d.services[id].SessionId == "changed", "update/not-applied")
		} else {
			sym.Assert(err != nil, "update/changed-name-or-identity")
		}
		zzCheckState(d, es, "update")
		sym.Assert(len(sig.log) == 0, "update/signal-emitted")
	case 4: // lookup
		name := sym.Str("name", 1)
		info, err := d.Service(name)
		found := -1
		for i, e := range es {
			if e.name == name && !e.staging {
				found = i
			}
		}
		if found >= 0 {
			sym.Assert(err == nil, "lookup/visible-service-not-found")
			sym.Assert(info.ServiceId == es[found].id, "lookup/wrong-service")
		} else {
			sym.Assert(err != nil, "lookup/invisible-service-found")
		}
	default: // list
		list, err := d.Services()
		sym.Assert(err == nil, "list/error")
		nr := 0
		for _, e := range es {
			if !e.staging {
				nr++
				seen := false
				for _, i := range list {
					if i.ServiceId == e.id && i.Name == e.name {
						seen = true
					}
				}
				sym.Assert(seen, "list/visible-service-missing")
			}
		}
		sym.Assert(len(list) == nr, "list/size")
		for i := 1; i < len(list); i++ {
			sym.Assert(list[i-1].ServiceId < list[i].ServiceId, "list/not-sorted")
		}
	}
	// liveness: whatever the operation was and however it ended, the directory still answers the next
	// one (an operation that returns with the directory locked is a dead lock finding here)
	_, err := d.Services()
	sym.Assert(err == nil, "directory-answers-the-next-operation")
	sym.Reach("step-done")
}

func C15Step()     { c15Step(2) }
func C15StepDeep() { c15Step(3) }

// C15Concurrent: the hosting server's local path (Namespace.Reserve/Enable, called directly by
// server.NewService) runs concurrently with a registration executed on behalf of a remote client:
// the outcome must equal one of the two serial orders (distinct ids, both registered).
func C15Concurrent() {
	sym.RacyScope("bus/directory.")
	d := serviceDirectoryImpl()
	d.signal = &zzSignals{}
	ns := d.Namespace("tcp://local")
	done := make(chan bool, 2)
	var idLocal, idRemote uint32
	var errLocal, errRemote error
	go func() {
		idLocal, errLocal = ns.Reserve("local")
		done <- true
	}()
	go func() {
		// what the object's mailbox goroutine does for a remote registerService call
		idRemote, errRemote = d.RegisterService(zzInfo("remote", 0))
		done <- true
	}()
	<-done
	<-done
	sym.Assert(errLocal == nil && errRemote == nil, "concurrent/registration-failed")
	sym.Assert(idLocal != idRemote, "concurrent/same-id-issued-twice")
	sym.Assert(len(d.staging) == 2, "concurrent/registration-lost")
	sym.Assert(d.lastID == 2, "concurrent/lastID")
	sym.Reach("concurrent-done")
}

// C15ConcurrentSignals: ready and unregister of the same service race (local path vs remote path):
// the emitted events must be explained by one of the two serial orders: [added, removed] when ready
// came first, nothing when unregister came first (ready then fails).
func C15ConcurrentSignals() {
	sym.RacyScope("bus/directory.")
	d := serviceDirectoryImpl()
	sig := &zzSignals{slow: true}
	d.signal = sig
	id, err := d.RegisterService(zzInfo("svc", 0))
	sym.Assert(err == nil, "signals/register")
	done := make(chan bool, 2)
	var errReady, errUnreg error
	go func() { errReady = d.ServiceReady(id); done <- true }()
	go func() { errUnreg = d.UnregisterService(id); done <- true }()
	<-done
	<-done
	sym.Assert(errUnreg == nil, "signals/unregister-failed")
	if errReady == nil {
		sym.Assert(len(sig.log) == 2, "signals/transition-without-its-event")
		if len(sig.log) == 2 {
			sym.Assert(sig.log[0].added && !sig.log[1].added, "signals/events-out-of-transition-order")
		}
	} else {
		sym.Assert(len(sig.log) == 0, "signals/event-without-transition")
	}
	_, lookupErr := d.Service("svc")
	sym.Assert(lookupErr != nil, "signals/service-visible-after-unregister")
	sym.Reach("signals-done")
}

// C15ConcurrentSameName: the local path and a remote client register the SAME free name at the same
// time (with an unrelated service already registered): exactly one of them gets it.
func C15ConcurrentSameName() {
	sym.RacyScope("bus/directory.")
	d := serviceDirectoryImpl()
	d.signal = &zzSignals{}
	_, err := d.RegisterService(zzInfo("other", 0))
	sym.Assert(err == nil, "same-name/setup")
	ns := d.Namespace("tcp://local")
	done := make(chan bool, 2)
	var idLocal, idRemote uint32
	var errLocal, errRemote error
	go func() {
		idLocal, errLocal = ns.Reserve("dup")
		done <- true
	}()
	go func() {
		idRemote, errRemote = d.RegisterService(zzInfo("dup", 0))
		done <- true
	}()
	<-done
	<-done
	sym.Assert((errLocal == nil) != (errRemote == nil), "same-name/name-held-twice-or-by-nobody")
	holders := 0
	for _, i := range d.staging {
		if i.Name == "dup" {
			holders++
		}
	}
	sym.Assert(holders == 1, "same-name/holders")
	sym.Assert(len(d.staging) == 2 && d.lastID == 2, "same-name/state")
	_, _ = idLocal, idRemote
	sym.Reach("same-name-done")
}

// C15UpdateVsUnregister: an update of a ready service races with its removal (remote update vs the
// hosting server's local Remove): whatever the order, once unregister has succeeded the service is gone:
// not visible to lookup or list, its name free again, exactly [added, removed] emitted.
func C15UpdateVsUnregister() {
	sym.RacyScope("bus/directory.")
	d := serviceDirectoryImpl()
	sig := &zzSignals{}
	d.signal = sig
	id, err := d.RegisterService(zzInfo("svc", 0))
	sym.Assert(err == nil, "update-race/register")
	sym.Assert(d.ServiceReady(id) == nil, "update-race/ready")
	done := make(chan bool, 2)
	var errUpdate, errUnreg error
	go func() {
		info := zzInfo("svc", id)
		info.Endpoints = []string{"tcp://moved"}
		errUpdate = d.UpdateServiceInfo(info)
		done <- true
	}()
	go func() { errUnreg = d.UnregisterService(id); done <- true }()
	<-done
	<-done
	sym.Assert(errUnreg == nil, "update-race/unregister-failed")
	_, lookupErr := d.Service("svc")
	sym.Assert(lookupErr != nil, "update-race/service-visible-after-unregister")
	list, _ := d.Services()
	sym.Assert(len(list) == 0, "update-race/service-listed-after-unregister")
	sym.Assert(len(sig.log) == 2, "update-race/events")
	_, err = d.RegisterService(zzInfo("svc", 0))
	sym.Assert(err == nil, "update-race/name-not-free-after-unregister")
	_ = errUpdate
	sym.Reach("update-race-done")
}

// zzIdleListener: a listener nobody connects to (the local path of the hosting server needs no connection).
type zzIdleListener struct{ closed chan struct{} }

func (l *zzIdleListener) Accept() (net.Stream, error) {
	<-l.closed
	return nil, errors.New("listener closed")
}
func (l *zzIdleListener) Close() error {
	select {
	case <-l.closed:
	default:
		close(l.closed)
	}
	return nil
}

type zzNopActor struct{}

func (zzNopActor) Receive(m *net.Message, from bus.Channel) error { return nil }
func (zzNopActor) Activate(a bus.Activation) error                { return nil }
func (zzNopActor) OnTerminate()                                   {}

// C15LocalPath: the hosting server's own operations (Server.NewService = reserve + ready,
// Service.Terminate = unregister) on a REAL server whose namespace is the directory, observed right
// after each call returns (real-time order): a service is visible exactly from NewService's return
// until Terminate's return, its name is free again afterwards, one added / one removed event.
func C15LocalPath() {
	d := serviceDirectoryImpl()
	sig := &zzSignals{}
	ns := d.Namespace("tcp://local")
	srv, err := bus.NewServer(&zzIdleListener{closed: make(chan struct{})}, bus.Yes{}, ns, ServiceDirectoryObject(d))
	sym.Assert(err == nil, "local/server-started")
	if err != nil {
		return
	}
	d.signal = sig // (the server activated the directory object with its own helper: observe through the harness one)
	service, err := srv.NewService("svc", zzNopActor{})
	sym.Assert(err == nil, "local/new-service")
	if err != nil {
		return
	}
	info, err := d.Service("svc")
	sym.Assert(err == nil && info.ServiceId == service.ServiceID(), "local/not-visible-after-new-service")
	sym.Assert(service.Terminate() == nil, "local/terminate")
	_, err = d.Service("svc")
	sym.Assert(err != nil, "local/visible-after-terminate-returned")
	_, err = ns.Resolve("svc")
	sym.Assert(err != nil, "local/resolvable-after-terminate-returned")
	again, err := srv.NewService("svc", zzNopActor{})
	sym.Assert(err == nil, "local/name-not-free-after-terminate-returned")
	if err == nil {
		sym.Assert(again.ServiceID() != service.ServiceID(), "local/id-reused")
	}
	sym.Quiesce()
	added, removed := 0, 0
	for _, e := range sig.log {
		if e.added {
			added++
		} else {
			removed++
		}
	}
	sym.Assert(added == 2 && removed == 1, "local/events")
	sym.Reach("local-path-done")
}

// C15MixedPaths: a history that crosses the two ways into the registry. The hosting server creates a
// service locally (Server.NewService); a REMOTE client then unregisters it, or unregisters it and registers
// the name again (new id), or updates its record; after each step the hosting server's own lookups
// (Namespace.Resolve, what its local session uses) agree with what every remote client is told by
// `service(name)`.
func C15MixedPaths() {
	d := serviceDirectoryImpl()
	ns := d.Namespace("tcp://local")
	srv, err := bus.NewServer(&zzIdleListener{closed: make(chan struct{})}, bus.Yes{}, ns, ServiceDirectoryObject(d))
	sym.Assert(err == nil, "mixed/server-started")
	if err != nil {
		return
	}
	d.signal = &zzSignals{}
	service, err := srv.NewService("svc", zzNopActor{})
	sym.Assert(err == nil, "mixed/new-service")
	if err != nil {
		return
	}
	agree := func(label string) {
		info, rerr := d.Service("svc")
		id, lerr := ns.Resolve("svc")
		sym.Assert((rerr == nil) == (lerr == nil), label+"/local-and-remote-lookups-disagree-on-presence")
		if rerr == nil && lerr == nil {
			sym.Assert(id == info.ServiceId, label+"/local-and-remote-lookups-disagree-on-the-id")
		}
	}
	agree("mixed/after-local-creation")
	info, _ := d.Service("svc")
	switch sym.Choose("remote-operation", 3) {
	case 0:
		sym.Assert(d.UnregisterService(service.ServiceID()) == nil, "mixed/remote-unregister-ok")
		agree("mixed/after-remote-unregister")
	case 1:
		sym.Assert(d.UnregisterService(service.ServiceID()) == nil, "mixed/remote-unregister-ok")
		again := info
		again.ServiceId = 0
		again.ProcessId = sym.U32("other-process")
		sym.Assume(again.ProcessId != 0)
		id, err := d.RegisterService(again)
		sym.Assert(err == nil, "mixed/remote-register-ok")
		agree("mixed/while-the-name-is-reserved")
		sym.Assert(d.ServiceReady(id) == nil, "mixed/remote-ready-ok")
		agree("mixed/after-remote-re-registration")
	default:
		upd := info
		upd.ProcessId = sym.U32("new-process")
		sym.Assume(upd.ProcessId != 0)
		sym.Assert(d.UpdateServiceInfo(upd) == nil, "mixed/remote-update-ok")
		agree("mixed/after-remote-update")
	}
	sym.Reach("mixed-paths-done")
}

// C15SlowHandshake: the register / ready handshake with ARBITRARY amounts of time passing between its steps
// (the clock is a solver variable): a second client asks for a name that is reserved but not ready yet,
// then both owners complete their handshake in either order. At most one ready service ever holds the name,
// `service(name)` is never ambiguous, and the name is announced as added once.
func C15SlowHandshake() {
	sym.SymbolicClock(true)
	d := serviceDirectoryImpl()
	sig := &zzSignals{}
	d.signal = sig
	a := zzInfo("svc", 0)
	b := zzInfo("svc", 0)
	b.ProcessId = 2
	id1, err := d.RegisterService(a)
	sym.Assert(err == nil, "slow/first-register-ok")
	id2, err2 := d.RegisterService(b)
	var r1, r2 error
	if sym.Bool("second-owner-completes-first") {
		if err2 == nil {
			r2 = d.ServiceReady(id2)
		}
		r1 = d.ServiceReady(id1)
	} else {
		r1 = d.ServiceReady(id1)
		if err2 == nil {
			r2 = d.ServiceReady(id2)
		}
	}
	list, _ := d.Services()
	holders := 0
	for _, i := range list {
		if i.Name == "svc" {
			holders++
		}
	}
	sym.Assert(holders <= 1, "slow/name-held-by-two-ready-services")
	if err2 == nil {
		sym.Assert(id1 != id2, "slow/id-issued-twice")
		sym.Assert(!(r1 == nil && r2 == nil), "slow/both-owners-of-one-name-became-ready")
	} else {
		sym.Assert(r1 == nil, "slow/first-owner-could-not-complete")
	}
	added := 0
	for _, e := range sig.log {
		if e.added {
			added++
		}
	}
	sym.Assert(added <= 1, "slow/name-announced-twice")
	sym.Reach("slow-handshake-done")
}

// C15RemoteReservationVsLocal: a REMOTE client reserves a name (register, not ready yet) with a record that
// may look exactly like what the hosting server itself would register (same machine, same process, the
// server's own addresses: a client living in the directory's process) or differ from it; the hosting server
// then tries to create a service of that name locally. The name is reserved: the local creation is refused,
// the identifier is not handed out a second time and the remote owner can still complete its handshake.
func C15RemoteReservationVsLocal() {
	d := serviceDirectoryImpl()
	ns := d.Namespace("tcp://local")
	srv, err := bus.NewServer(&zzIdleListener{closed: make(chan struct{})}, bus.Yes{}, ns, ServiceDirectoryObject(d))
	sym.Assert(err == nil, "reservation/server-started")
	if err != nil {
		return
	}
	d.signal = &zzSignals{}
	remote := ServiceInfo{Name: "demo", MachineId: util.MachineID(), ProcessId: util.ProcessID(), Endpoints: []string{"tcp://local"}}
	switch sym.Choose("remote-record", 3) {
	case 1:
		remote.ProcessId = util.ProcessID() + 1
	case 2:
		remote.Endpoints = []string{"tcp://elsewhere:1"}
	}
	id, err := d.RegisterService(remote)
	sym.Assert(err == nil, "reservation/remote-register-ok")
	local, err := srv.NewService("demo", zzNopActor{})
	sym.Assert(err != nil, "reservation/local-creation-accepted-while-the-name-is-reserved")
	if err == nil {
		sym.Assert(local.ServiceID() != id, "reservation/identifier-handed-out-twice")
	}
	sym.Assert(d.ServiceReady(id) == nil, "reservation/remote-owner-cannot-complete")
	info, err := d.Service("demo")
	sym.Assert(err == nil && info.ServiceId == id, "reservation/name-not-held-by-the-remote-owner")
	sym.Reach("reservation-done")
}
