//go:build verif

package bus

import (
	"sync"
	"sync/atomic"

	"github.com/lugu/qiloop/bus/net"
	"github.com/lugu/qiloop/internal/zzverif/sym"
	"github.com/lugu/qiloop/type/object"
)

// zzObj: a user object behind the generic object front (NewBasicObject): counts invocations of its
// own method (any action not handled by the generic object) and of its termination hook.
type zzObj struct {
	gate        chan struct{} // when set, the first message waits here (a slow method)
	gated       int32
	calls       int32
	terminated  int32
	id          uint32
	live        bool
	front       BasicObject
	seenMu      sync.Mutex
	seen        []*net.Message // every message handed to the user object, as it was handed over
	onTerminate func()         // what the termination hook does besides counting
}

func (o *zzObj) Receive(m *net.Message, from Channel) error {
	o.seenMu.Lock()
	o.seen = append(o.seen, m)
	o.seenMu.Unlock()
	if o.gate != nil && atomic.AddInt32(&o.gated, 1) == 1 {
		<-o.gate
	}
	atomic.AddInt32(&o.calls, 1)
	if m.Header.Type == net.Call {
		return from.SendReply(m, []byte{0x55})
	}
	return nil
}
func (o *zzObj) Activate(a Activation) error { return nil }
func (o *zzObj) OnTerminate() {
	atomic.AddInt32(&o.terminated, 1)
	if o.onTerminate != nil {
		o.onTerminate()
	}
}

func newZZObj() *zzObj {
	o := &zzObj{}
	o.front = NewBasicObject(o, object.MetaObject{Description: "zz"}, func(string, []byte) error { return nil })
	return o
}

func zzLE32(x uint32) []byte { return []byte{byte(x), byte(x >> 8), byte(x >> 16), byte(x >> 24)} }
func zzLE64(x uint64) []byte {
	return append(zzLE32(uint32(x)), zzLE32(uint32(x>>32))...)
}

// zzPickID: the id of one of the objects added so far, or an arbitrary id that is neither theirs nor
// the root's (ids are random: the harness never guesses them, so a replay works with any ids).
func zzPickID(objs []*zzObj, label string) uint32 {
	k := sym.Choose(label+"-target", len(objs)+1)
	if k < len(objs) {
		return objs[k].id
	}
	id := sym.U32(label + "-unknown-id")
	sym.Assume(id != 1)
	for _, o := range objs {
		sym.Assume(id != o.id)
	}
	return id
}

// zzRoundTrip sends one Call frame and returns the frames written back while it was processed.
func zzRoundTrip(a *zzStream, f net.Message) []net.Message {
	before := len(a.sentMessages())
	a.inject(f)
	sym.Quiesce()
	return a.sentMessages()[before:]
}

// c16Lifetime: add / remove / remote terminate / call / subscribe sequences on a service's objects.
func c16Lifetime(steps int) {
	srv, _, _, a := zzAuthedServer()
	root := newZZObj()
	service, err := srv.NewService("objects", root.front)
	sym.Assert(err == nil, "service-registered")
	if err != nil {
		return
	}
	sid := service.ServiceID()
	var objs []*zzObj
	msgID := uint32(50)
	next := func() uint32 { msgID++; return msgID }
	// a subscriber (another connection would do; the same authenticated one is enough to be "told")
	subscribed := map[*zzObj]uint32{}
	for step := 0; step < steps; step++ {
		switch sym.Choose("op", 5) {
		case 0: // add
			if len(objs) < 2 {
				o := newZZObj()
				id, err := service.Add(o.front)
				sym.Assert(err == nil, "add-ok")
				o.id, o.live = id, true
				sym.Assert(id != 1, "id-collides-with-root")
				for _, p := range objs {
					if p.live {
						sym.Assert(p.id != id, "id-not-unique-among-live-objects")
					}
				}
				objs = append(objs, o)
				// it is callable
				out := zzRoundTrip(a, zzFrame(net.Call, sid, id, 1000, next(), nil))
				sym.Assert(len(out) == 1 && out[0].Header.Type == net.Reply, "added-object-not-callable")
				sym.Assert(atomic.LoadInt32(&o.calls) == 1, "added-object-not-invoked")
				atomic.StoreInt32(&o.calls, 0)
			}
		case 1: // local remove of one of the objects (live or already removed) or of an unknown id
			id := zzPickID(objs, "remove")
			err := service.Remove(id)
			var target *zzObj
			for _, o := range objs {
				if o.live && o.id == id {
					target = o
				}
			}
			if target != nil {
				sym.Assert(err == nil, "remove-live-object-failed")
				target.live = false
			} else {
				sym.Assert(err != nil, "remove-unknown-object-accepted")
			}
		case 2: // remote terminate (action 3) on one of the objects
			if len(objs) > 0 {
				o := objs[sym.Choose("which", len(objs))]
				out := zzRoundTrip(a, zzFrame(net.Call, sid, o.id, 3, next(), zzLE32(o.id)))
				// identifiers are only unique among LIVE objects: the id of a removed object may
				// have been given to a later one, which is then the one addressed
				for _, t := range objs {
					if t.live && t.id == o.id {
						sym.Assert(len(out) >= 1, "terminate-not-answered")
						t.live = false
					}
				}
			}
		case 3: // subscribe to a signal of one of the objects (registerEvent, action 0)
			if len(objs) > 0 {
				o := objs[sym.Choose("which", len(objs))]
				if o.live && subscribed[o] == 0 {
					id := next()
					out := zzRoundTrip(a, zzFrame(net.Call, sid, o.id, 0, id, append(append(zzLE32(o.id), zzLE32(0x60)...), zzLE64(uint64(7000+id))...)))
					sym.Assert(len(out) == 1 && out[0].Header.Type == net.Reply, "subscribe-failed")
					subscribed[o] = id
				}
			}
		default: // call one of the objects (live or removed) or an unknown id
			id := zzPickID(objs, "call")
			var target *zzObj
			for _, o := range objs {
				if o.id == id && (target == nil || o.live) {
					target = o // the live holder of the id if there is one
				}
			}
			before := int32(0)
			if target != nil {
				before = atomic.LoadInt32(&target.calls)
			}
			out := zzRoundTrip(a, zzFrame(net.Call, sid, id, 1000, next(), nil))
			sym.Assert(len(out) == 1, "call-answer-count")
			if target != nil && len(out) == 1 {
				if target.live {
					sym.Assert(out[0].Header.Type == net.Reply, "live-object-call-failed")
					sym.Assert(atomic.LoadInt32(&target.calls) == before+1, "live-object-not-invoked")
				} else {
					sym.Assert(out[0].Header.Type == net.Error, "removed-object-still-answers")
					sym.Assert(atomic.LoadInt32(&target.calls) == before, "removed-object-still-invoked")
				}
			}
		}
		// invariants after every step
		for _, o := range objs {
			t := atomic.LoadInt32(&o.terminated)
			if o.live {
				sym.Assert(t == 0, "live-object-terminated")
			} else {
				sym.Assert(t == 1, "termination-hook-exactly-once")
			}
		}
	}
	// removed objects with a subscriber: the subscriber was told (an Error frame for its registration id)
	all := a.sentMessages()
	for _, o := range objs {
		regID := subscribed[o]
		if regID == 0 || o.live {
			continue
		}
		told := false
		for _, f := range all {
			if f.Header.Type == net.Error && f.Header.ID == regID && f.Header.Object == o.id {
				told = true
			}
		}
		sym.Assert(told, "subscriber-not-told-of-termination")
	}
	// the root object is unaffected
	out := zzRoundTrip(a, zzFrame(net.Call, sid, 1, 1000, next(), nil))
	sym.Assert(len(out) == 1 && out[0].Header.Type == net.Reply, "other-object-affected")
	sym.Reach("lifetime-done")
}

func C16Lifetime()     { c16Lifetime(3) }
func C16LifetimeDeep() { c16Lifetime(4) }

// C16Race: a local Remove races with an incoming call to the same object: the call is answered
// exactly once (by the object or with an error), the hook runs exactly once, and afterwards the
// object is unreachable.
func C16Race() {
	srv, _, _, a := zzAuthedServer()
	root := newZZObj()
	service, err := srv.NewService("objects", root.front)
	sym.Assert(err == nil, "service-registered")
	if err != nil {
		return
	}
	sid := service.ServiceID()
	o := newZZObj()
	id, err := service.Add(o.front)
	sym.Assert(err == nil, "add-ok")
	done := make(chan bool, 2)
	before := len(a.sentMessages())
	go func() { service.Remove(id); done <- true }()
	go func() { a.inject(zzFrame(net.Call, sid, id, 1000, 77, nil)); done <- true }()
	<-done
	<-done
	sym.Quiesce()
	out := a.sentMessages()[before:]
	sym.Assert(len(out) == 1, "racing-call-answer-count")
	sym.Assert(atomic.LoadInt32(&o.calls) <= 1, "object-invoked-twice")
	sym.Assert(atomic.LoadInt32(&o.terminated) == 1, "termination-hook-exactly-once")
	calls := atomic.LoadInt32(&o.calls)
	out = zzRoundTrip(a, zzFrame(net.Call, sid, id, 1000, 78, nil))
	sym.Assert(len(out) == 1 && out[0].Header.Type == net.Error, "removed-object-still-answers")
	sym.Assert(atomic.LoadInt32(&o.calls) == calls, "removed-object-still-invoked")
	sym.Reach("race-done")
}

// C16DoubleRemove: two removals of the same object race (an implementor's Remove against a remote
// terminate, or two Removes): the termination hook still runs exactly once and only one succeeds.
func C16DoubleRemove() {
	srv, _, _, _ := zzAuthedServer()
	root := newZZObj()
	service, err := srv.NewService("objects", root.front)
	sym.Assert(err == nil, "service-registered")
	if err != nil {
		return
	}
	o := newZZObj()
	id, err := service.Add(o.front)
	sym.Assert(err == nil, "add-ok")
	errs := make([]error, 2)
	done := make(chan bool, 2)
	for i := 0; i < 2; i++ {
		go func(i int) { errs[i] = service.Remove(id); done <- true }(i)
	}
	<-done
	<-done
	sym.Assert(atomic.LoadInt32(&o.terminated) == 1, "termination-hook-exactly-once")
	sym.Assert((errs[0] == nil) != (errs[1] == nil), "exactly-one-removal-succeeds")
	sym.Reach("double-remove-done")
}

// C16ClientService: the client-side Service (objects lent to a remote service through
// NewServiceReference): add A, remove A, add B, remove A again: the second removal fails and B is
// not affected.
func C16ClientService() {
	s := newZZStream()
	e := net.NewEndPoint(s)
	serviceID := sym.U32("service-id")
	svc := NewServiceReference(nil, e, serviceID)
	a, b := &zzProbe{}, &zzProbe{}
	ta, tb := &zzTerm{}, &zzTerm{}
	idA, err := svc.Add(&zzActorT{zzProbe: a, t: ta})
	sym.Assert(err == nil, "add-a")
	sym.Assert(svc.Remove(idA) == nil, "remove-a")
	idB, err := svc.Add(&zzActorT{zzProbe: b, t: tb})
	sym.Assert(err == nil, "add-b")
	sym.Assert(idA != idB, "client-object-id-reused")
	sym.Assert(svc.Remove(idA) != nil, "second-removal-of-removed-object-accepted")
	sym.Quiesce()
	sym.Assert(atomic.LoadInt32(&tb.n) == 0, "removing-one-object-terminated-another")
	// B still receives its messages
	s.inject(zzFrame(net.Call, serviceID, idB, 1000, 9, nil))
	sym.Quiesce()
	sym.Assert(b.count() == 1, "other-object-no-longer-reachable")
	sym.Reach("client-service-done")
}

type zzTerm struct{ n int32 }
type zzActorT struct {
	*zzProbe
	t *zzTerm
}

func (z *zzActorT) OnTerminate() { atomic.AddInt32(&z.t.n, 1) }

// C16SubscribersTold: an object with three subscribers on three connections; the connection of one
// of them (which one is free) is broken (its writes fail) but not yet cleaned up: when the object is
// removed the two others are still told.
func C16SubscribersTold() {
	h := newSignalHandler()
	h.Activate(Activation{ServiceID: 9, ObjectID: 1})
	streams := []*zzStream{newZZStream(), newZZStream(), newZZStream()}
	chans := make([]Channel, 3)
	for i := range chans {
		chans[i] = NewChannel(net.NewEndPoint(streams[i]), DefaultCap())
		msg := zzFrame(net.Call, 9, 1, 0, uint32(10+i), zzRegisterPayload(1, 0x60, uint64(70+i)))
		sym.Assert(h.RegisterEvent(&msg, chans[i]) == nil, "register-ok")
	}
	broken := sym.Choose("broken", 3)
	streams[broken].failAt = streams[broken].writes + 1
	h.OnTerminate()
	for i := range streams {
		if i == broken {
			continue
		}
		told := false
		for _, f := range streams[i].sentMessages() {
			if f.Header.Type == net.Error && f.Header.ID == uint32(10+i) {
				told = true
			}
		}
		sym.Assert(told, "subscriber-not-told-of-termination")
	}
	sym.Reach("subscribers-told-done")
}

// C16TerminateThenCall: a client terminates an object remotely and, as soon as it HAS the answer,
// calls it again; a second client calls it concurrently. Once the terminate request is answered the
// object is gone: the follow-up call is refused without invoking the object (delay budget explores
// what the server does between answering and removing).
func C16TerminateThenCall() {
	sym.Schedules(false) // set-up under the default schedule
	srv, _, _, a := zzAuthedServer()
	root := newZZObj()
	service, err := srv.NewService("objects", root.front)
	sym.Assert(err == nil, "service-registered")
	if err != nil {
		return
	}
	sid := service.ServiceID()
	o := newZZObj()
	id, err := service.Add(o.front)
	sym.Assert(err == nil, "add-ok")
	before := len(a.sentMessages())
	sym.Schedules(true)
	a.inject(zzFrame(net.Call, sid, id, 3, 70, zzLE32(id)))
	// wait for the answer to terminate, and nothing more
	a.waitSent(before + 1)
	calls := atomic.LoadInt32(&o.calls)
	out := zzRoundTrip(a, zzFrame(net.Call, sid, id, 1000, 71, nil))
	sym.Assert(len(out) >= 1, "terminate-then-call/call-answered")
	for _, m := range out {
		if m.Header.ID == 71 {
			sym.Assert(m.Header.Type == net.Error, "terminate-then-call/terminated-object-still-answers")
		}
	}
	sym.Assert(atomic.LoadInt32(&o.calls) == calls, "terminate-then-call/terminated-object-still-invoked")
	sym.Quiesce()
	sym.Assert(atomic.LoadInt32(&o.terminated) == 1, "terminate-then-call/termination-hook-exactly-once")
	sym.Reach("terminate-then-call-done")
}

// C16LateRegistrations: an object with three subscribers terminates while two more registrations are
// being handled: each of the three long-standing subscribers is told of the termination exactly once,
// whatever happens to the late ones.
func C16LateRegistrations() {
	h := newSignalHandler()
	h.Activate(Activation{ServiceID: 9, ObjectID: 1})
	streams := make([]*zzStream, 5)
	chans := make([]Channel, 5)
	// every connection already has what a server installs on it first: the handler of its requests (the
	// first slot of its table); it belongs to the connection, not to any object
	var requestHandlersClosed int32
	for i := range chans {
		streams[i] = newZZStream()
		ep := net.NewEndPoint(streams[i])
		ep.MakeHandler(func(hdr *net.Header) (bool, bool) { return hdr.Type == net.Call, true }, make(chan *net.Message, 4), func(err error) {
			atomic.AddInt32(&requestHandlersClosed, 1)
		})
		chans[i] = NewChannel(ep, DefaultCap())
	}
	for i := 0; i < 3; i++ {
		msg := zzFrame(net.Call, 9, 1, 0, uint32(10+i), zzRegisterPayload(1, 0x60, uint64(70+i)))
		sym.Assert(h.RegisterEvent(&msg, chans[i]) == nil, "register-ok")
	}
	done := make(chan bool, 1)
	go func() {
		for i := 3; i < 5; i++ {
			msg := zzFrame(net.Call, 9, 1, 0, uint32(10+i), zzRegisterPayload(1, 0x60, uint64(70+i)))
			h.RegisterEvent(&msg, chans[i])
		}
		done <- true
	}()
	h.OnTerminate()
	<-done
	sym.Quiesce()
	for i := 0; i < 3; i++ {
		told := 0
		for _, f := range streams[i].sentMessages() {
			if f.Header.Type == net.Error && f.Header.ID == uint32(10+i) {
				told++
			}
		}
		sym.Assert(told == 1, "late-registrations/long-standing-subscriber-not-told-exactly-once")
	}
	// the object is gone, the connections are not: their request handlers are untouched
	sym.Assert(atomic.LoadInt32(&requestHandlersClosed) == 0, "late-registrations/termination-of-an-object-closed-a-connection-s-request-handler")
	sym.Reach("late-registrations-done")
}

// C16MainObjectAndReAdd: (a) the service's MAIN object (id 1) is terminated remotely: its hook runs
// once and the other objects of the service stay reachable; (b) an actor that was added, terminated
// remotely and added AGAIN is terminated remotely a second time: it goes away again (hook count 2,
// later calls refused).
func C16MainObjectAndReAdd() {
	srv, _, _, a := zzAuthedServer()
	root := newZZObj()
	service, err := srv.NewService("objects", root.front)
	sym.Assert(err == nil, "service-registered")
	if err != nil {
		return
	}
	sid := service.ServiceID()
	other := newZZObj()
	oid, err := service.Add(other.front)
	sym.Assert(err == nil, "add-ok")
	if sym.Bool("terminate-the-main-object") {
		zzRoundTrip(a, zzFrame(net.Call, sid, 1, 3, 60, zzLE32(1)))
		sym.Quiesce()
		sym.Assert(atomic.LoadInt32(&root.terminated) == 1, "main-object/termination-hook-exactly-once")
		out := zzRoundTrip(a, zzFrame(net.Call, sid, oid, 1000, 61, nil))
		sym.Assert(len(out) == 1 && out[0].Header.Type == net.Reply, "main-object/other-object-affected")
		out = zzRoundTrip(a, zzFrame(net.Call, sid, 1, 1000, 62, nil))
		sym.Assert(len(out) == 1 && out[0].Header.Type == net.Error, "main-object/terminated-object-still-answers")
	} else {
		for life := 1; life <= 2; life++ {
			zzRoundTrip(a, zzFrame(net.Call, sid, oid, 3, uint32(70+life), zzLE32(oid)))
			sym.Quiesce()
			sym.Assert(atomic.LoadInt32(&other.terminated) == int32(life), "re-add/termination-hook-once-per-life")
			before := atomic.LoadInt32(&other.calls)
			out := zzRoundTrip(a, zzFrame(net.Call, sid, oid, 1000, uint32(80+life), nil))
			sym.Assert(len(out) == 1 && out[0].Header.Type == net.Error, "re-add/terminated-object-still-answers")
			sym.Assert(atomic.LoadInt32(&other.calls) == before, "re-add/terminated-object-still-invoked")
			if life == 1 {
				oid, err = service.Add(other.front) // the same actor is put back into service
				sym.Assert(err == nil, "re-add/add-again-ok")
			}
		}
	}
	sym.Reach("main-and-readd-done")
}

// C16CascadeRemoval: a parent object whose termination hook removes its child from the same service
// (an owner cleaning up what it created): the parent is terminated remotely or removed locally; both
// hooks run exactly once, the request is answered, and the service's other objects keep answering.
func C16CascadeRemoval() {
	srv, _, _, a := zzAuthedServer()
	root := newZZObj()
	service, err := srv.NewService("objects", root.front)
	sym.Assert(err == nil, "service-registered")
	if err != nil {
		return
	}
	sid := service.ServiceID()
	parent, child := newZZObj(), newZZObj()
	pid, err := service.Add(parent.front)
	sym.Assert(err == nil, "add-ok")
	cid, err := service.Add(child.front)
	sym.Assert(err == nil, "add-ok")
	var childRemoveErr error
	parent.onTerminate = func() { childRemoveErr = service.Remove(cid) }
	if sym.Bool("removed-locally") {
		done := make(chan error, 1)
		go func() { done <- service.Remove(pid) }()
		sym.Quiesce()
		select {
		case err := <-done:
			sym.Assert(err == nil, "cascade/remove-failed")
		default:
			sym.Fail("cascade/remove-never-returns")
			return
		}
	} else {
		out := zzRoundTrip(a, zzFrame(net.Call, sid, pid, 3, 60, zzLE32(pid)))
		sym.Assert(len(out) == 1, "cascade/terminate-not-answered")
	}
	sym.Quiesce()
	sym.Assert(atomic.LoadInt32(&parent.terminated) == 1, "cascade/parent-hook-exactly-once")
	sym.Assert(atomic.LoadInt32(&child.terminated) == 1, "cascade/child-hook-exactly-once")
	sym.Assert(childRemoveErr == nil, "cascade/child-removal-failed")
	out := zzRoundTrip(a, zzFrame(net.Call, sid, 1, 1000, 61, nil))
	sym.Assert(len(out) == 1 && out[0].Header.Type == net.Reply, "cascade/other-object-affected")
	out = zzRoundTrip(a, zzFrame(net.Call, sid, cid, 1000, 62, nil))
	sym.Assert(len(out) == 1 && out[0].Header.Type == net.Error, "cascade/removed-child-still-answers")
	sym.Reach("cascade-done")
}
