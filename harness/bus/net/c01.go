//go:build verif

package net

import (
	"bytes"
	"io"

	"github.com/lugu/qiloop/internal/zzverif/sym"
)

// ---- independent statement of the documented layout (doc/about-qimessaging.md) ----

func c01SymHeader() Header {
	hdr := Header{
		Magic:   Magic,
		ID:      sym.U32("id"),
		Version: Version,
		Type:    sym.U8("type"),
		Flags:   sym.U8("flags"),
		Service: sym.U32("service"),
		Object:  sym.U32("object"),
		Action:  sym.U32("action"),
	}
	sym.Assume(hdr.Type >= 1)
	sym.Assume(hdr.Type <= 8)
	return hdr
}

func c01Layout(hdr Header, payload []byte) []byte {
	n := uint32(len(payload))
	exp := []byte{0x42, 0xde, 0xad, 0x42,
		byte(hdr.ID), byte(hdr.ID >> 8), byte(hdr.ID >> 16), byte(hdr.ID >> 24),
		byte(n), byte(n >> 8), byte(n >> 16), byte(n >> 24),
		0, 0, hdr.Type, hdr.Flags,
		byte(hdr.Service), byte(hdr.Service >> 8), byte(hdr.Service >> 16), byte(hdr.Service >> 24),
		byte(hdr.Object), byte(hdr.Object >> 8), byte(hdr.Object >> 16), byte(hdr.Object >> 24),
		byte(hdr.Action), byte(hdr.Action >> 8), byte(hdr.Action >> 16), byte(hdr.Action >> 24)}
	return append(exp, payload...)
}

// c01RoundTrip: any valid message written to a buffer has exactly the documented layout and
// reads back identical, consuming exactly header+payload bytes (trailing garbage untouched).
func c01RoundTrip(maxN int) {
	n := sym.Choose("n", maxN+1)
	hdr := c01SymHeader()
	payload := sym.Bytes("payload", n)
	msg := NewMessage(hdr, payload)
	var buf bytes.Buffer
	err := msg.Write(&buf)
	sym.Assert(err == nil, "write-ok")
	wire := buf.Bytes()
	sym.Assert(len(wire) == 28+n, "wire-length")
	sym.Assert(sym.EqBytes(wire, c01Layout(hdr, payload)), "wire-layout")

	var back Message
	r := bytes.NewReader(append(append([]byte{}, wire...), 0xAA, 0xBB))
	err = back.Read(r)
	sym.Assert(err == nil, "read-ok")
	sym.Assert(back.Header == msg.Header, "header-roundtrip")
	sym.Assert(sym.EqBytes(back.Payload, payload), "payload-roundtrip")
	sym.Assert(r.Len() == 2, "consumed-exactly")
	sym.Reach("roundtrip-done")
}

func C01RoundTrip()     { c01RoundTrip(3) }
func C01RoundTripDeep() { c01RoundTrip(12) }

// ---- fragmenting reader / short writer ----

// fragReader delivers data in chunks that end at the given cut positions; the final chunk may
// be returned together with io.EOF (legal for an io.Reader).
type fragReader struct {
	data    []byte
	pos     int
	cuts    []int
	eofWith bool
	calls   int
}

func (f *fragReader) Read(p []byte) (int, error) {
	f.calls++
	if f.pos >= len(f.data) {
		return 0, io.EOF
	}
	end := len(f.data)
	for _, c := range f.cuts {
		if c > f.pos && c < end {
			end = c
		}
	}
	if end-f.pos > len(p) {
		end = f.pos + len(p)
	}
	n := copy(p, f.data[f.pos:end])
	f.pos += n
	if f.pos == len(f.data) && f.eofWith {
		return n, io.EOF
	}
	return n, nil
}

type shortWriter struct {
	out  []byte
	cuts []int
}

func (w *shortWriter) Write(p []byte) (int, error) {
	end := len(w.out) + len(p)
	for _, c := range w.cuts {
		if c > len(w.out) && c < end {
			end = c
		}
	}
	n := end - len(w.out)
	w.out = append(w.out, p[:n]...)
	return n, nil
}

func c01Cuts(label string, k, total int) []int {
	cuts := make([]int, k)
	prev := 0
	for i := range cuts {
		// non-decreasing cut positions in [prev,total]; a cut at 0/total/prev is "no cut"
		c := sym.Concrete(sym.Int(label, prev, total))
		cuts[i] = c
		prev = c
	}
	return cuts
}

// c01Fragmented: the byte stream is fragmented at up to k free positions on the write side
// (short writes) and at up to k free positions on the read side (short reads, the last one
// possibly together with EOF): the message still reads back identical.
func c01Fragmented(maxN, k int, writeSide bool) {
	n := sym.Choose("n", maxN+1)
	hdr := c01SymHeader()
	payload := sym.Bytes("payload", n)
	msg := NewMessage(hdr, payload)
	total := 28 + n

	if writeSide {
		w := &shortWriter{cuts: c01Cuts("wcut", k, total)}
		err := msg.Write(w)
		sym.Assert(err == nil, "short-write-ok")
		sym.Assert(sym.EqBytes(w.out, c01Layout(hdr, payload)), "short-write-layout")
		sym.Reach("short-write-done")
		return
	}
	r := &fragReader{data: append(c01Layout(hdr, payload), 0xCC), cuts: c01Cuts("rcut", k, total), eofWith: sym.Bool("eof-with-data")}
	var back Message
	err := back.Read(r)
	sym.Assert(err == nil, "frag-read-ok")
	sym.Assert(back.Header == msg.Header, "frag-header")
	sym.Assert(sym.EqBytes(back.Payload, payload), "frag-payload")
	sym.Assert(r.pos == total, "frag-consumed-exactly")
	sym.Reach("frag-done")
}

func C01ShortWrite()     { c01Fragmented(2, 1, true) }
func C01Fragmented()     { c01Fragmented(2, 1, false) }
func C01ShortWriteDeep() { c01Fragmented(4, 2, true) }
func C01FragmentedDeep() { c01Fragmented(4, 2, false) }

// C01ExactEOF: the stream ends exactly after the message and the reader reports data together
// with EOF, or EOF on the next call: the message is still accepted.
func C01ExactEOF() {
	n := sym.Choose("n", 3)
	hdr := c01SymHeader()
	payload := sym.Bytes("payload", n)
	msg := NewMessage(hdr, payload)
	total := 28 + n
	r := &fragReader{data: c01Layout(hdr, payload), cuts: c01Cuts("rcut", 1, total), eofWith: sym.Bool("eof-with-data")}
	var back Message
	err := back.Read(r)
	sym.Assert(err == nil, "eof-read-ok")
	sym.Assert(back.Header == msg.Header, "eof-header")
	sym.Assert(sym.EqBytes(back.Payload, payload), "eof-payload")
	sym.Reach("eof-done")
}

// c01Sequence: messages written back-to-back on one stream read back as the same sequence.
func c01Sequence(count, maxN, k int) {
	var wire []byte
	hdrs := make([]Header, count)
	pls := make([][]byte, count)
	for i := 0; i < count; i++ {
		n := sym.Choose("n", maxN+1)
		hdrs[i] = c01SymHeader()
		pls[i] = sym.Bytes("payload", n)
		msg := NewMessage(hdrs[i], pls[i])
		var buf bytes.Buffer
		sym.Assert(msg.Write(&buf) == nil, "seq-write-ok")
		wire = append(wire, buf.Bytes()...)
	}
	r := &fragReader{data: wire, cuts: c01Cuts("rcut", k, len(wire)), eofWith: sym.Bool("eof-with-data")}
	off := 0
	// the caller reads every message into a fresh variable, or keeps reading into the same one and
	// collects what it got: the collected sequence must be the sequence written
	reuse := sym.Bool("reader-reuses-one-message-variable")
	var shared Message
	var collected []Message
	for i := 0; i < count; i++ {
		var fresh Message
		back := &fresh
		if reuse {
			back = &shared
		}
		err := back.Read(r)
		sym.Assert(err == nil, "seq-read-ok")
		want := NewMessage(hdrs[i], pls[i])
		sym.Assert(back.Header == want.Header, "seq-header")
		sym.Assert(sym.EqBytes(back.Payload, pls[i]), "seq-payload")
		off += 28 + len(pls[i])
		sym.Assert(r.pos == off, "seq-offset")
		collected = append(collected, *back)
	}
	for i := range collected {
		sym.Assert(sym.EqBytes(collected[i].Payload, pls[i]), "seq-collected-payload-altered-by-a-later-read")
	}
	var extra Message
	sym.Assert(extra.Read(r) == io.EOF, "seq-eof-after-last")
	sym.Reach("seq-done")
}

func C01Sequence()     { c01Sequence(2, 1, 1) }
func C01SequenceDeep() { c01Sequence(3, 2, 1) }

// countingReader hands out the 28 header bytes and records every byte requested afterwards.
type countingReader struct {
	hdr        []byte
	pos        int
	afterCalls int
	maxWant    int
}

func (c *countingReader) Read(p []byte) (int, error) {
	if c.pos < len(c.hdr) {
		n := copy(p, c.hdr[c.pos:])
		c.pos += n
		return n, nil
	}
	c.afterCalls++
	if len(p) > c.maxWant {
		c.maxWant = len(p)
	}
	return 0, io.EOF
}

// C01Reject: for ANY 28 header bytes: a header with wrong magic, version, type or an over-limit
// size is refused before any payload byte is requested; a valid header is never refused by the
// header check (size 0 succeeds; size>0 proceeds to request the payload, never more than the limit).
func C01Reject() {
	sym.SetAllocBudget(int(MaxPayloadSize))
	raw := sym.Bytes("hdr", 28)
	magic := uint32(raw[0])<<24 | uint32(raw[1])<<16 | uint32(raw[2])<<8 | uint32(raw[3])
	size := uint32(raw[8]) | uint32(raw[9])<<8 | uint32(raw[10])<<16 | uint32(raw[11])<<24
	version := uint16(raw[12]) | uint16(raw[13])<<8
	typ := raw[14]
	valid := sym.And(sym.And(magic == 0x42dead42, version == 0),
		sym.And(sym.And(typ >= 1, typ <= 8), size <= 10*1024*1024))
	r := &countingReader{hdr: raw}
	var m Message
	err := m.Read(r)
	sym.Assert(r.maxWant <= int(MaxPayloadSize), "payload-buffer-over-limit")
	if r.afterCalls == 0 {
		if err != nil {
			sym.Assert(sym.Not(valid), "valid-header-refused")
			sym.Reach("refused")
		} else {
			sym.Assert(valid, "invalid-header-accepted")
			sym.Assert(size == 0, "nonzero-size-without-payload-read")
			sym.Assert(len(m.Payload) == 0, "empty-payload")
			sym.Reach("accepted-empty")
		}
	} else {
		sym.Assert(valid, "payload-read-after-invalid-header")
		sym.Assert(err != nil, "truncated-payload-accepted")
		sym.Reach("payload-requested")
	}
}

// zzFailWriter fails after accepting a given number of bytes.
type zzFailWriter struct{ room int }

func (w *zzFailWriter) Write(p []byte) (int, error) {
	if len(p) <= w.room {
		w.room -= len(p)
		return len(p), nil
	}
	n := w.room
	w.room = 0
	return n, io.ErrClosedPipe
}

// zzShortWriter accepts at most max bytes per call and reports the short count without an error.
type zzShortWriter struct {
	w   io.Writer
	max int
}

func (s *zzShortWriter) Write(p []byte) (int, error) {
	if len(p) > s.max {
		p = p[:s.max]
	}
	return s.w.Write(p)
}

// C01Large: a large message (70000-byte payload, symbolic at both ends) followed back-to-back by a
// small one: both read back identical and the reader consumes exactly header+payload each time; and a
// large message written after another large write FAILED is still exactly header+payload on the wire.
func C01Large() {
	sym.SetMaxMaterialise(1 << 18)
	const n = 70000
	big := make([]byte, n)
	big[0], big[n-1] = sym.U8("first"), sym.U8("last")
	h1, h2 := c01SymHeader(), c01SymHeader()
	m1 := NewMessage(h1, big)
	m2 := NewMessage(h2, sym.Bytes("small", 2))
	// a failed large write first (the fault position is free), then the real ones
	fw := &zzFailWriter{room: []int{0, 10, 28, 40000}[sym.Choose("write-fault", 4)]}
	sym.Assert(m1.Write(fw) != nil, "failing-writer-reported-success")
	var buf bytes.Buffer
	// the stream may take only part of what it is given (short write without error: legal for a
	// non-blocking transport, the writer must then offer the rest again)
	var w io.Writer = &buf
	if k := []int{0, 1000, 16384, 69999}[sym.Choose("bytes-accepted-per-write", 4)]; k > 0 {
		w = &zzShortWriter{w: &buf, max: k}
	}
	sym.Assert(m1.Write(w) == nil, "large/write-ok")
	sym.Assert(buf.Len() == 28+n, "large/wire-length")
	sym.Assert(m2.Write(&buf) == nil, "small/write-ok")
	wire := buf.Bytes()
	sym.Assert(len(wire) == 28+n+30, "sequence/wire-length")
	if len(wire) != 28+n+30 {
		return
	}
	sym.Assert(sym.And(wire[28] == big[0], wire[28+n-1] == big[n-1]), "large/payload-on-wire")
	sym.Assert(sym.EqBytes(wire[28+n:], c01Layout(h2, m2.Payload)), "small/wire-layout")
	r := bytes.NewReader(wire)
	var b1, b2 Message
	sym.Assert(b1.Read(r) == nil, "large/read-ok")
	sym.Assert(r.Len() == 30, "large/consumed-exactly")
	sym.Assert(b1.Header == m1.Header, "large/header")
	sym.Assert(len(b1.Payload) == n, "large/payload-length")
	if len(b1.Payload) == n {
		sym.Assert(sym.And(b1.Payload[0] == big[0], b1.Payload[n-1] == big[n-1]), "large/payload")
	}
	sym.Assert(b2.Read(r) == nil, "small/read-ok")
	sym.Assert(sym.And(b2.Header == m2.Header, sym.EqBytes(b2.Payload, m2.Payload)), "small/roundtrip")
	sym.Reach("large-done")
}

// c01Lengths: EVERY payload length up to max (the length is a solver-enumerated value, one path per
// length; first, middle and last payload bytes symbolic): the wire is exactly header+payload with the
// announced size, and the message reads back identical in front of a second message.
func c01Lengths(max int) {
	sym.SetMaxMaterialise(1 << 18)
	n := sym.Concrete(sym.Int("payload-length", 0, max))
	payload := make([]byte, n)
	if n > 0 {
		payload[0], payload[n/2], payload[n-1] = sym.U8("first"), sym.U8("middle"), sym.U8("last")
	}
	h := c01SymHeader()
	m := NewMessage(h, payload)
	var buf bytes.Buffer
	sym.Assert(m.Write(&buf) == nil, "lengths/write-ok")
	sym.Assert(buf.Len() == 28+n, "lengths/wire-length")
	tail := NewMessage(c01SymHeader(), []byte{sym.U8("tail")})
	sym.Assert(tail.Write(&buf) == nil, "lengths/tail-write-ok")
	wire := buf.Bytes()
	if len(wire) != 28+n+29 {
		sym.Fail("lengths/sequence-wire-length")
		return
	}
	sym.Assert(sym.EqBytes(wire[:28], c01Layout(m.Header, payload)[:28]), "lengths/header-layout")
	if n > 0 {
		sym.Assert(sym.And(wire[28] == payload[0], sym.And(wire[28+n/2] == payload[n/2], wire[28+n-1] == payload[n-1])), "lengths/payload-on-wire")
	}
	r := bytes.NewReader(wire)
	var b1, b2 Message
	sym.Assert(b1.Read(r) == nil, "lengths/read-ok")
	sym.Assert(r.Len() == 29, "lengths/consumed-exactly")
	sym.Assert(b1.Header == m.Header && len(b1.Payload) == n, "lengths/read-back-shape")
	if n > 0 && len(b1.Payload) == n {
		sym.Assert(sym.And(b1.Payload[0] == payload[0], sym.And(b1.Payload[n/2] == payload[n/2], b1.Payload[n-1] == payload[n-1])), "lengths/read-back-payload")
	}
	sym.Assert(b2.Read(r) == nil, "lengths/tail-read-ok")
	sym.Assert(sym.And(b2.Header == tail.Header, sym.EqBytes(b2.Payload, tail.Payload)), "lengths/tail-roundtrip")
	sym.Reach("lengths-done")
}

func C01Lengths()     { c01Lengths(1100) }
func C01LengthsDeep() { c01Lengths(8300) }

// zzFragReader delivers its data k bytes at a time; with eofWithData the last fragment comes together
// with io.EOF (both are what the io.Reader contract allows a stream to do).
type zzFragReader struct {
	data        []byte
	k           int
	eofWithData bool
}

func (f *zzFragReader) Read(p []byte) (int, error) {
	if len(f.data) == 0 {
		return 0, io.EOF
	}
	n := f.k
	if n > len(p) {
		n = len(p)
	}
	if n > len(f.data) {
		n = len(f.data)
	}
	copy(p, f.data[:n])
	f.data = f.data[n:]
	if len(f.data) == 0 && f.eofWithData {
		return n, io.EOF
	}
	return n, nil
}

// C01ManyFragments: a message whose payload (every length 0..400, solver-enumerated) crosses the
// stream in fragments of 1, 2 or 3 bytes — hundreds of them — in both directions: the writer takes
// k bytes per Write, the reader hands out k bytes per Read, the last one possibly together with
// io.EOF. The wire is header+payload and the message reads back identical, however many fragments.
func C01ManyFragments() {
	n := sym.Concrete(sym.Int("payload-length", 0, 400))
	k := 1 + sym.Choose("fragment-size", 3)
	payload := make([]byte, n)
	if n > 0 {
		payload[0], payload[n/2], payload[n-1] = sym.U8("first"), sym.U8("middle"), sym.U8("last")
	}
	m := NewMessage(c01SymHeader(), payload)
	var buf bytes.Buffer
	sym.Assert(m.Write(&zzShortWriter{w: &buf, max: k}) == nil, "fragments/write-ok")
	wire := buf.Bytes()
	if len(wire) != 28+n {
		sym.Fail("fragments/wire-length")
		return
	}
	sym.Assert(sym.EqBytes(wire[:28], c01Layout(m.Header, payload)[:28]), "fragments/header-layout")
	if n > 0 {
		sym.Assert(sym.And(wire[28] == payload[0], sym.And(wire[28+n/2] == payload[n/2], wire[28+n-1] == payload[n-1])), "fragments/payload-on-wire")
	}
	r := &zzFragReader{data: append([]byte{}, wire...), k: k, eofWithData: sym.Bool("eof-with-last-fragment")}
	var back Message
	sym.Assert(back.Read(r) == nil, "fragments/read-ok")
	sym.Assert(len(r.data) == 0, "fragments/consumed-exactly")
	sym.Assert(back.Header == m.Header && len(back.Payload) == n, "fragments/read-back-shape")
	if n > 0 && len(back.Payload) == n {
		sym.Assert(sym.And(back.Payload[0] == payload[0], sym.And(back.Payload[n/2] == payload[n/2], back.Payload[n-1] == payload[n-1])), "fragments/read-back-payload")
	}
	sym.Reach("fragments-done")
}
