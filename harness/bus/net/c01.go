//go:build verif

package net

import (
	"bytes"
	"io"

	"github.com/lugu/qiloop/internal/zzverif/sym"
)

// C01RoundTrip: any valid message written to a buffer has the documented layout and reads back identical.
func C01RoundTrip() {
	n := sym.Choose("n", 3)
	hdr := Header{
		Magic:   Magic,
		ID:      sym.U32("id"),
		Version: Version,
		Type:    sym.U8("type"),
		Flags:   sym.U8("flags"),
		Service: sym.U32("service"),
		Object:  sym.U32("object"),
		Action:  sym.U32("action"),
	}
	sym.Assume(hdr.Type >= 1)
	sym.Assume(hdr.Type <= 8)
	payload := sym.Bytes("payload", n)
	msg := NewMessage(hdr, payload)
	var buf bytes.Buffer
	err := msg.Write(&buf)
	sym.Assert(err == nil, "write-ok")
	wire := buf.Bytes()
	sym.Assert(len(wire) == 28+n, "wire-length")
	exp := []byte{0x42, 0xde, 0xad, 0x42,
		byte(hdr.ID), byte(hdr.ID >> 8), byte(hdr.ID >> 16), byte(hdr.ID >> 24),
		byte(n), 0, 0, 0,
		0, 0, hdr.Type, hdr.Flags,
		byte(hdr.Service), byte(hdr.Service >> 8), byte(hdr.Service >> 16), byte(hdr.Service >> 24),
		byte(hdr.Object), byte(hdr.Object >> 8), byte(hdr.Object >> 16), byte(hdr.Object >> 24),
		byte(hdr.Action), byte(hdr.Action >> 8), byte(hdr.Action >> 16), byte(hdr.Action >> 24)}
	exp = append(exp, payload...)
	sym.Assert(sym.EqBytes(wire, exp), "wire-layout")

	var back Message
	r := bytes.NewReader(append(append([]byte{}, wire...), 0xAA, 0xBB))
	err = back.Read(r)
	sym.Assert(err == nil, "read-ok")
	sym.Assert(back.Header == msg.Header, "header-roundtrip")
	sym.Assert(sym.EqBytes(back.Payload, payload), "payload-roundtrip")
	sym.Assert(r.Len() == 2, "consumed-exactly")
	sym.Reach("roundtrip-done")
	_ = io.EOF
}
