//go:build verif

package net

import (
	"sync/atomic"
	"time"

	"github.com/lugu/qiloop/internal/zzverif/sym"
)

type zzH struct {
	cap     int
	id      int
	matched bool
	keep    bool
	alive   bool
	closed  int32
	queue   chan *Message
	expect  int // messages that must have been delivered
}

// zzFixedCap >= 0 fixes the queue capacity of the handlers registered by zzRegister.
var zzFixedCap = -1

func zzRegister(e EndPoint, h *zzH) {
	h.matched = sym.Bool("matched")
	h.keep = sym.Bool("keep")
	// queue capacity: plenty, a single slot, or an unbuffered queue nobody is reading
	h.cap = zzFixedCap
	if h.cap < 0 {
		h.cap = []int{8, 1, 0}[sym.Choose("queue-cap", 3)]
	}
	h.queue = make(chan *Message, h.cap)
	h.alive = true
	h.id = e.MakeHandler(func(hdr *Header) (bool, bool) { return h.matched, h.keep }, h.queue,
		func(err error) { atomic.AddInt32(&h.closed, 1) })
}

// zzCheckHandlers: closer ran exactly once for dead handlers and not at all for live ones.
func zzCheckHandlers(hs []*zzH) {
	for _, h := range hs {
		c := atomic.LoadInt32(&h.closed)
		if h.alive {
			sym.Assert(c == 0, "closer-ran-for-live-handler")
		} else {
			sym.Assert(c == 1, "closer-exactly-once")
		}
	}
}

// zzDrain: a dead handler's queue is closed (the loop terminates) and holds exactly the expected messages.
func zzDrain(hs []*zzH) {
	for _, h := range hs {
		if h.alive {
			continue
		}
		n := 0
		for range h.queue {
			n++
		}
		sym.Assert(n == h.expect, "delivered-count")
	}
}

// c17Sequential: API-level operation sequences against a reference model of the handler table.
func c17Sequential(steps int) {
	s := newZZStream()
	s.closeErr = sym.Bool("close-fails")
	e := NewEndPoint(s)
	var hs []*zzH
	shutdown := false
	for step := 0; step < steps && !shutdown; step++ {
		switch sym.Choose("op", 5) {
		case 0: // register
			if len(hs) < 3 {
				h := &zzH{}
				zzRegister(e, h)
				for _, o := range hs {
					if o.alive {
						sym.Assert(o.id != h.id, "id-reused-while-live")
					}
				}
				hs = append(hs, h)
			}
		case 1: // remove (any id, known or not)
			id := sym.Int("remove-id", -1, 11)
			err := e.RemoveHandler(id)
			var target *zzH
			for _, h := range hs {
				if h.alive && h.id == id {
					target = h
				}
			}
			if target != nil {
				sym.Assert(err == nil, "remove-live-handler-failed")
				target.alive = false
			} else {
				sym.Assert(err != nil, "remove-unknown-handler-accepted")
			}
			zzCheckHandlers(hs)
		case 2: // incoming message
			s.inject(NewMessage(NewHeader(Call, 1, 1, 1, uint32(step)), []byte{1, 2}))
			sym.Quiesce()
			for _, h := range hs {
				if !h.alive {
					continue
				}
				if h.matched && h.expect < h.cap {
					h.expect++ // delivered only while the queue has room; never blocks otherwise
				}
				if !h.keep {
					h.alive = false
				}
			}
			zzCheckHandlers(hs)
		case 3: // local close
			e.Close()
			sym.Quiesce()
			for _, h := range hs {
				h.alive = false
			}
			shutdown = true
		default: // peer close
			s.peerClose()
			sym.Quiesce()
			for _, h := range hs {
				h.alive = false
			}
			shutdown = true
		}
	}
	sym.Quiesce()
	zzCheckHandlers(hs)
	zzDrain(hs)
	sym.Reach("sequence-done")
}

func C17Sequential()     { c17Sequential(3) }
func C17SequentialDeep() { c17Sequential(4) }

// C17Race: explicit removal, self-removal by a non-keep filter on incoming traffic and connection
// shutdown race for the same handler; a second handler is an innocent bystander.
func C17Race() {
	zzFixedCap = 8
	s := newZZStream()
	e := NewEndPoint(s)
	h0 := &zzH{}
	h1 := &zzH{}
	zzRegister(e, h0)
	zzRegister(e, h1)
	done := make(chan bool, 3)
	go func() { e.RemoveHandler(h0.id); done <- true }()
	go func() {
		s.inject(NewMessage(NewHeader(Call, 1, 1, 1, 7), nil))
		done <- true
	}()
	shut := sym.Choose("shutdown", 3)
	go func() {
		switch shut {
		case 0:
			e.Close()
		case 1:
			s.peerClose()
		}
		done <- true
	}()
	<-done
	<-done
	<-done
	sym.Quiesce()
	if shut == 2 {
		// no shutdown raced: finish with an orderly close so that every handler ends up closed
		e.Close()
		sym.Quiesce()
	}
	sym.Assert(atomic.LoadInt32(&h0.closed) == 1, "closer-exactly-once")
	sym.Assert(atomic.LoadInt32(&h1.closed) == 1, "closer-exactly-once")
	// queues are closed: draining terminates; never more than the one message each
	n0, n1 := 0, 0
	for range h0.queue {
		n0++
	}
	for range h1.queue {
		n1++
	}
	sym.Assert(n0 <= 1 && n1 <= 1, "delivered-more-than-sent")
	sym.Reach("race-done")
}

// C17CloseWhileReplyStalled: a call arrives for a handler whose queue is full, so dispatch answers it
// with an error itself; the peer is not reading and that write stalls until the connection is closed.
// Close() (or the peer going away) must still end the connection: every handler is closed exactly once.
func C17CloseWhileReplyStalled() {
	s := newZZStream()
	s.blockWrites = 1
	e := NewEndPoint(s)
	var closed int32
	queue := make(chan *Message) // nobody reads it: always full
	e.MakeHandler(func(hdr *Header) (bool, bool) { return true, true }, queue, func(err error) { atomic.AddInt32(&closed, 1) })
	typ := []uint8{Call, Post}[sym.Choose("incoming-type", 2)]
	s.inject(NewMessage(NewHeader(typ, 1, 1, 1, 7), nil))
	sym.Quiesce()
	sym.Assert(e.Close() == nil, "close-ok")
	sym.Quiesce()
	sym.Assert(atomic.LoadInt32(&closed) == 1, "closer-exactly-once")
	_, open := <-queue
	sym.Assert(!open, "queue-not-closed")
	sym.Reach("stalled-close-done")
}

// C17OneShotCloserWindow: the table is full (10 handlers); an incoming message fires the one-shot
// handler of slot 0, whose close callback takes time; meanwhile another goroutine registers two
// handlers (the table grows) and removes the handler of slot 9. Whatever dispatch does around the
// callback, no handler is offered a message after it was closed (send on a closed queue = panic),
// every closer runs exactly once and every queue ends up closed.
func C17OneShotCloserWindow() {
	s := newZZStream()
	e := NewEndPoint(s)
	const n = 10
	var closerCalls [n + 2]int32
	queues := make([]chan *Message, n+2)
	for i := range queues {
		queues[i] = make(chan *Message, 4)
	}
	closerOf := func(i int) Closer { return func(err error) { atomic.AddInt32(&closerCalls[i], 1) } }
	keepAll := func(hdr *Header) (bool, bool) { return true, true }
	oneShot := func(hdr *Header) (bool, bool) { return true, false }
	inCloser := make(chan struct{})
	sideDone := make(chan struct{})
	e.MakeHandler(oneShot, queues[0], func(err error) {
		atomic.AddInt32(&closerCalls[0], 1)
		close(inCloser)
		select { // a slow callback: it returns when the side work is done or after a while
		case <-sideDone:
		case <-time.After(500 * time.Millisecond):
		}
	})
	for i := 1; i < n; i++ {
		e.MakeHandler(keepAll, queues[i], closerOf(i))
	}
	var removeErr error
	go func() {
		defer close(sideDone)
		<-inCloser
		e.MakeHandler(keepAll, queues[n], closerOf(n))
		e.MakeHandler(keepAll, queues[n+1], closerOf(n+1)) // the table grows
		removeErr = e.RemoveHandler(9)
	}()
	s.inject(NewMessage(NewHeader(Reply, 1, 2, 3, 4), nil))
	sym.Quiesce()
	<-sideDone
	sym.Assert(removeErr == nil, "closer-window/remove-failed")
	e.Close()
	sym.Quiesce()
	for i := range closerCalls {
		sym.Assert(atomic.LoadInt32(&closerCalls[i]) == 1, "closer-exactly-once")
		for range queues[i] { // terminates only if the queue was closed
		}
	}
	sym.Reach("closer-window-done")
}

// C17CloserBeforeQueueClose: whichever way a handler ends (RemoveHandler, Close of the end point, the
// peer going away, its own non-keep filter), its close callback has been invoked by the time its
// queue is closed: a consumer that sees its queue closed can rely on the callback having run.
func C17CloserBeforeQueueClose() {
	s := newZZStream()
	e := NewEndPoint(s)
	queue := make(chan *Message, 2)
	var closerRan int32
	how := sym.Choose("how-the-handler-ends", 4)
	// a handler may be registered WITHOUT a close callback (ReceiveAny and the signal subscriptions do):
	// its queue is closed all the same
	var closer Closer = func(err error) { atomic.AddInt32(&closerRan, 1) }
	want := int32(1)
	if sym.Bool("no-close-callback") {
		closer, want = nil, 0
	}
	id := e.MakeHandler(func(hdr *Header) (bool, bool) { return true, how != 3 }, queue, closer)
	observed := make(chan int32, 1)
	go func() {
		for range queue { // ends when the queue is closed
		}
		observed <- atomic.LoadInt32(&closerRan)
	}()
	switch how {
	case 0:
		sym.Assert(e.RemoveHandler(id) == nil, "closer-order/remove-ok")
	case 1:
		e.Close()
	case 2:
		s.peerClose()
	default:
		s.inject(NewMessage(NewHeader(Reply, 1, 1, 1, 1), nil))
	}
	sym.Quiesce()
	select {
	case ran := <-observed:
		sym.Assert(ran == want, "closer-order/queue-closed-before-the-close-callback-ran")
	default:
		sym.Fail("closer-order/queue-never-closed")
		return
	}
	sym.Assert(atomic.LoadInt32(&closerRan) == want, "closer-exactly-once")
	sym.Reach("closer-order-done")
}

// C17ConcurrentRegistration: two goroutines register a handler at the same time (plus one registered
// before): the identifiers are distinct, both handlers receive the next message, and at shutdown each
// closer runs exactly once and each queue is closed.
func C17ConcurrentRegistration() {
	s := newZZStream()
	e := NewEndPoint(s)
	const n = 3
	var closers [n]int32
	queues := make([]chan *Message, n)
	ids := make([]int, n)
	for i := range queues {
		queues[i] = make(chan *Message, 2)
	}
	mk := func(i int) {
		ids[i] = e.MakeHandler(func(hdr *Header) (bool, bool) { return true, true }, queues[i], func(err error) { atomic.AddInt32(&closers[i], 1) })
	}
	mk(0)
	done := make(chan bool, 2)
	go func() { mk(1); done <- true }()
	go func() { mk(2); done <- true }()
	<-done
	<-done
	sym.Assert(ids[0] != ids[1] && ids[0] != ids[2] && ids[1] != ids[2], "concurrent-registration/identifier-issued-twice")
	s.inject(NewMessage(NewHeader(Event, 1, 1, 1, 1), nil))
	sym.Quiesce()
	e.Close()
	sym.Quiesce()
	for i := range queues {
		got := 0
		for range queues[i] { // terminates only if the queue was closed
			got++
		}
		sym.Assert(got == 1, "concurrent-registration/handler-missed-the-message")
		sym.Assert(atomic.LoadInt32(&closers[i]) == 1, "closer-exactly-once")
	}
	sym.Reach("concurrent-registration-done")
}

// C17OneShotSlotReuse: a message fires a one-shot handler while its owner (what client.Call does on
// its error path) removes it by id and another goroutine's registration re-uses the slot: whatever the
// interleaving, the NEW handler of that slot stays registered (it is offered the next message, its
// closer has not run), and every closer runs exactly once when the end point is closed.
func C17OneShotSlotReuse() {
	s := newZZStream()
	e := NewEndPoint(s)
	var closed1, closed2 int32
	q1, q2 := make(chan *Message, 2), make(chan *Message, 2)
	id1 := e.MakeHandler(func(hdr *Header) (bool, bool) { return hdr.ID == 1, false }, q1, func(err error) { atomic.AddInt32(&closed1, 1) })
	done := make(chan int, 1)
	go func() {
		e.RemoveHandler(id1) // may find the handler already gone
		done <- e.MakeHandler(func(hdr *Header) (bool, bool) { return hdr.ID == 2, true }, q2, func(err error) { atomic.AddInt32(&closed2, 1) })
	}()
	s.inject(NewMessage(NewHeader(Reply, 1, 2, 3, 1), nil))
	<-done
	sym.Quiesce()
	sym.Assert(atomic.LoadInt32(&closed1) == 1, "slot-reuse/first-closer-exactly-once")
	sym.Assert(atomic.LoadInt32(&closed2) == 0, "slot-reuse/new-handler-closed-in-place-of-the-old-one")
	s.inject(NewMessage(NewHeader(Reply, 1, 2, 3, 2), nil))
	sym.Quiesce()
	select {
	case m, ok := <-q2:
		sym.Assert(ok && m != nil && m.Header.ID == 2, "slot-reuse/new-handler-misses-its-message")
	default:
		sym.Fail("slot-reuse/new-handler-misses-its-message")
	}
	e.Close()
	sym.Quiesce()
	sym.Assert(atomic.LoadInt32(&closed1) == 1 && atomic.LoadInt32(&closed2) == 1, "slot-reuse/closer-exactly-once")
	for range q1 {
	}
	for range q2 {
	}
	sym.Reach("slot-reuse-done")
}

// C17ShutdownWhileTableBusy: the peer goes away at the very moment another goroutine is inside a table
// operation (registering or removing a handler — every memory access of the package is a scheduling
// point here, so the shutdown can arrive in the middle of the critical section): the handlers
// registered before still get their closer exactly once and their queues closed.
func C17ShutdownWhileTableBusy() {
	sym.RacyScope("bus/net.")
	s := newZZStream()
	e := NewEndPoint(s)
	const n = 2
	var closers [n + 1]int32
	queues := make([]chan *Message, n+1)
	ids := make([]int, n+1)
	for i := range queues {
		queues[i] = make(chan *Message, 2)
	}
	mk := func(i int) {
		ids[i] = e.MakeHandler(func(hdr *Header) (bool, bool) { return true, true }, queues[i], func(err error) { atomic.AddInt32(&closers[i], 1) })
	}
	for i := 0; i < n; i++ {
		mk(i)
	}
	removing := sym.Bool("table-operation-is-a-removal")
	done := make(chan bool, 1)
	go func() {
		if removing {
			e.RemoveHandler(ids[0])
		} else {
			mk(n)
		}
		done <- true
	}()
	s.peerClose()
	<-done
	sym.Quiesce()
	for i := 0; i < n; i++ {
		sym.Assert(atomic.LoadInt32(&closers[i]) == 1, "busy-table/closer-exactly-once")
		select {
		case _, ok := <-queues[i]:
			sym.Assert(!ok, "busy-table/queue-not-closed")
		default:
			sym.Fail("busy-table/queue-not-closed")
		}
	}
	sym.Reach("busy-table-done")
}

// C17ReentrantCloser: the close callback of a handler calls back into the end point (a session that, when
// it ends, removes a handler depending on it, registers a replacement, or hangs up): whichever way the handler
// ends, the call that ended it returns, both callbacks run exactly once, both queues get closed, and the
// table keeps working afterwards (when the end point itself is still open).
func C17ReentrantCloser() {
	s := newZZStream()
	e := NewEndPoint(s)
	qSession, qDep, qNew := make(chan *Message, 2), make(chan *Message, 2), make(chan *Message, 2)
	var sessionClosed, depClosed, newClosed, closeReturned int32
	how := sym.Choose("how-the-handler-ends", 4)
	action := sym.Choose("what-the-close-callback-does", 4)
	depID := e.MakeHandler(func(hdr *Header) (bool, bool) { return hdr.Service == 7, true }, qDep, func(err error) { atomic.AddInt32(&depClosed, 1) })
	var removeDepErr error
	id := e.MakeHandler(func(hdr *Header) (bool, bool) { return hdr.Service == 1, how != 3 }, qSession, func(err error) {
		atomic.AddInt32(&sessionClosed, 1)
		switch action {
		case 0:
			removeDepErr = e.RemoveHandler(depID)
		case 1:
			e.MakeHandler(func(hdr *Header) (bool, bool) { return hdr.Service == 9, true }, qNew, func(err error) { atomic.AddInt32(&newClosed, 1) })
		case 3:
			// the session is over: hang up
			e.Close()
			atomic.AddInt32(&closeReturned, 1)
		}
	})
	switch how {
	case 0:
		sym.Assert(e.RemoveHandler(id) == nil, "reentrant/remove-ok")
	case 1:
		e.Close()
	case 2:
		s.peerClose()
	default:
		s.inject(NewMessage(NewHeader(Reply, 1, 1, 1, 1), nil))
	}
	sym.Quiesce()
	sym.Assert(atomic.LoadInt32(&sessionClosed) == 1, "reentrant/close-callback-once")
	if action == 3 {
		sym.Assert(atomic.LoadInt32(&closeReturned) == 1, "reentrant/close-called-from-the-callback-never-returned")
	}
	if (how == 0 || how == 3) && action != 3 {
		// the end point is still open
		if action == 0 {
			sym.Assert(removeDepErr == nil, "reentrant/dependent-removed")
			sym.Assert(atomic.LoadInt32(&depClosed) == 1, "reentrant/dependent-callback-once")
		}
		// the table still works: a fresh handler gets the next message
		q := make(chan *Message, 1)
		e.MakeHandler(func(hdr *Header) (bool, bool) { return hdr.Service == 5, true }, q, nil)
		s.inject(NewMessage(NewHeader(Call, 5, 1, 1, 42), nil))
		sym.Quiesce()
		select {
		case m := <-q:
			sym.Assert(m.Header.ID == 42, "reentrant/table-works-afterwards")
		default:
			sym.Fail("reentrant/table-dead-afterwards")
		}
		e.Close()
		sym.Quiesce()
	}
	sym.Assert(atomic.LoadInt32(&depClosed) == 1, "reentrant/dependent-closed-by-the-end")
	if action == 1 {
		sym.Assert(atomic.LoadInt32(&newClosed) <= 1, "reentrant/replacement-callback-at-most-once")
	}
	sym.Reach("reentrant-done")
}
