//go:build verif

package net

import (
	"bytes"
	"io"
	"time"

	"github.com/lugu/qiloop/internal/zzverif/sym"
)

// C08Message: every strict prefix of a valid message is refused (k=0 may be io.EOF: still an error).
func C08Message() {
	n := sym.Choose("n", 4)
	hdr := c01SymHeader()
	payload := sym.Bytes("payload", n)
	enc := c01Layout(hdr, payload)
	k := sym.Concrete(sym.Int("cut", 0, len(enc)-1))
	var m Message
	// the truncated stream is a buffer, or a connection-like reader (it has deadlines, as every
	// transport the end points read from has)
	var src io.Reader = bytes.NewReader(enc[:k])
	if sym.Bool("connection-like-reader") {
		src = &zzDeadlineReader{r: bytes.NewReader(enc[:k])}
	}
	err := m.Read(src)
	sym.Assert(err != nil, "truncated-message")
	sym.Reach("cut-checked")
}

// C07Message: arbitrary bytes into the message decoder: value or error, bounded resources.
func C07Message() {
	n := sym.Choose("n", 33)
	in := sym.Bytes("in", n)
	sym.Bounded(16<<20+64*n, n+8, func() {
		var m Message
		err := m.Read(bytes.NewReader(in))
		if err == nil {
			sym.Reach("decoded")
		} else {
			sym.Reach("rejected")
		}
	})
}

// zzDeadlineReader: a reader with the deadline methods of a net.Conn (they accept anything).
type zzDeadlineReader struct{ r io.Reader }

func (d *zzDeadlineReader) Read(p []byte) (int, error)         { return d.r.Read(p) }
func (d *zzDeadlineReader) SetReadDeadline(t time.Time) error  { return nil }
func (d *zzDeadlineReader) SetDeadline(t time.Time) error      { return nil }
func (d *zzDeadlineReader) SetWriteDeadline(t time.Time) error { return nil }
