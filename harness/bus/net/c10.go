//go:build verif

package net

import (
	"bytes"
	gonet "net"
	"os"
	"sync"

	"github.com/lugu/qiloop/internal/zzverif/sym"
)

func zzSymMessage(label string, maxPayload int) Message {
	h := NewHeader(sym.U8(label+"-type"), sym.U32(label+"-service"), sym.U32(label+"-object"), sym.U32(label+"-action"), sym.U32(label+"-id"))
	sym.Assume(h.Type >= 1)
	sym.Assume(h.Type <= 8)
	return NewMessage(h, sym.Bytes(label+"-payload", sym.Choose(label+"-n", maxPayload+1)))
}

func zzSameMessage(a, b Message) bool {
	return sym.And(a.Header == b.Header, sym.EqBytes(a.Payload, b.Payload))
}

// c10Senders: goroutines send concurrently on one endpoint; the byte stream (each Write call is
// contiguous on the wire, separate calls may interleave) parses into exactly the messages sent,
// each intact, each sender's messages in its sending order.
func c10Senders(senders, each, maxPayload int) {
	s := newZZStream()
	e := NewEndPoint(s)
	msgs := make([][]Message, senders)
	for i := range msgs {
		for j := 0; j < each; j++ {
			m := zzSymMessage("m", maxPayload)
			if maxPayload == 0 {
				// fixed one-byte payload of symbolic content
				m = NewMessage(m.Header, sym.Bytes("m-byte", 1))
			}
			msgs[i] = append(msgs[i], m)
		}
	}
	// messages are identifiable: pairwise distinct ids (otherwise "which sender's message is this" is ambiguous)
	var all []Message
	for i := range msgs {
		for _, m := range msgs[i] {
			for _, o := range all {
				sym.Assume(o.Header.ID != m.Header.ID)
			}
			all = append(all, m)
		}
	}
	done := make(chan bool, senders)
	for i := 0; i < senders; i++ {
		go func(i int) {
			for _, m := range msgs[i] {
				sym.Assert(e.Send(m) == nil, "send-ok")
			}
			done <- true
		}(i)
	}
	for i := 0; i < senders; i++ {
		<-done
	}
	// parse the wire
	r := bytes.NewReader(s.sent())
	next := make([]int, senders)
	total := 0
	for r.Len() > 0 {
		var got Message
		err := got.Read(r)
		sym.Assert(err == nil, "stream-corrupted")
		if err != nil {
			return
		}
		// it must be the next unsent message of some sender
		matched := false
		for i := 0; i < senders && !matched; i++ {
			if next[i] < len(msgs[i]) && zzSameMessage(got, msgs[i][next[i]]) {
				next[i]++
				matched = true
			}
		}
		sym.Assert(matched, "message-altered-or-reordered")
		total++
	}
	sym.Assert(total == senders*each, "message-lost-or-duplicated")
	sym.Reach("senders-done")
}

func C10Senders()     { c10Senders(2, 2, 0) }
func C10SendersDeep() { c10Senders(3, 2, 1) }

// c10Dispatch: every registered handler receives exactly the subsequence its filter selects, in
// arrival order, while its queue has room; the stream is fragmented at a free position.
func c10Dispatch(nmsg int, freeCut bool) {
	s := newZZStream()
	e := NewEndPoint(s)
	svc := []uint32{sym.U32("want-service-0"), sym.U32("want-service-1")}
	typ := sym.U8("want-type-1")
	q0 := make(chan *Message, 8)
	q1 := make(chan *Message, 8)
	// a one-shot handler (a pending call waiting for its reply) in the lowest slot: it takes the first
	// message it selects and leaves the table during that very dispatch pass
	shotSvc := sym.U32("want-service-oneshot")
	qs := make(chan *Message, 8)
	e.MakeHandler(func(h *Header) (bool, bool) {
		if h.Service == shotSvc {
			return true, false
		}
		return false, true
	}, qs, nil)
	e.MakeHandler(func(h *Header) (bool, bool) { return h.Service == svc[0], true }, q0, nil)
	e.MakeHandler(func(h *Header) (bool, bool) { return h.Service == svc[1] && h.Type == typ, true }, q1, nil)
	var sent []Message
	var wire []byte
	for i := 0; i < nmsg; i++ {
		m := zzSymMessage("in", 1)
		sent = append(sent, m)
		var buf bytes.Buffer
		m.Write(&buf)
		wire = append(wire, buf.Bytes()...)
	}
	cut := 0
	if freeCut {
		cut = sym.Concrete(sym.Int("cut", 0, len(wire)))
	} else {
		// a few representative fragmentations (C01 covers all fragmentations of the reader itself)
		cut = []int{0, 30}[sym.Choose("cut", 2)]
	}
	if cut > 0 {
		s.in <- wire[:cut]
	}
	if cut < len(wire) {
		s.in <- wire[cut:]
	}
	if sym.Bool("peer-hangs-up-right-after-the-burst") {
		// the end of the connection is already waiting behind the data: everything received before it
		// still reaches the handlers
		s.peerClose()
		sym.Quiesce()
	} else {
		sym.Quiesce()
		e.Close()
		sym.Quiesce()
	}
	i0, i1 := 0, 0
	var got0, got1 []*Message
	for m := range q0 {
		got0 = append(got0, m)
	}
	for m := range q1 {
		got1 = append(got1, m)
	}
	for _, m := range sent {
		if m.Header.Service == svc[0] {
			sym.Assert(i0 < len(got0), "handler0-missed-message")
			if i0 < len(got0) {
				sym.Assert(zzSameMessage(*got0[i0], m), "handler0-wrong-message-or-order")
			}
			i0++
		}
		if m.Header.Service == svc[1] && m.Header.Type == typ {
			sym.Assert(i1 < len(got1), "handler1-missed-message")
			if i1 < len(got1) {
				sym.Assert(zzSameMessage(*got1[i1], m), "handler1-wrong-message-or-order")
			}
			i1++
		}
	}
	// the one-shot handler: exactly the first message it selects, then its queue is closed
	var gotS []*Message
	for m := range qs {
		gotS = append(gotS, m)
	}
	var firstShot *Message
	for i := range sent {
		if sent[i].Header.Service == shotSvc && firstShot == nil {
			firstShot = &sent[i]
		}
	}
	if firstShot != nil {
		sym.Assert(len(gotS) == 1, "oneshot-handler-message-count")
		if len(gotS) == 1 {
			sym.Assert(zzSameMessage(*gotS[0], *firstShot), "oneshot-handler-wrong-message")
		}
	} else {
		sym.Assert(len(gotS) == 0, "oneshot-handler-extra-message")
	}
	sym.Assert(i0 == len(got0), "handler0-extra-message")
	sym.Assert(i1 == len(got1), "handler1-extra-message")
	sym.Reach("dispatch-done")
}

func C10Dispatch()     { c10Dispatch(2, false) }
func C10DispatchDeep() { c10Dispatch(3, false) }

// C10DispatchFull: two handlers select the same calls; the first one's queue is small and fills up:
// the second one (whose queue has room) must still receive every message, in order.
func C10DispatchFull() {
	s := newZZStream()
	e := NewEndPoint(s)
	small := make(chan *Message, 1)
	big := make(chan *Message, 8)
	e.MakeHandler(func(h *Header) (bool, bool) { return true, true }, small, nil)
	e.MakeHandler(func(h *Header) (bool, bool) { return true, true }, big, nil)
	var sent []Message
	for i := 0; i < 3; i++ {
		m := zzSymMessage("in", 0)
		sent = append(sent, m)
		s.inject(m)
	}
	sym.Quiesce()
	e.Close()
	sym.Quiesce()
	var got []*Message
	for m := range big {
		got = append(got, m)
	}
	sym.Assert(len(got) == 3, "handler-with-room-missed-message")
	for i := 0; i < len(got) && i < 3; i++ {
		sym.Assert(zzSameMessage(*got[i], sent[i]), "handler-with-room-wrong-message-or-order")
	}
	n := 0
	for range small {
		n++
	}
	sym.Assert(n == 1, "full-handler-count")
	sym.Reach("dispatch-full-done")
}

// C10SendersLarge: two senders, one message each, one of them with a large (70000-byte) payload:
// the wire still carries two intact messages.
func C10SendersLarge() {
	sym.SetMaxMaterialise(1 << 18)
	s := newZZStream()
	e := NewEndPoint(s)
	big := make([]byte, 70000)
	big[0], big[69999] = sym.U8("first"), sym.U8("last")
	m1 := NewMessage(NewHeader(Call, sym.U32("s1"), 1, 1, 1), big)
	m2 := NewMessage(NewHeader(Call, sym.U32("s2"), 1, 1, 2), []byte{sym.U8("small")})
	done := make(chan bool, 2)
	go func() { sym.Assert(e.Send(m1) == nil, "send-ok"); done <- true }()
	go func() { sym.Assert(e.Send(m2) == nil, "send-ok"); done <- true }()
	<-done
	<-done
	r := bytes.NewReader(s.sent())
	seen1, seen2 := false, false
	for r.Len() > 0 {
		var got Message
		err := got.Read(r)
		sym.Assert(err == nil, "stream-corrupted")
		if err != nil {
			return
		}
		if got.Header.ID == 1 {
			sym.Assert(!seen1 && zzSameMessage(got, m1), "large-message-altered")
			seen1 = true
		} else {
			sym.Assert(!seen2 && zzSameMessage(got, m2), "small-message-altered")
			seen2 = true
		}
	}
	sym.Assert(seen1 && seen2, "message-lost")
	sym.Reach("large-done")
}

// C10PipeSenders: the fd-passing transport (PipeStream over os.Pipe; in the engine *os.File on a pipe
// is a modelled byte queue whose Write is one indivisible step, as the fd write lock makes it). Two
// senders, one frame each, one of them larger than PIPE_BUF: the reading side (an end point on the
// same pipe, looped back) receives both frames intact.
func C10PipeSenders() {
	r, w, err := os.Pipe()
	sym.Assert(err == nil, "pipe")
	if err != nil {
		return
	}
	st := PipeStream(r, w)
	got := make(chan *Message, 4)
	e := EndPointFinalizer(st, func(e EndPoint) {
		e.MakeHandler(func(h *Header) (bool, bool) { return true, true }, got, nil)
	})
	big := make([]byte, 4500)
	big[0], big[4095-28], big[4096-28], big[4499] = sym.U8("first"), sym.U8("before-pipe-buf"), sym.U8("after-pipe-buf"), sym.U8("last")
	m1 := NewMessage(NewHeader(Call, sym.U32("s1"), 1, 1, 1), big)
	m2 := NewMessage(NewHeader(Call, sym.U32("s2"), 1, 1, 2), []byte{sym.U8("small")})
	done := make(chan bool, 2)
	go func() { sym.Assert(e.Send(m1) == nil, "send-ok"); done <- true }()
	go func() { sym.Assert(e.Send(m2) == nil, "send-ok"); done <- true }()
	<-done
	<-done
	seen1, seen2 := false, false
	for i := 0; i < 2; i++ {
		m := <-got // a frame that never arrives is a deadlock finding
		if m == nil {
			sym.Fail("pipe/stream-corrupted")
			return
		}
		if m.Header.ID == 1 {
			sym.Assert(!seen1 && zzSameMessage(*m, m1), "pipe/large-message-altered")
			seen1 = true
		} else {
			sym.Assert(!seen2 && zzSameMessage(*m, m2), "pipe/small-message-altered")
			seen2 = true
		}
	}
	sym.Assert(seen1 && seen2, "pipe/message-lost")
	e.Close()
	sym.Reach("pipe-done")
}

// C10ConnSenders: the in-memory pipe transport (ConnStream over net.Pipe, whose real, unbuffered
// implementation is interpreted): two senders on one end, a handler with room on the other: both
// frames arrive intact, each once; one of the frames is larger than what the reader asks for at once.
func C10ConnSenders() { c10ConnSenders(300) }

// C10ConnSendersLarge: the same with a frame larger than any buffer of the sending path (5000 bytes):
// what the goroutines sharing a connection rely on (one message = one Write) holds at every size.
func C10ConnSendersLarge() { c10ConnSenders(5000) }

func c10ConnSenders(size int) {
	a, b := gonet.Pipe()
	e1 := ConnEndPoint(a)
	got := make(chan *Message, 4)
	e2 := EndPointFinalizer(ConnStream(b), func(e EndPoint) {
		e.MakeHandler(func(h *Header) (bool, bool) { return true, true }, got, nil)
	})
	big := make([]byte, size)
	big[0], big[size-1] = sym.U8("first"), sym.U8("last")
	m1 := NewMessage(NewHeader(Call, sym.U32("s1"), 1, 1, 1), big)
	m2 := NewMessage(NewHeader(Call, sym.U32("s2"), 1, 1, 2), []byte{sym.U8("small")})
	done := make(chan bool, 2)
	var ok1, ok2 bool
	go func() { ok1 = e1.Send(m1) == nil; done <- true }()
	go func() { ok2 = e1.Send(m2) == nil; done <- true }()
	<-done
	<-done
	// (a transport with time-outs may refuse a message: what counts is that every message whose Send
	// reported success arrives intact, once, and that nothing else arrives)
	expected := 0
	if ok1 {
		expected++
	}
	if ok2 {
		expected++
	}
	seen1, seen2 := false, false
	for i := 0; i < expected; i++ {
		m := <-got // a frame that never arrives is a deadlock finding
		if m == nil {
			sym.Fail("conn/stream-corrupted")
			return
		}
		if m.Header.ID == 1 {
			sym.Assert(!seen1 && zzSameMessage(*m, m1), "conn/large-message-altered")
			seen1 = true
		} else {
			sym.Assert(!seen2 && zzSameMessage(*m, m2), "conn/small-message-altered")
			seen2 = true
		}
	}
	sym.Assert(seen1 == ok1 && seen2 == ok2, "conn/message-of-a-successful-send-missing")
	sym.Schedules(false) // the tear-down runs under the default schedule
	e1.Close()
	e2.Close()
	sym.Quiesce()
	for m := range got {
		_ = m
		sym.Fail("conn/unexpected-extra-frame")
	}
	sym.Reach("conn-done")
}

// C10FinalizerFirst: messages are already waiting on the connection when the end point is created with
// EndPointFinalizer: the handlers the finalizer registers (it takes its time) see every one of them,
// in order: nothing is read before the finalizer is done.
func C10FinalizerFirst() {
	s := newZZStream()
	m1, m2 := zzSymMessage("in1", 1), zzSymMessage("in2", 0)
	s.inject(m1)
	s.inject(m2)
	got := make(chan *Message, 4)
	e := EndPointFinalizer(s, func(e EndPoint) {
		sym.Yield() // the finalizer does some work first
		e.MakeHandler(func(h *Header) (bool, bool) { return true, true }, got, nil)
	})
	sym.Quiesce()
	e.Close()
	sym.Quiesce()
	var all []*Message
	for m := range got {
		all = append(all, m)
	}
	sym.Assert(len(all) == 2, "finalizer/message-read-before-the-handlers-were-registered")
	if len(all) == 2 {
		sym.Assert(zzSameMessage(*all[0], m1) && zzSameMessage(*all[1], m2), "finalizer/messages-altered-or-reordered")
	}
	sym.Reach("finalizer-done")
}

// C10ConsumerOrder: a handler registered with a consumer FUNCTION (AddHandler). The consumer is slow: it
// holds the first message while a burst of 14 more arrives, then catches up, and two more messages arrive
// while it does. What the consumer sees is a subsequence of the arrival order (never a message before an
// earlier one, never one twice), and it contains at least the messages that fit the documented queue of 10.
func C10ConsumerOrder() {
	s := newZZStream()
	e := NewEndPoint(s)
	gate := make(chan bool)
	var mu sync.Mutex
	var seen []uint32
	first := true
	e.AddHandler(func(h *Header) (bool, bool) { return h.Service == 3, true }, func(m *Message) error {
		if first {
			first = false
			<-gate
		}
		mu.Lock()
		seen = append(seen, m.Header.ID)
		mu.Unlock()
		return nil
	}, nil)
	for i := 1; i <= 15; i++ {
		s.inject(NewMessage(NewHeader(Post, 3, 1, 1, uint32(i)), nil))
	}
	sym.Quiesce()
	// the consumer resumes while two more messages arrive
	go func() { gate <- true }()
	s.inject(NewMessage(NewHeader(Post, 3, 1, 1, 16), nil))
	s.inject(NewMessage(NewHeader(Post, 3, 1, 1, 17), nil))
	sym.Quiesce()
	e.Close()
	sym.Quiesce()
	mu.Lock()
	defer mu.Unlock()
	sym.Assert(len(seen) >= 10, "consumer/missed-messages-that-fit-its-queue")
	last := uint32(0)
	for _, id := range seen {
		sym.Assert(id > last, "consumer/message-delivered-out-of-arrival-order")
		last = id
	}
	sym.Reach("consumer-order-done")
}

// C10MixedSizes: two senders, two messages each, of mixed sizes around the sizes at which a sender might
// be tempted to treat messages differently (a few bytes; 4100 and 9000 bytes, beyond a 4 KiB buffer): one
// sends small then large, the other large then small, small then small, or two messages without payload. The wire carries four intact
// messages, each sender's in the order it sent them.
func C10MixedSizes() {
	s := newZZStream()
	e := NewEndPoint(s)
	shapes := [][2]int{{3, 4100}, {9000, 2}}
	switch sym.Choose("second-sender", 3) {
	case 1:
		shapes[1] = [2]int{1, 5}
	case 2:
		// messages without payload (a cancel, a void call): a frame is a frame
		shapes[1] = [2]int{0, 0}
	}
	msgs := make([][]Message, 2)
	id := uint32(1)
	for i := range msgs {
		for _, n := range shapes[i] {
			p := make([]byte, n)
			if n > 0 {
				p[0], p[n-1] = sym.U8("first"), sym.U8("last")
			}
			msgs[i] = append(msgs[i], NewMessage(NewHeader(Call, sym.U32("service"), 1, 1, id), p))
			id++
		}
	}
	done := make(chan bool, 2)
	for i := 0; i < 2; i++ {
		go func(i int) {
			for _, m := range msgs[i] {
				sym.Assert(e.Send(m) == nil, "send-ok")
			}
			done <- true
		}(i)
	}
	<-done
	<-done
	r := bytes.NewReader(s.sent())
	next := []int{0, 0}
	total := 0
	for r.Len() > 0 {
		var got Message
		err := got.Read(r)
		sym.Assert(err == nil, "mixed/stream-corrupted")
		if err != nil {
			return
		}
		matched := false
		for i := 0; i < 2 && !matched; i++ {
			if next[i] < 2 && got.Header.ID == msgs[i][next[i]].Header.ID {
				sym.Assert(zzSameMessage(got, msgs[i][next[i]]), "mixed/message-altered")
				next[i]++
				matched = true
			}
		}
		sym.Assert(matched, "mixed/message-reordered-or-duplicated")
		total++
	}
	sym.Assert(total == 4, "mixed/message-lost")
	sym.Reach("mixed-done")
}
