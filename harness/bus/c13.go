//go:build verif

package bus

import (
	"bytes"

	"github.com/lugu/qiloop/bus/net"
	"github.com/lugu/qiloop/internal/zzverif/sym"
	"github.com/lugu/qiloop/type/object"
)

// zzPipe: two harness streams connected back to back (what one writes the other reads).
func zzPipe() (*zzStream, *zzStream) {
	a, b := newZZStream(), newZZStream()
	a.in = make(chan []byte, 64)
	b.in = make(chan []byte, 64)
	a.onWrite = func(p []byte) { b.in <- append([]byte{}, p...) }
	b.onWrite = func(p []byte) { a.in <- append([]byte{}, p...) }
	return a, b
}

type zzSub struct {
	conn   int
	user   uint64
	signal uint32
	regID  uint32
	live   bool
}

// c13Server: the server half. Subscribers (user id, connection, signal, registration message id)
// are registered through the real RegisterEvent, some are unregistered (acknowledged), then signals
// are emitted: every live entry of that signal gets exactly one Event with the emitted payload and
// its own registration id on its own connection, in emission order; nobody else gets anything.
func c13Server(nsubs, nemit int) {
	h := newSignalHandler()
	h.Activate(Activation{ServiceID: 9, ObjectID: 1})
	streams := []*zzStream{newZZStream(), newZZStream()}
	chans := []Channel{
		NewChannel(net.NewEndPoint(streams[0]), DefaultCap()),
		NewChannel(net.NewEndPoint(streams[1]), DefaultCap()),
	}
	var subs []*zzSub
	for i := 0; i < nsubs; i++ {
		s := &zzSub{conn: sym.Choose("conn", 2), user: sym.U64("user"), signal: sym.U32("signal"), regID: uint32(10 + i), live: true}
		for _, o := range subs {
			sym.Assume(o.user != s.user) // user ids are chosen by the clients and distinct here
		}
		msg := zzFrame(net.Call, 9, 1, 0, s.regID, zzRegisterPayload(1, s.signal, s.user))
		before := len(streams[s.conn].sentMessages())
		sym.Assert(h.RegisterEvent(&msg, chans[s.conn]) == nil, "register-ok")
		out := streams[s.conn].sentMessages()[before:]
		sym.Assert(len(out) == 1 && out[0].Header.Type == net.Reply, "register-acknowledged")
		subs = append(subs, s)
	}
	if nsubs > 0 && sym.Bool("foreign-unregister") {
		// the OTHER connection quotes this subscriber's signal and user id in an unregisterEvent: whatever
		// it is answered, the subscription belongs to the connection that made it and stays
		s := subs[sym.Choose("whose", nsubs)]
		msg := zzFrame(net.Call, 9, 1, 1, 41, zzRegisterPayload(1, s.signal, s.user))
		h.UnregisterEvent(&msg, chans[1-s.conn])
	}
	if nsubs > 0 && sym.Bool("unregister-one") {
		k := sym.Choose("which", nsubs)
		s := subs[k]
		msg := zzFrame(net.Call, 9, 1, 1, 40, zzRegisterPayload(1, s.signal, s.user))
		before := len(streams[s.conn].sentMessages())
		sym.Assert(h.UnregisterEvent(&msg, chans[s.conn]) == nil, "unregister-ok")
		out := streams[s.conn].sentMessages()[before:]
		sym.Assert(len(out) == 1 && out[0].Header.Type == net.Reply, "unregister-acknowledged")
		s.live = false
	}
	// connection 0 may be broken without the server knowing yet: every write to it fails (not with
	// EOF); the subscribers of the other connection are not disturbed
	broken := sym.Bool("connection-0-broken")
	if broken {
		streams[0].mu.Lock()
		streams[0].failFrom = streams[0].writes + 1
		streams[0].mu.Unlock()
	}
	marks := []int{len(streams[0].sentMessages()), len(streams[1].sentMessages())}
	type emission struct {
		signal uint32
		data   []byte
	}
	var ems []emission
	for e := 0; e < nemit; e++ {
		em := emission{sym.U32("emit-signal"), sym.Bytes("emit-data", 1)}
		ems = append(ems, em)
		err := h.UpdateSignal(em.signal, em.data)
		if !broken {
			sym.Assert(err == nil, "emit-ok")
		}
	}
	// per connection: the Event frames must be exactly, in order: for each emission, one per live
	// subscriber of that signal on this connection (in some order within one emission)
	for c := 0; c < 2; c++ {
		out := streams[c].sentMessages()[marks[c]:]
		if broken && c == 0 {
			continue // nothing can be said about a connection that does not work
		}
		pos := 0
		for _, em := range ems {
			var want []*zzSub
			for _, s := range subs {
				if s.live && s.conn == c && s.signal == em.signal {
					want = append(want, s)
				}
			}
			seen := make([]bool, len(want))
			for range want {
				sym.Assert(pos < len(out), "event-missing")
				if pos >= len(out) {
					return
				}
				f := out[pos]
				pos++
				ok := false
				for i, s := range want {
					if !seen[i] && !ok && f.Header.ID == s.regID {
						seen[i] = true
						ok = true
					}
				}
				sym.Assert(ok, "event-for-wrong-subscriber")
				sym.Assert(sym.And(sym.And(f.Header.Type == net.Event, f.Header.Action == em.signal),
					sym.And(f.Header.Service == 9, f.Header.Object == 1)), "event-header")
				sym.Assert(sym.EqBytes(f.Payload, em.data), "event-payload")
			}
		}
		sym.Assert(pos == len(out), "event-to-unsubscribed-or-duplicated")
	}
	sym.Reach("server-half-done")
}

func C13Server()     { c13Server(2, 2) }
func C13ServerDeep() { c13Server(3, 2) }

// zzDrainNow collects what is immediately available on an events channel.
func zzDrainNow(ch chan []byte) (got [][]byte, closed bool) {
	for {
		select {
		case ev, ok := <-ch:
			if !ok {
				return got, true
			}
			got = append(got, ev)
			sym.Quiesce()
		default:
			return got, false
		}
	}
}

// C13Client: the client half, end to end over a pipe: two local subscribers on one proxy (one
// connection) and one emitter. Each subscriber gets every event emitted between its
// acknowledgement and its cancel, once, in order, with the emitted payload; nothing for another
// signal; its channel is closed after cancel; the remote registration exists exactly while at least
// one local subscriber does.
func C13Client()     { c13Client(3) }
func C13ClientDeep() { c13Client(4) }

func c13Client(steps int) {
	auth := &zzAuth{user: "u", token: "t"}
	l := newZZListener()
	srv, err := StandAloneServer(l, auth, PrivateNamespace())
	sym.Assert(err == nil, "server-started")
	o := &zzObj{}
	meta := object.MetaObject{Description: "zz", Signals: map[uint32]object.MetaSignal{
		200: {Uid: 200, Name: "sig", Signature: "(i)"}, 201: {Uid: 201, Name: "other", Signature: "(i)"}}}
	o.front = NewBasicObject(o, meta, func(string, []byte) error { return nil })
	service, err := srv.NewService("emitter", o.front)
	sym.Assert(err == nil, "service-registered")
	sid := service.ServiceID()
	cs, ss := zzPipe()
	l.conns <- ss
	sym.Quiesce()
	ep := net.NewEndPoint(cs)
	ch := NewChannel(ep, ClientCap("u", "t"))
	sym.Assert(ch.Authenticate() == nil, "client-authenticated")
	proxy := NewProxy(NewClient(ch), object.FullMetaObject(meta), sid, 1)
	front := o.front.(*stubObject)
	registrations := func() int {
		front.signal.signalsMutex.RLock()
		defer front.signal.signalsMutex.RUnlock()
		return len(front.signal.signals)
	}

	type localSub struct {
		cancel func()
		events chan []byte
		want   [][]byte
		live   bool
		signal uint32
	}
	// subscribers 0 and 1 share signal 200, subscriber 2 listens to signal 201
	subs := make([]*localSub, 3)
	sigOf := []uint32{200, 200, 201}
	emit := func(signal uint32) {
		data := sym.Bytes("emit-data", 1)
		sym.Assert(o.front.UpdateSignal(signal, data) == nil, "emit-ok")
		sym.Quiesce()
		for _, s := range subs {
			if s != nil && s.live && s.signal == signal {
				s.want = append(s.want, data)
			}
		}
	}
	check := func(s *localSub, label string) {
		got, _ := zzDrainNow(s.events)
		sym.Assert(len(got) == len(s.want), label+"/event-count")
		for i := 0; i < len(got) && i < len(s.want); i++ {
			sym.Assert(sym.EqBytes(got[i], s.want[i]), label+"/event-payload-or-order")
		}
		s.want = nil
	}
	for step := 0; step < steps; step++ {
		switch sym.Choose("op", 4) {
		case 0, 1: // subscribe / cancel subscriber k
			k := sym.Choose("who", 3)
			if subs[k] == nil {
				cancel, events, err := proxy.SubscribeID(sigOf[k])
				sym.Assert(err == nil, "subscribe-ok")
				subs[k] = &localSub{cancel: cancel, events: events, live: true, signal: sigOf[k]}
			} else if subs[k].live {
				check(subs[k], "before-cancel")
				subs[k].cancel()
				sym.Quiesce()
				subs[k].live = false
				_, closed := zzDrainNow(subs[k].events)
				sym.Assert(closed, "channel-not-closed-after-cancel")
			}
		case 2:
			emit(200)
		default:
			emit(201)
		}
		// one remote registration per signal with at least one live local subscriber
		want := 0
		for _, sig := range []uint32{200, 201} {
			for _, s := range subs {
				if s != nil && s.live && s.signal == sig {
					want++
					break
				}
			}
		}
		sym.Assert(registrations() == want, "remote-registration-count")
	}
	for _, s := range subs {
		if s != nil && s.live {
			check(s, "at-end")
		}
	}
	sym.Reach("client-half-done")
}

// C13EmitRace: three subscribers of one signal on three connections; an emission runs while the
// middle one unregisters: the other two still get the event exactly once.
func C13EmitRace() {
	h := newSignalHandler()
	h.Activate(Activation{ServiceID: 9, ObjectID: 1})
	streams := []*zzStream{newZZStream(), newZZStream(), newZZStream()}
	chans := make([]Channel, 3)
	for i := range chans {
		chans[i] = NewChannel(net.NewEndPoint(streams[i]), DefaultCap())
		msg := zzFrame(net.Call, 9, 1, 0, uint32(10+i), zzRegisterPayload(1, 0x60, uint64(70+i)))
		sym.Assert(h.RegisterEvent(&msg, chans[i]) == nil, "register-ok")
	}
	marks := []int{len(streams[0].sentMessages()), len(streams[1].sentMessages()), len(streams[2].sentMessages())}
	data := sym.Bytes("emit-data", 1)
	done := make(chan bool, 2)
	go func() { h.UpdateSignal(0x60, data); done <- true }()
	go func() {
		msg := zzFrame(net.Call, 9, 1, 1, 40, zzRegisterPayload(1, 0x60, 71))
		h.UnregisterEvent(&msg, chans[1])
		done <- true
	}()
	<-done
	<-done
	count := func(c int) int {
		n := 0
		for _, f := range streams[c].sentMessages()[marks[c]:] {
			if f.Header.Type == net.Event {
				n++
				sym.Assert(sym.EqBytes(f.Payload, data), "event-payload")
			}
		}
		return n
	}
	sym.Assert(count(0) == 1, "first-subscriber-event-count")
	sym.Assert(count(2) == 1, "last-subscriber-event-count")
	sym.Assert(count(1) <= 1, "leaving-subscriber-event-count")
	sym.Reach("emit-race-done")
}

// C13Resubscribe: repeated subscribe / cancel cycles of one local subscriber on one signal: after
// every cycle the remote registration is gone, and in every cycle events arrive exactly once.
func C13Resubscribe() {
	auth := &zzAuth{user: "u", token: "t"}
	l := newZZListener()
	srv, _ := StandAloneServer(l, auth, PrivateNamespace())
	o := &zzObj{}
	meta := object.MetaObject{Description: "zz", Signals: map[uint32]object.MetaSignal{200: {Uid: 200, Name: "sig", Signature: "(i)"}}}
	o.front = NewBasicObject(o, meta, func(string, []byte) error { return nil })
	service, _ := srv.NewService("emitter", o.front)
	cs, ss := zzPipe()
	l.conns <- ss
	sym.Quiesce()
	ch := NewChannel(net.NewEndPoint(cs), ClientCap("u", "t"))
	sym.Assert(ch.Authenticate() == nil, "client-authenticated")
	proxy := NewProxy(NewClient(ch), object.FullMetaObject(meta), service.ServiceID(), 1)
	front := o.front.(*stubObject)
	if sym.Bool("method-statistics-enabled") {
		// with statistics on, every incoming message is handled through a fresh wrapper of the connection
		sym.Assert(front.impl.EnableStats(true) == nil, "enable-stats")
	}
	registrations := func() int {
		front.signal.signalsMutex.RLock()
		defer front.signal.signalsMutex.RUnlock()
		return len(front.signal.signals)
	}
	for round := 0; round < 3; round++ {
		cancel, events, err := proxy.SubscribeID(200)
		sym.Assert(err == nil, "subscribe-ok")
		sym.Assert(registrations() == 1, "one-remote-registration-while-subscribed")
		data := sym.Bytes("emit-data", 1)
		sym.Assert(o.front.UpdateSignal(200, data) == nil, "emit-ok")
		sym.Quiesce()
		got, _ := zzDrainNow(events)
		sym.Assert(len(got) == 1, "event-exactly-once")
		if len(got) >= 1 {
			sym.Assert(sym.EqBytes(got[0], data), "event-payload")
		}
		cancel()
		sym.Quiesce()
		_, closed := zzDrainNow(events)
		sym.Assert(closed, "channel-not-closed-after-cancel")
		sym.Assert(registrations() == 0, "remote-registration-left-behind")
	}
	sym.Reach("resubscribe-done")
}

// zzWithStats makes zzEmitterSetup enable the object's method statistics (every incoming message is
// then handled through a fresh wrapper of the connection).
var zzWithStats bool

// zzEmitterSetup: a real server with an emitter object (signals 200/201, property 300) and a real
// client proxy to it over an in-process pipe.
func zzEmitterSetup() (*zzObj, Proxy, func() int) {
	auth := &zzAuth{user: "u", token: "t"}
	l := newZZListener()
	srv, _ := StandAloneServer(l, auth, PrivateNamespace())
	o := &zzObj{}
	meta := object.MetaObject{Description: "zz",
		Signals:    map[uint32]object.MetaSignal{200: {Uid: 200, Name: "sig", Signature: "(i)"}, 201: {Uid: 201, Name: "other", Signature: "(i)"}},
		Properties: map[uint32]object.MetaProperty{300: {Uid: 300, Name: "level", Signature: "i"}}}
	o.front = NewBasicObject(o, meta, func(string, []byte) error { return nil })
	service, _ := srv.NewService("emitter", o.front)
	cs, ss := zzPipe()
	l.conns <- ss
	sym.Quiesce()
	ch := NewChannel(net.NewEndPoint(cs), ClientCap("u", "t"))
	sym.Assert(ch.Authenticate() == nil, "client-authenticated")
	proxy := NewProxy(NewClient(ch), object.FullMetaObject(meta), service.ServiceID(), 1)
	front := o.front.(*stubObject)
	if zzWithStats {
		front.impl.EnableStats(true)
	}
	registrations := func() int {
		front.signal.signalsMutex.RLock()
		defer front.signal.signalsMutex.RUnlock()
		return len(front.signal.signals)
	}
	return o, proxy, registrations
}

// C13ConcurrentSubscribe: two local subscribers subscribe to the same signal on the same proxy at
// the same time: one remote registration, and each gets each event exactly once.
func C13ConcurrentSubscribe() {
	o, proxy, registrations := zzEmitterSetup()
	type sub struct {
		cancel func()
		events chan []byte
		err    error
	}
	subs := make([]*sub, 2)
	done := make(chan bool, 2)
	for i := range subs {
		subs[i] = &sub{}
		go func(s *sub) {
			s.cancel, s.events, s.err = proxy.SubscribeID(200)
			done <- true
		}(subs[i])
	}
	<-done
	<-done
	sym.Quiesce()
	sym.Assert(subs[0].err == nil && subs[1].err == nil, "subscribe-ok")
	sym.Assert(registrations() == 1, "one-remote-registration-for-two-local-subscribers")
	data := sym.Bytes("emit-data", 1)
	sym.Assert(o.front.UpdateSignal(200, data) == nil, "emit-ok")
	sym.Quiesce()
	for _, s := range subs {
		if s.err != nil {
			continue
		}
		got, _ := zzDrainNow(s.events)
		sym.Assert(len(got) == 1, "event-exactly-once")
	}
	for _, s := range subs {
		if s.err == nil {
			s.cancel()
			sym.Quiesce()
		}
	}
	sym.Assert(registrations() == 0, "remote-registration-left-behind")
	sym.Reach("concurrent-subscribe-done")
}

// C13ForeignFrames: a client subscribed to (service, object, action) receives, on the same
// connection, a frame of ANY type addressed to something else (another object of the service with
// the same action id, another action, another service: at least one of the three differs): the
// subscription is not disturbed: the frame is not delivered as an event, the channel stays open and
// the next real event arrives. Then a second subscriber on the same connection comes and goes (its
// slot is recycled): the first one still gets its events.
func C13ForeignFrames() {
	s := newZZStream()
	e := net.NewEndPoint(s)
	c := NewClient(NewChannel(e, DefaultCap()))
	svc, obj, act := sym.U32("service"), sym.U32("object"), sym.U32("action")
	_, events, err := c.Subscribe(svc, obj, act)
	sym.Assert(err == nil, "foreign/subscribe-ok")
	typ := sym.U8("foreign-type")
	sym.Assume(typ >= 1)
	sym.Assume(typ <= 8)
	fs, fo, fa := sym.U32("foreign-service"), sym.U32("foreign-object"), sym.U32("foreign-action")
	sym.Assume(sym.Or(fs != svc, sym.Or(fo != obj, fa != act)))
	s.inject(net.NewMessage(net.NewHeader(typ, fs, fo, fa, sym.U32("foreign-id")), []byte{0xEE}))
	sym.Quiesce()
	got, closed := zzDrainNow(events)
	sym.Assert(len(got) == 0, "foreign/frame-for-another-target-delivered")
	sym.Assert(!closed, "foreign/subscription-closed-by-a-frame-for-another-target")
	if closed {
		return
	}
	// a second subscriber of another action comes and goes
	if sym.Bool("second-subscriber-comes-and-goes") {
		cancel2, ev2, err := c.Subscribe(svc, obj, act+1)
		sym.Assert(err == nil, "foreign/second-subscribe-ok")
		cancel2()
		sym.Quiesce()
		_, closed2 := zzDrainNow(ev2)
		sym.Assert(closed2, "foreign/second-channel-not-closed-after-cancel")
	}
	data := sym.Bytes("event-data", 1)
	s.inject(net.NewMessage(net.NewHeader(net.Event, svc, obj, act, 9), data))
	sym.Quiesce()
	got, closed = zzDrainNow(events)
	sym.Assert(!closed, "foreign/subscription-closed")
	sym.Assert(len(got) == 1, "foreign/event-after-foreign-frame-count")
	if len(got) == 1 {
		sym.Assert(sym.EqBytes(got[0], data), "foreign/event-payload")
	}
	sym.Reach("foreign-done")
}

// C13LeaverAndNewcomer: subscriber A has unread events when it cancels; subscriber B (another signal,
// same connection) subscribes before A's channel has been drained; then A drains. B's subscription
// must not be disturbed by A's departure: its channel stays open and it gets its events.
func C13LeaverAndNewcomer() {
	s := newZZStream()
	e := net.NewEndPoint(s)
	c := NewClient(NewChannel(e, DefaultCap()))
	cancelA, evA, err := c.Subscribe(1, 1, 200)
	sym.Assert(err == nil, "leaver/subscribe-a")
	unread := 1 + sym.Choose("unread-events", 2)
	for i := 0; i < unread; i++ {
		s.inject(net.NewMessage(net.NewHeader(net.Event, 1, 1, 200, uint32(10+i)), []byte{byte(i)}))
	}
	sym.Quiesce()
	cancelA()
	if sym.Bool("quiesce-after-cancel") {
		sym.Quiesce()
	}
	_, evB, err := c.Subscribe(1, 1, 201)
	sym.Assert(err == nil, "leaver/subscribe-b")
	// A drains what it had (its channel ends up closed)
	n := 0
	for range evA {
		n++
	}
	sym.Assert(n <= unread, "leaver/a-got-more-than-was-emitted")
	sym.Quiesce()
	data := sym.Bytes("event-data", 1)
	s.inject(net.NewMessage(net.NewHeader(net.Event, 1, 1, 201, 20), data))
	sym.Quiesce()
	got, closed := zzDrainNow(evB)
	sym.Assert(!closed, "leaver/newcomer-channel-closed")
	sym.Assert(len(got) == 1, "leaver/newcomer-event-count")
	if len(got) == 1 {
		sym.Assert(sym.EqBytes(got[0], data), "leaver/newcomer-event-payload")
	}
	sym.Reach("leaver-done")
}

// C13SameIdTwoSignals: one connection registers signal A and then signal B under the SAME user id
// (a raw / libqi-style client chooses its ids). Whether or not the second registration is accepted,
// the subscriber of A keeps receiving A's events until IT is unregistered: unregistering the
// acknowledged (B, id) registration, or being refused it, must not take (A, id) away.
func C13SameIdTwoSignals() {
	h := newSignalHandler()
	h.Activate(Activation{ServiceID: 9, ObjectID: 1})
	st := newZZStream()
	ch := NewChannel(net.NewEndPoint(st), DefaultCap())
	user := sym.U64("user")
	sigA, sigB := sym.U32("signal-a"), sym.U32("signal-b")
	sym.Assume(sigA != sigB)
	regA := zzFrame(net.Call, 9, 1, 0, 10, zzRegisterPayload(1, sigA, user))
	sym.Assert(h.RegisterEvent(&regA, ch) == nil, "same-id/register-a")
	out := st.sentMessages()
	sym.Assert(len(out) == 1 && out[0].Header.Type == net.Reply, "same-id/register-a-acknowledged")
	regB := zzFrame(net.Call, 9, 1, 0, 11, zzRegisterPayload(1, sigB, user))
	h.RegisterEvent(&regB, ch)
	out = st.sentMessages()
	sym.Assert(len(out) == 2, "same-id/register-b-answered")
	if len(out) != 2 {
		return
	}
	accepted := out[1].Header.Type == net.Reply
	if accepted {
		unregB := zzFrame(net.Call, 9, 1, 1, 12, zzRegisterPayload(1, sigB, user))
		h.UnregisterEvent(&unregB, ch)
	}
	mark := len(st.sentMessages())
	data := sym.Bytes("emit-data", 1)
	h.UpdateSignal(sigA, data)
	evs := st.sentMessages()[mark:]
	sym.Assert(len(evs) == 1, "same-id/subscriber-of-a-lost-its-events")
	if len(evs) == 1 {
		sym.Assert(evs[0].Header.Type == net.Event && evs[0].Header.Action == sigA && evs[0].Header.ID == 10, "same-id/event-header")
		sym.Assert(sym.EqBytes(evs[0].Payload, data), "same-id/event-payload")
	}
	sym.Reach("same-id-done")
}

// C13TwoObjects: two objects of one service expose the same signal id; one client connection holds a
// proxy to each and subscribes through both: each subscriber gets its own object's events exactly once
// (and nothing of the other's), and one of them leaving does not disturb the other.
func C13TwoObjects() {
	auth := &zzAuth{user: "u", token: "t"}
	l := newZZListener()
	srv, _ := StandAloneServer(l, auth, PrivateNamespace())
	meta := object.MetaObject{Description: "zz", Signals: map[uint32]object.MetaSignal{200: {Uid: 200, Name: "sig", Signature: "(i)"}}}
	mk := func() *zzObj {
		o := &zzObj{}
		o.front = NewBasicObject(o, meta, func(string, []byte) error { return nil })
		return o
	}
	o1, o2 := mk(), mk()
	service, err := srv.NewService("emitter", o1.front)
	sym.Assert(err == nil, "two-objects/service")
	id2, err := service.Add(o2.front)
	sym.Assert(err == nil, "two-objects/second-object")
	sym.Assume(id2 == 5) // the random id drawn for the second object: fixed, so that the client's state keys are concrete text
	id2 = 5
	cs, ss := zzPipe()
	l.conns <- ss
	sym.Quiesce()
	ch := NewChannel(net.NewEndPoint(cs), ClientCap("u", "t"))
	sym.Assert(ch.Authenticate() == nil, "client-authenticated")
	client := NewClient(ch)
	p1 := NewProxy(client, object.FullMetaObject(meta), service.ServiceID(), 1)
	p2 := NewProxy(client, object.FullMetaObject(meta), service.ServiceID(), id2)
	cancel1, ev1, err := p1.SubscribeID(200)
	sym.Assert(err == nil, "two-objects/subscribe-1")
	_, ev2, err := p2.SubscribeID(200)
	sym.Assert(err == nil, "two-objects/subscribe-2")
	d1, d2 := sym.Bytes("data-1", 1), sym.Bytes("data-2", 1)
	sym.Assert(o1.front.UpdateSignal(200, d1) == nil, "two-objects/emit-1")
	sym.Assert(o2.front.UpdateSignal(200, d2) == nil, "two-objects/emit-2")
	sym.Quiesce()
	g1, _ := zzDrainNow(ev1)
	g2, _ := zzDrainNow(ev2)
	sym.Assert(len(g1) == 1 && len(g2) == 1, "two-objects/each-subscriber-its-own-event")
	if len(g1) == 1 && len(g2) == 1 {
		sym.Assert(sym.And(sym.EqBytes(g1[0], d1), sym.EqBytes(g2[0], d2)), "two-objects/payloads")
	}
	// the first subscriber leaves: the second still gets its object's events
	cancel1()
	sym.Quiesce()
	d3 := sym.Bytes("data-3", 1)
	sym.Assert(o2.front.UpdateSignal(200, d3) == nil, "two-objects/emit-3")
	sym.Assert(o1.front.UpdateSignal(200, d1) == nil, "two-objects/emit-4")
	sym.Quiesce()
	g2, closed2 := zzDrainNow(ev2)
	sym.Assert(!closed2 && len(g2) == 1, "two-objects/other-subscriber-disturbed")
	if len(g2) == 1 {
		sym.Assert(sym.EqBytes(g2[0], d3), "two-objects/payload-after-leave")
	}
	sym.Reach("two-objects-done")
}

// C13RegisterRacingDisconnect: subscribers B and C are registered; A registers while B's connection
// goes away (its registration is cleaned up): afterwards an emission reaches C exactly once and A
// exactly once (if its registration was acknowledged), and nothing is sent for B.
func C13RegisterRacingDisconnect() {
	h := newSignalHandler()
	h.Activate(Activation{ServiceID: 9, ObjectID: 1})
	streams := make([]*zzStream, 3)
	chans := make([]Channel, 3)
	for i := range chans {
		streams[i] = newZZStream()
		chans[i] = NewChannel(net.NewEndPoint(streams[i]), DefaultCap())
	}
	const sig = 0x60
	for i := 1; i < 3; i++ { // B = 1, C = 2
		msg := zzFrame(net.Call, 9, 1, 0, uint32(10+i), zzRegisterPayload(1, sig, uint64(70+i)))
		sym.Assert(h.RegisterEvent(&msg, chans[i]) == nil, "register-ok")
	}
	done := make(chan bool, 2)
	go func() {
		msg := zzFrame(net.Call, 9, 1, 0, 10, zzRegisterPayload(1, sig, 70))
		h.RegisterEvent(&msg, chans[0])
		done <- true
	}()
	go func() {
		chans[1].EndPoint().Close() // B's connection goes away: its close callback unregisters it
		done <- true
	}()
	<-done
	<-done
	sym.Quiesce()
	marks := []int{len(streams[0].sentMessages()), 0, len(streams[2].sentMessages())}
	data := sym.Bytes("emit-data", 1)
	h.UpdateSignal(sig, data)
	evC := streams[2].sentMessages()[marks[2]:]
	sym.Assert(len(evC) == 1, "register-race/bystander-event-count")
	evA := streams[0].sentMessages()[marks[0]:]
	sym.Assert(len(evA) <= 1, "register-race/newcomer-event-duplicated")
	h.signalsMutex.RLock()
	n := len(h.signals)
	h.signalsMutex.RUnlock()
	sym.Assert(n <= 2, "register-race/departed-subscriber-still-registered")
	sym.Reach("register-race-done")
}

// C13LargeEventWhileSubscribing: a large event (5000 bytes) is emitted to a subscriber while the object
// answers another registration of the same client on the same connection: the subscriber's stream
// carries exactly that event, intact, and the answer — whatever the interleaving of the two senders.
func C13LargeEventWhileSubscribing() {
	sym.SetMaxMaterialise(1 << 16)
	h := newSignalHandler()
	h.Activate(Activation{ServiceID: 9, ObjectID: 1})
	st := newZZStream()
	ch := NewChannel(net.NewEndPoint(st), DefaultCap())
	msg := zzFrame(net.Call, 9, 1, 0, 10, zzRegisterPayload(1, 0x60, 70))
	sym.Assert(h.RegisterEvent(&msg, ch) == nil, "register-ok")
	mark := len(st.sent())
	const n = 5000
	data := make([]byte, n)
	data[0], data[n/2], data[n-1] = sym.U8("first"), sym.U8("middle"), sym.U8("last")
	done := make(chan bool, 2)
	go func() { h.UpdateSignal(0x60, data); done <- true }()
	go func() {
		msg := zzFrame(net.Call, 9, 1, 0, 41, zzRegisterPayload(1, 0x61, 71))
		sym.Assert(h.RegisterEvent(&msg, ch) == nil, "second-register-ok")
		done <- true
	}()
	<-done
	<-done
	wire := st.sent()[mark:]
	r := bytes.NewReader(wire)
	events, replies := 0, 0
	for r.Len() > 0 {
		var m net.Message
		if err := m.Read(r); err != nil {
			sym.Fail("large-event/stream-corrupted")
			return
		}
		switch m.Header.Type {
		case net.Event:
			events++
			sym.Assert(len(m.Payload) == n, "large-event/payload-length")
			if len(m.Payload) == n {
				sym.Assert(sym.And(m.Payload[0] == data[0], sym.And(m.Payload[n/2] == data[n/2], m.Payload[n-1] == data[n-1])), "large-event/payload-altered")
			}
		case net.Reply:
			replies++
			sym.Assert(m.Header.ID == 41, "large-event/answer-id")
		default:
			sym.Fail("large-event/unexpected-frame")
		}
	}
	sym.Assert(events == 1, "large-event/event-count")
	sym.Assert(replies == 1, "large-event/answer-count")
	sym.Reach("large-event-done")
}

// C13EmitWhileRegistering: one subscriber is registered; a second one registers (on its own connection)
// while an emission of the same signal is in progress. The first subscriber gets that event exactly once,
// the newcomer at most once — and once both calls have returned, the NEXT emission reaches both exactly
// once (an acknowledged registration is in the subscriber table, whatever ran concurrently with it).
func C13EmitWhileRegistering() {
	h := newSignalHandler()
	h.Activate(Activation{ServiceID: 9, ObjectID: 1})
	streams := []*zzStream{newZZStream(), newZZStream()}
	chans := []Channel{NewChannel(net.NewEndPoint(streams[0]), DefaultCap()), NewChannel(net.NewEndPoint(streams[1]), DefaultCap())}
	first := zzFrame(net.Call, 9, 1, 0, 10, zzRegisterPayload(1, 0x60, 70))
	sym.Assert(h.RegisterEvent(&first, chans[0]) == nil, "register-ok")
	// an earlier emission (whatever the implementation remembers about the subscribers of a signal is warm)
	if sym.Bool("an-emission-before") {
		h.UpdateSignal(0x60, []byte{0xEE})
	}
	marks := []int{len(streams[0].sentMessages()), len(streams[1].sentMessages())}
	d1 := sym.Bytes("emit-data-1", 1)
	done := make(chan bool, 2)
	var regErr error
	go func() { h.UpdateSignal(0x60, d1); done <- true }()
	go func() {
		msg := zzFrame(net.Call, 9, 1, 0, 11, zzRegisterPayload(1, 0x60, 71))
		regErr = h.RegisterEvent(&msg, chans[1])
		done <- true
	}()
	<-done
	<-done
	sym.Assert(regErr == nil, "concurrent-register-ok")
	events := func(c int, from int) [][]byte {
		var out [][]byte
		for _, f := range streams[c].sentMessages()[from:] {
			if f.Header.Type == net.Event {
				out = append(out, f.Payload)
			}
		}
		return out
	}
	e0, e1 := events(0, marks[0]), events(1, marks[1])
	sym.Assert(len(e0) == 1, "first-subscriber-gets-the-concurrent-event-once")
	sym.Assert(len(e1) <= 1, "newcomer-gets-the-concurrent-event-at-most-once")
	marks = []int{len(streams[0].sentMessages()), len(streams[1].sentMessages())}
	d2 := sym.Bytes("emit-data-2", 1)
	h.UpdateSignal(0x60, d2)
	e0, e1 = events(0, marks[0]), events(1, marks[1])
	sym.Assert(len(e0) == 1, "first-subscriber-gets-the-next-event-once")
	sym.Assert(len(e1) == 1, "newcomer-gets-the-next-event-once")
	if len(e1) == 1 {
		sym.Assert(sym.EqBytes(e1[0], d2), "newcomer-event-payload")
	}
	sym.Reach("emit-while-registering-done")
}
