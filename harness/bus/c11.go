//go:build verif

package bus

import (
	"bytes"
	"sync"
	"sync/atomic"

	"github.com/lugu/qiloop/bus/net"
	"github.com/lugu/qiloop/internal/zzverif/sym"
)

// c11Loss: pending calls + a subscription + a disconnect callback on one client; the connection
// fails at a solver-chosen point (in the middle of an incoming frame, by a local Close, by the
// stream dying, or on a write). Every call returns an error, later calls fail, the subscription
// channel is closed and the callback fired exactly once.
func c11Loss(pending int) {
	s := newZZStream()
	// closing a broken transport may itself report an error (TLS close_notify after a reset...)
	s.closeErr = sym.Bool("close-reports-an-error")
	e := net.NewEndPoint(s)
	c := NewClient(NewChannel(e, DefaultCap()))
	var disconnects int32
	c.OnDisconnect(func(err error) { atomic.AddInt32(&disconnects, 1) })
	_, events, err := c.Subscribe(1, 1, 5)
	sym.Assert(err == nil, "subscribe-ok")

	kind := sym.Choose("fault", 6)
	if kind >= 4 {
		// a stalled peer: the k-th and later writes block until the connection is closed; the
		// connection then fails (4: the read side dies, 5: local Close) while a sender is stuck
		s.blockWrites = 1 + sym.Choose("first-blocked-write", pending)
	}
	if kind == 3 {
		// the k-th write on the stream fails (k over the writes of this scenario)
		s.failAt = 1 + sym.Choose("failing-write", pending)
	}
	res := make([]chan zzCallRes, pending)
	for i := 0; i < pending; i++ {
		res[i] = make(chan zzCallRes, 1)
		go func(i int) {
			p, err := c.Call(nil, 1, 1, uint32(100+i), []byte{byte(i)})
			res[i] <- zzCallRes{p, err}
		}(i)
	}
	sym.Quiesce()
	calls := s.sentMessages()
	switch kind {
	case 0:
		// the peer dies in the middle of a reply frame (cut position free), possibly before any byte
		id := uint32(3)
		if len(calls) > 0 {
			id = calls[0].Header.ID
		}
		var buf bytes.Buffer
		reply := net.NewMessage(net.NewHeader(net.Reply, 1, 1, 100, id), []byte{9})
		reply.Write(&buf)
		cut := sym.Concrete(sym.Int("cut", 0, buf.Len()-1))
		if cut > 0 {
			s.in <- buf.Bytes()[:cut]
		}
		s.peerClose()
	case 1:
		e.Close()
	case 2:
		s.Close() // the transport dies under the endpoint
	case 4:
		s.peerClose()
	case 5:
		e.Close()
	case 3:
		// a write failed: the failing call returned by itself; the connection is then closed by the user
		sym.Quiesce()
		e.Close()
	}
	sym.Quiesce()
	for i := 0; i < pending; i++ {
		r := <-res[i] // a call that hangs is a deadlock finding
		sym.Assert(r.err != nil, "pending-call-succeeded-without-reply")
	}
	// a later call fails too (promptly: no timers are involved, it must simply return)
	_, err = c.Call(nil, 1, 1, 200, nil)
	sym.Assert(err != nil, "call-after-loss-succeeded")
	// the subscription channel is closed
	n := 0
	for range events {
		n++
	}
	sym.Assert(n == 0, "event-from-nowhere")
	sym.Assert(atomic.LoadInt32(&disconnects) == 1, "disconnect-callback-exactly-once")
	sym.Reach("loss-done")
}

func C11Loss()     { c11Loss(1) }
func C11LossDeep() { c11Loss(2) }

// C11EarlyReply: the reply is fully dispatched by the reader goroutine before the Write of the call
// has returned: it must still reach its caller.
func C11EarlyReply() {
	s := newZZStream()
	e := net.NewEndPoint(s)
	c := NewClient(NewChannel(e, DefaultCap()))
	answered := false
	payload := sym.Bytes("reply", 1)
	lostRightAfter := sym.Bool("connection-lost-right-after-the-early-reply")
	s.onWrite = func(p []byte) {
		if answered {
			return
		}
		var m net.Message
		if m.Read(bytes.NewReader(p)) != nil || m.Header.Type != net.Call {
			return
		}
		answered = true
		h := m.Header
		h.Type = net.Reply
		s.inject(net.NewMessage(h, payload))
		sym.Quiesce() // the reply is read and dispatched while the caller is still inside Send
		if lostRightAfter {
			// ... and the peer is gone right behind its reply, still before Send returns
			s.peerClose()
			sym.Quiesce()
		}
	}
	got, err := c.Call(nil, sym.U32("service"), sym.U32("object"), sym.U32("action"), []byte{1})
	sym.Assert(err == nil, "early-reply-lost")
	sym.Assert(sym.EqBytes(got, payload), "early-reply-payload")
	sym.Reach("early-reply-done")
}

// C11ManyPending: more pending calls than the endpoint's initial handler table (10 slots) plus a
// disconnect callback: when the peer vanishes every one of them returns.
func C11ManyPending() {
	s := newZZStream()
	e := net.NewEndPoint(s)
	c := NewClient(NewChannel(e, DefaultCap()))
	var disconnects int32
	c.OnDisconnect(func(err error) { atomic.AddInt32(&disconnects, 1) })
	var disconnects2 int32
	c.OnDisconnect(func(err error) { atomic.AddInt32(&disconnects2, 1) }) // a second, independent callback
	const pending = 11
	res := make([]chan zzCallRes, pending)
	for i := 0; i < pending; i++ {
		res[i] = make(chan zzCallRes, 1)
		go func(i int) {
			p, err := c.Call(nil, 1, 1, uint32(100+i), []byte{byte(i)})
			res[i] <- zzCallRes{p, err}
		}(i)
	}
	sym.Quiesce()
	if sym.Bool("local-close") {
		e.Close()
	} else {
		s.peerClose()
	}
	sym.Quiesce()
	for i := 0; i < pending; i++ {
		r := <-res[i]
		sym.Assert(r.err != nil, "pending-call-succeeded-without-reply")
	}
	sym.Assert(atomic.LoadInt32(&disconnects) == 1, "disconnect-callback-exactly-once")
	sym.Assert(atomic.LoadInt32(&disconnects2) == 1, "second-disconnect-callback-exactly-once")
	sym.Reach("many-pending-done")
}

// C11CallRacingWithLoss: a call is issued while the connection is being torn down after a read
// failure (the write side still accepts data): it must return, with a result or an error.
func C11CallRacingWithLoss() {
	s := newZZStream()
	e := net.NewEndPoint(s)
	c := NewClient(NewChannel(e, DefaultCap()))
	done := make(chan zzCallRes, 1)
	go func() {
		p, err := c.Call(nil, 1, 1, 7, []byte{1})
		done <- zzCallRes{p, err}
	}()
	go func() { s.peerClose() }()
	sym.Quiesce()
	<-done // blocked forever = deadlock finding
	// and the connection is dead for later calls
	_, err := c.Call(nil, 1, 1, 8, nil)
	sym.Assert(err != nil, "call-after-loss-succeeded")
	sym.Reach("racing-call-done")
}

// C11CloseRacingWithReply: the reply to a pending call and an event for a subscription are being
// dispatched while the local side closes the connection: no crash (a send on a closed queue is a
// panic), the call returns (result or error), the subscription channel ends up closed, the
// disconnect callback fires exactly once.
func C11CloseRacingWithReply() {
	s := newZZStream()
	e := net.NewEndPoint(s)
	c := NewClient(NewChannel(e, DefaultCap()))
	var disconnects int32
	c.OnDisconnect(func(err error) { atomic.AddInt32(&disconnects, 1) })
	_, events, err := c.Subscribe(1, 1, 5)
	sym.Assert(err == nil, "subscribe-ok")
	done := make(chan zzCallRes, 1)
	go func() {
		p, err := c.Call(nil, 1, 1, 7, []byte{1})
		done <- zzCallRes{p, err}
	}()
	sym.Quiesce()
	calls := s.sentMessages()
	sym.Assert(len(calls) == 1, "call-frame-sent")
	if len(calls) != 1 {
		return
	}
	h := calls[0].Header
	h.Type = net.Reply
	go func() {
		s.inject(net.NewMessage(net.NewHeader(net.Event, 1, 1, 5, 9), []byte{3}))
		s.inject(net.NewMessage(h, []byte{2}))
	}()
	go func() { e.Close() }()
	sym.Quiesce()
	r := <-done
	if r.err == nil {
		sym.Assert(len(r.payload) == 1 && r.payload[0] == 2, "close-race/reply-altered")
	}
	n := 0
	for range events {
		n++
	}
	sym.Assert(n <= 1, "close-race/event-duplicated")
	sym.Assert(atomic.LoadInt32(&disconnects) == 1, "disconnect-callback-exactly-once")
	sym.Reach("close-race-done")
}

// C11SubscriptionAfterLoss: a subscriber that is one event behind when the connection is lost (by the
// peer, locally, or under the endpoint) and then cancels its subscription, as an application does from
// its disconnect callback: its channel still ends up closed (draining it terminates), with at most the
// one pending event.
func C11SubscriptionAfterLoss() {
	s := newZZStream()
	e := net.NewEndPoint(s)
	c := NewClient(NewChannel(e, DefaultCap()))
	cancelSub, events, err := c.Subscribe(1, 1, 5)
	sym.Assert(err == nil, "subscribe-ok")
	behind := sym.Bool("subscriber-one-event-behind")
	if behind {
		s.inject(net.NewMessage(net.NewHeader(net.Event, 1, 1, 5, 77), []byte{7}))
		sym.Quiesce()
	}
	switch sym.Choose("loss", 3) {
	case 0:
		s.peerClose()
	case 1:
		e.Close()
	default:
		s.Close()
	}
	sym.Quiesce()
	if sym.Bool("subscriber-cancels-after-the-loss") {
		cancelSub()
	}
	n := 0
	for range events { // a channel that is never closed is a deadlock finding
		n++
	}
	if behind {
		sym.Assert(n <= 1, "sub-after-loss/event-duplicated")
	} else {
		sym.Assert(n == 0, "sub-after-loss/event-from-nowhere")
	}
	sym.Reach("sub-after-loss-done")
}

// C11BlockingDisconnectCallback: a disconnect callback that waits for the calls in flight to return
// before it cleans up (registered before the calls, or between them): the loss of the connection
// still ends every pending call with an error and tells every callback and subscription once —
// nobody's notification waits behind somebody else's callback.
func C11BlockingDisconnectCallback() {
	s := newZZStream()
	e := net.NewEndPoint(s)
	c := NewClient(NewChannel(e, DefaultCap()))
	const pending = 3
	var wg sync.WaitGroup
	var disconnects, late int32
	callbackFirst := sym.Bool("callback-registered-before-the-calls")
	blocking := func(err error) {
		wg.Wait() // the workers using the connection have returned
		atomic.AddInt32(&disconnects, 1)
	}
	if callbackFirst {
		c.OnDisconnect(blocking)
	}
	res := make([]chan zzCallRes, pending)
	for i := 0; i < pending; i++ {
		res[i] = make(chan zzCallRes, 1)
		wg.Add(1)
		go func(i int) {
			defer wg.Done()
			p, err := c.Call(nil, 1, 1, uint32(100+i), []byte{byte(i)})
			res[i] <- zzCallRes{p, err}
		}(i)
		sym.Quiesce()
		if !callbackFirst && i == 0 {
			c.OnDisconnect(blocking)
		}
	}
	cancel, events, err := c.Subscribe(1, 1, 200)
	sym.Assert(err == nil, "blocking-callback/subscribe")
	c.OnDisconnect(func(err error) { atomic.AddInt32(&late, 1) })
	if sym.Bool("local-close") {
		e.Close()
	} else {
		s.peerClose()
	}
	sym.Quiesce()
	for i := 0; i < pending; i++ {
		select {
		case r := <-res[i]:
			sym.Assert(r.err != nil, "blocking-callback/pending-call-succeeded-without-reply")
		default:
			sym.Fail("blocking-callback/call-still-pending-after-the-loss")
			return
		}
	}
	sym.Assert(atomic.LoadInt32(&disconnects) == 1, "blocking-callback/callback-exactly-once")
	sym.Assert(atomic.LoadInt32(&late) == 1, "blocking-callback/later-callback-exactly-once")
	if err == nil {
		select {
		case _, ok := <-events:
			sym.Assert(!ok, "blocking-callback/subscription-not-closed")
		default:
			sym.Fail("blocking-callback/subscription-not-closed")
		}
		cancel()
	}
	sym.Reach("blocking-callback-done")
}

// C11SlowSubscriber: a subscriber that does not read its events falls far behind (150 events: beyond every
// queue on the way), while a call is in flight and a disconnect callback is registered; then the connection
// is lost (by the peer, or closed locally). The pending call returns an error, the callback runs once, a
// later call fails, Close returns and the subscriber's channel ends up closed — nobody waits for the
// subscriber to catch up.
func C11SlowSubscriber() {
	s := newZZStream()
	e := net.NewEndPoint(s)
	c := NewClient(NewChannel(e, DefaultCap()))
	_, events, err := c.Subscribe(1, 1, 5)
	sym.Assert(err == nil, "slow-subscriber/subscribe-ok")
	var disconnects int32
	c.OnDisconnect(func(err error) { atomic.AddInt32(&disconnects, 1) })
	res := make(chan zzCallRes, 1)
	go func() {
		p, err := c.Call(nil, 1, 1, 100, []byte{1})
		res <- zzCallRes{p, err}
	}()
	sym.Quiesce()
	n := []int{3, 150}[sym.Choose("events-unread", 2)]
	for i := 0; i < n; i++ {
		s.inject(net.NewMessage(net.NewHeader(net.Event, 1, 1, 5, uint32(1000+i)), []byte{byte(i)}))
	}
	sym.Quiesce()
	local := sym.Bool("closed-locally")
	if local {
		e.Close()
	} else {
		s.peerClose()
	}
	sym.Quiesce()
	select {
	case r := <-res:
		sym.Assert(r.err != nil, "slow-subscriber/pending-call-succeeded")
	default:
		sym.Fail("slow-subscriber/pending-call-never-returned")
	}
	sym.Assert(atomic.LoadInt32(&disconnects) == 1, "slow-subscriber/disconnect-callback-count")
	_, err = c.Call(nil, 1, 1, 101, []byte{2})
	sym.Assert(err != nil, "slow-subscriber/later-call-succeeded")
	got := 0
	for range events { // a channel that is never closed is a deadlock finding
		got++
	}
	sym.Assert(got <= n, "slow-subscriber/event-from-nowhere")
	sym.Reach("slow-subscriber-done")
}
