//go:build verif

package bus

import (
	"bytes"
	"fmt"

	"github.com/lugu/qiloop/bus/net"
	"github.com/lugu/qiloop/internal/zzverif/sym"
	"github.com/lugu/qiloop/type/basic"
	"github.com/lugu/qiloop/type/object"
	"github.com/lugu/qiloop/type/value"
)

const zzPropID = 300

// zzPropObject: an object with one int32 property "delay" validated like the generated stubs do
// (decode with the declared type, then ask the implementor), threshold symbolic.
func zzPropObject(threshold int32) *zzObj {
	o := &zzObj{}
	meta := object.MetaObject{Description: "zz", Properties: map[uint32]object.MetaProperty{
		zzPropID: {Uid: zzPropID, Name: "delay", Signature: "i"}}}
	o.front = NewBasicObject(o, meta, func(name string, data []byte) error {
		switch name {
		case "delay":
			prop, err := basic.ReadInt32(bytes.NewBuffer(data))
			if err != nil {
				return fmt.Errorf("cannot read Delay: %s", err)
			}
			sym.Yield() // validating takes time: other writes may arrive meanwhile
			if prop < threshold {
				return fmt.Errorf("delay too small")
			}
			return nil
		default:
			return fmt.Errorf("unknown property %s", name)
		}
	})
	return o
}

func zzValueBytes(v value.Value) []byte {
	var buf bytes.Buffer
	v.Write(&buf)
	return buf.Bytes()
}

// zzWrite: a symbolic write request: right type, or a wrong type / wrong size.
func zzWrite() (v value.Value, wellTyped bool, asInt32 int32) {
	switch sym.Choose("write-kind", 5) {
	case 4:
		// the declared type wrapped in a tuple: "(i)" is not "i"
		var raw [4]byte
		x := sym.U32("new-tuple")
		raw[0], raw[1], raw[2], raw[3] = byte(x), byte(x>>8), byte(x>>16), byte(x>>24)
		return value.Opaque("(i)", raw[:]), false, 0
	case 0:
		x := sym.I32("new-int")
		return value.Int(x), true, x
	case 1:
		return value.Uint(sym.U32("new-uint")), false, 0
	case 2:
		return value.String(sym.Str("new-str", 4)), false, 0
	default:
		return value.Int8(sym.I8("new-int8")), false, 0
	}
}

// c14Register: get / set (valid, invalid, wrongly-typed) / service-side update sequences on a
// property with one subscriber, against a register model.
func c14Register(steps int) {
	auth := &zzAuth{user: "u", token: "t"}
	l := newZZListener()
	srv, err := StandAloneServer(l, auth, PrivateNamespace())
	sym.Assert(err == nil, "server-started")
	threshold := sym.I32("threshold")
	o := zzPropObject(threshold)
	service, err := srv.NewService("props", o.front)
	sym.Assert(err == nil, "service-registered")
	sid := service.ServiceID()
	a := zzAuthConn(l, 1)   // the writer
	sub := zzAuthConn(l, 1) // the subscriber
	out := zzRoundTrip(sub, zzFrame(net.Call, sid, 1, 0, 5, zzRegisterPayload(1, zzPropID, 77)))
	sym.Assert(len(out) == 1 && out[0].Header.Type == net.Reply, "subscribed")
	subMark := len(sub.sentMessages())

	hasValue := false
	var cur int32
	name := zzValueBytes(value.String("delay"))
	id := uint32(20)
	for step := 0; step < steps; step++ {
		id++
		wantEvent := false
		var wantData int32
		switch sym.Choose("op", 3) {
		case 0: // remote set
			v, wellTyped, x := zzWrite()
			// the property may be named by its name or by its id
			key := name
			if sym.Bool("by-id") {
				key = zzValueBytes(value.Uint(zzPropID))
			}
			out := zzRoundTrip(a, zzFrame(net.Call, sid, 1, 6, id, append(append([]byte{}, key...), zzValueBytes(v)...)))
			sym.Assert(len(out) == 1, "set-answered")
			accepted := len(out) == 1 && out[0].Header.Type == net.Reply
			if wellTyped {
				if x >= threshold {
					sym.Assert(accepted, "valid-write-refused")
				} else {
					sym.Assert(!accepted, "write-rejected-by-validator-accepted")
				}
			} else {
				// label names the wrong kind: a finding is keyed by it
				sym.Assert(!accepted, "wrongly-typed-write-accepted/"+v.Signature())
			}
			if accepted && wellTyped {
				hasValue, cur = true, x
				wantEvent, wantData = true, x
			}
			if accepted && !wellTyped {
				return // the register is corrupted from here on: reported above
			}
		case 1: // service-side update
			x := sym.I32("update-int")
			err := o.front.UpdateProperty(zzPropID, "i", zzLE32(uint32(x)))
			sym.Quiesce()
			if x >= threshold {
				sym.Assert(err == nil, "valid-update-refused")
				hasValue, cur = true, x
				wantEvent, wantData = true, x
			} else {
				sym.Assert(err != nil, "update-rejected-by-validator-accepted")
			}
		default: // remote get
			out := zzRoundTrip(a, zzFrame(net.Call, sid, 1, 5, id, name))
			sym.Assert(len(out) == 1, "get-answered")
			if len(out) == 1 {
				if hasValue {
					sym.Assert(out[0].Header.Type == net.Reply, "get-failed")
					want := append(zzValueBytes(value.String("i"))[1+4:], zzLE32(uint32(cur))...) // "i" signature string + body
					_ = want
					sym.Assert(sym.EqBytes(out[0].Payload, zzValueBytes(value.Int(cur))), "get-returns-last-accepted-write-with-declared-type")
				} else {
					sym.Assert(out[0].Header.Type == net.Error, "get-before-any-write")
				}
			}
		}
		// events seen by the subscriber during this step
		evs := sub.sentMessages()[subMark:]
		subMark += len(evs)
		if wantEvent {
			sym.Assert(len(evs) == 1, "accepted-write-event-count")
			if len(evs) == 1 {
				sym.Assert(sym.And(evs[0].Header.Type == net.Event, evs[0].Header.Action == zzPropID), "event-header")
				sym.Assert(sym.EqBytes(evs[0].Payload, zzLE32(uint32(wantData))), "event-carries-new-value")
			}
		} else {
			sym.Assert(len(evs) == 0, "event-without-accepted-write")
		}
	}
	sym.Reach("register-done")
}

func C14Register()     { c14Register(2) }
func C14RegisterDeep() { c14Register(3) }

// C14Concurrent: a remote set races with a service-side update: both accepted writes produce
// exactly one event each, and the register ends up holding one of the two values.
func C14Concurrent() {
	auth := &zzAuth{user: "u", token: "t"}
	l := newZZListener()
	srv, _ := StandAloneServer(l, auth, PrivateNamespace())
	o := zzPropObject(-1 << 31)
	service, _ := srv.NewService("props", o.front)
	sid := service.ServiceID()
	a := zzAuthConn(l, 1)
	sub := zzAuthConn(l, 1)
	zzRoundTrip(sub, zzFrame(net.Call, sid, 1, 0, 5, zzRegisterPayload(1, zzPropID, 77)))
	subMark := len(sub.sentMessages())
	x, y := sym.I32("remote-value"), sym.I32("local-value")
	name := zzValueBytes(value.String("delay"))
	done := make(chan bool, 2)
	go func() {
		a.inject(zzFrame(net.Call, sid, 1, 6, 30, append(append([]byte{}, name...), zzValueBytes(value.Int(x))...)))
		done <- true
	}()
	go func() {
		sym.Assert(o.front.UpdateProperty(zzPropID, "i", zzLE32(uint32(y))) == nil, "local-update-ok")
		done <- true
	}()
	<-done
	<-done
	sym.Quiesce()
	evs := sub.sentMessages()[subMark:]
	sym.Assert(len(evs) == 2, "two-accepted-writes-two-events")
	if len(evs) == 2 {
		ex, ey := zzLE32(uint32(x)), zzLE32(uint32(y))
		sym.Assert(sym.Or(sym.And(sym.EqBytes(evs[0].Payload, ex), sym.EqBytes(evs[1].Payload, ey)),
			sym.And(sym.EqBytes(evs[0].Payload, ey), sym.EqBytes(evs[1].Payload, ex))), "events-carry-the-two-values")
	}
	out := zzRoundTrip(a, zzFrame(net.Call, sid, 1, 5, 31, name))
	sym.Assert(len(out) >= 1, "get-answered")
	if len(out) >= 1 {
		last := out[len(out)-1]
		sym.Assert(sym.Or(sym.EqBytes(last.Payload, zzValueBytes(value.Int(x))), sym.EqBytes(last.Payload, zzValueBytes(value.Int(y)))), "register-holds-one-of-the-writes")
	}
	sym.Reach("concurrent-done")
}

// C14UpdateRace: three subscribers of a property; a service-side update is being announced while the
// middle subscriber unregisters: the two others get exactly one change event for that accepted write.
func C14UpdateRace() {
	o := zzPropObject(-1 << 31)
	front := o.front.(*stubObject)
	h := front.signal
	h.Activate(Activation{ServiceID: 9, ObjectID: 1})
	streams := []*zzStream{newZZStream(), newZZStream(), newZZStream()}
	chans := make([]Channel, 3)
	marks := make([]int, 3)
	for i := range chans {
		chans[i] = NewChannel(net.NewEndPoint(streams[i]), DefaultCap())
		msg := zzFrame(net.Call, 9, 1, 0, uint32(10+i), zzRegisterPayload(1, zzPropID, uint64(70+i)))
		sym.Assert(h.RegisterEvent(&msg, chans[i]) == nil, "register-ok")
		marks[i] = len(streams[i].sentMessages())
	}
	x := sym.I32("value")
	done := make(chan bool, 2)
	go func() {
		sym.Assert(o.front.UpdateProperty(zzPropID, "i", zzLE32(uint32(x))) == nil, "update-ok")
		done <- true
	}()
	go func() {
		msg := zzFrame(net.Call, 9, 1, 1, 40, zzRegisterPayload(1, zzPropID, 71))
		h.UnregisterEvent(&msg, chans[1])
		done <- true
	}()
	<-done
	<-done
	events := func(i int) int {
		n := 0
		for _, f := range streams[i].sentMessages()[marks[i]:] {
			if f.Header.Type == net.Event {
				n++
				sym.Assert(sym.EqBytes(f.Payload, zzLE32(uint32(x))), "event-carries-new-value")
			}
		}
		return n
	}
	sym.Assert(events(0) == 1, "first-subscriber-event-count")
	sym.Assert(events(2) == 1, "last-subscriber-event-count")
	sym.Assert(events(1) <= 1, "leaving-subscriber-event-count")
	sym.Reach("update-race-done")
}

// C14Resubscribe: a client subscribes to a property, cancels, subscribes again: every accepted
// write made while it is subscribed still reaches it exactly once (client writes and service-side
// updates, including an update that repeats the current value).
func C14Resubscribe() {
	zzWithStats = sym.Bool("method-statistics-enabled")
	o, proxy, _ := zzEmitterSetup()
	zzWithStats = false
	obj := proxyObject{proxy}
	for round := 0; round < 3; round++ {
		cancel, events, err := proxy.SubscribeID(300)
		sym.Assert(err == nil, "subscribe-ok")
		x := sym.I32("value")
		if sym.Bool("service-side") {
			sym.Assert(o.front.UpdateProperty(300, "i", zzLE32(uint32(x))) == nil, "update-ok")
		} else {
			sym.Assert(obj.SetProperty(value.String("level"), value.Int(x)) == nil, "set-ok")
		}
		sym.Quiesce()
		got, _ := zzDrainNow(events)
		sym.Assert(len(got) == 1, "accepted-write-event-count")
		if len(got) == 1 {
			sym.Assert(sym.EqBytes(got[0], zzLE32(uint32(x))), "event-carries-new-value")
		}
		// the same value again, from the service: still an accepted write
		sym.Assert(o.front.UpdateProperty(300, "i", zzLE32(uint32(x))) == nil, "repeat-update-ok")
		sym.Quiesce()
		got, _ = zzDrainNow(events)
		sym.Assert(len(got) == 1, "repeated-value-event-count")
		cancel()
		sym.Quiesce()
	}
	sym.Reach("resubscribe-done")
}

// C14DeadSubscriber: one of the property's subscribers sits on a connection whose writes fail (broken
// pipe not noticed yet). A client write the validator accepts is still ONE accepted write: the healthy
// subscriber gets exactly one event with the new value and reading the property returns that value.
func C14DeadSubscriber() {
	auth := &zzAuth{user: "u", token: "t"}
	l := newZZListener()
	srv, err := StandAloneServer(l, auth, PrivateNamespace())
	sym.Assert(err == nil, "server-started")
	o := zzPropObject(-100)
	service, err := srv.NewService("props", o.front)
	sym.Assert(err == nil, "service-registered")
	sid := service.ServiceID()
	a := zzAuthConn(l, 1) // the writer
	subs := []*zzStream{zzAuthConn(l, 1), zzAuthConn(l, 1)}
	for i, sub := range subs {
		out := zzRoundTrip(sub, zzFrame(net.Call, sid, 1, 0, 5, zzRegisterPayload(1, zzPropID, uint64(77+i))))
		sym.Assert(len(out) == 1 && out[0].Header.Type == net.Reply, "subscribed")
	}
	dead := sym.Choose("dead-subscriber", 2)
	healthy := subs[1-dead]
	subs[dead].mu.Lock()
	subs[dead].failFrom = subs[dead].writes + 1
	subs[dead].mu.Unlock()
	mark := len(healthy.sentMessages())
	name := zzValueBytes(value.String("delay"))
	x := sym.I32("new-value")
	sym.Assume(x >= -100)
	out := zzRoundTrip(a, zzFrame(net.Call, sid, 1, 6, 30, append(append([]byte{}, name...), zzValueBytes(value.Int(x))...)))
	sym.Assert(len(out) == 1, "set-answered")
	events := healthy.sentMessages()[mark:]
	sym.Assert(len(events) == 1, "dead-subscriber/healthy-subscriber-event-count")
	if len(events) == 1 {
		sym.Assert(sym.EqBytes(events[0].Payload, zzLE32(uint32(x))), "dead-subscriber/event-carries-new-value")
	}
	got := zzRoundTrip(a, zzFrame(net.Call, sid, 1, 5, 31, name))
	sym.Assert(len(got) == 1 && got[0].Header.Type == net.Reply, "dead-subscriber/get-answered")
	if len(got) == 1 && got[0].Header.Type == net.Reply {
		sym.Assert(sym.EqBytes(got[0].Payload, zzValueBytes(value.Int(x))), "dead-subscriber/announced-value-not-readable")
	}
	sym.Reach("dead-subscriber-done")
}

// C14TwoProperties: an object with two properties; a client writes one while the service itself
// updates the other (two accepted writes of DIFFERENT registers overlapping): afterwards both reads
// return what was written: neither write is lost.
func C14TwoProperties() {
	sym.Schedules(false) // set-up under the default schedule
	auth := &zzAuth{user: "u", token: "t"}
	l := newZZListener()
	srv, _ := StandAloneServer(l, auth, PrivateNamespace())
	o := &zzObj{}
	meta := object.MetaObject{Description: "zz", Properties: map[uint32]object.MetaProperty{
		300: {Uid: 300, Name: "delay", Signature: "i"}, 301: {Uid: 301, Name: "gain", Signature: "i"}}}
	o.front = NewBasicObject(o, meta, func(name string, data []byte) error { return nil })
	service, _ := srv.NewService("props", o.front)
	sid := service.ServiceID()
	a := zzAuthConn(l, 1)
	x, y := sym.I32("client-delay"), sym.I32("service-gain")
	delay := zzValueBytes(value.String("delay"))
	gain := zzValueBytes(value.String("gain"))
	done := make(chan bool, 2)
	sym.Schedules(true)
	go func() {
		a.inject(zzFrame(net.Call, sid, 1, 6, 30, append(append([]byte{}, delay...), zzValueBytes(value.Int(x))...)))
		done <- true
	}()
	go func() {
		sym.Assert(o.front.UpdateProperty(301, "i", zzLE32(uint32(y))) == nil, "two-properties/local-update-ok")
		done <- true
	}()
	<-done
	<-done
	sym.Quiesce()
	sym.Schedules(false)
	out := zzRoundTrip(a, zzFrame(net.Call, sid, 1, 5, 31, delay))
	sym.Assert(len(out) == 1 && out[0].Header.Type == net.Reply, "two-properties/client-write-lost")
	if len(out) == 1 && out[0].Header.Type == net.Reply {
		sym.Assert(sym.EqBytes(out[0].Payload, zzValueBytes(value.Int(x))), "two-properties/delay-value")
	}
	out = zzRoundTrip(a, zzFrame(net.Call, sid, 1, 5, 32, gain))
	sym.Assert(len(out) == 1 && out[0].Header.Type == net.Reply, "two-properties/service-update-lost")
	if len(out) == 1 && out[0].Header.Type == net.Reply {
		sym.Assert(sym.EqBytes(out[0].Payload, zzValueBytes(value.Int(y))), "two-properties/gain-value")
	}
	sym.Reach("two-properties-done")
}

// C14TwoUpdaters: two service goroutines write the same property at the same time (the generated
// Update<Prop> helper): every interleaving of the two writes, within the delay bound, tells the
// subscriber one change event per write, each carrying the value of ITS write.
func C14TwoUpdaters() {
	sym.Schedules(false)
	o := zzPropObject(-1 << 31)
	front := o.front.(*stubObject)
	h := front.signal
	h.Activate(Activation{ServiceID: 9, ObjectID: 1})
	st := newZZStream()
	ch := NewChannel(net.NewEndPoint(st), DefaultCap())
	msg := zzFrame(net.Call, 9, 1, 0, 10, zzRegisterPayload(1, zzPropID, 70))
	sym.Assert(h.RegisterEvent(&msg, ch) == nil, "register-ok")
	mark := len(st.sentMessages())
	x, y := sym.I32("first-value"), sym.I32("second-value")
	done := make(chan bool, 2)
	// the two writes come from the service itself, or from two clients whose requests are handled by two
	// goroutines (a client of the service next to an in-process proxy of the object, which has a mailbox
	// of its own)
	clientWrites := sym.Bool("writes-come-from-clients")
	write := func(v int32) error {
		if clientWrites {
			return front.impl.SetProperty(value.String("delay"), value.Int(v))
		}
		return o.front.UpdateProperty(zzPropID, "i", zzLE32(uint32(v)))
	}
	sym.Schedules(true)
	go func() {
		sym.Assert(write(x) == nil, "update-ok")
		done <- true
	}()
	go func() {
		sym.Assert(write(y) == nil, "update-ok")
		done <- true
	}()
	<-done
	<-done
	sym.Schedules(false)
	sym.Quiesce()
	evs := st.sentMessages()[mark:]
	sym.Assert(len(evs) == 2, "two-updaters/two-accepted-writes-two-events")
	if len(evs) == 2 {
		ex, ey := zzLE32(uint32(x)), zzLE32(uint32(y))
		sym.Assert(sym.Or(sym.And(sym.EqBytes(evs[0].Payload, ex), sym.EqBytes(evs[1].Payload, ey)),
			sym.And(sym.EqBytes(evs[0].Payload, ey), sym.EqBytes(evs[1].Payload, ex))), "two-updaters/events-carry-the-two-values")
	}
	sym.Reach("two-updaters-done")
}

// C14InvalidUpdateRacing: a value the validator refuses is written (service side) while another,
// valid, write of the same property is being validated: the refusal holds whatever else is going on —
// the invalid write returns an error, is never announced and never readable.
func C14InvalidUpdateRacing() {
	sym.Schedules(false)
	o := zzPropObject(0)
	front := o.front.(*stubObject)
	h := front.signal
	h.Activate(Activation{ServiceID: 9, ObjectID: 1})
	st := newZZStream()
	ch := NewChannel(net.NewEndPoint(st), DefaultCap())
	msg := zzFrame(net.Call, 9, 1, 0, 10, zzRegisterPayload(1, zzPropID, 70))
	sym.Assert(h.RegisterEvent(&msg, ch) == nil, "register-ok")
	// the register holds an earlier accepted value
	z := sym.I32("earlier-value")
	sym.Assume(z >= 0)
	sym.Assert(o.front.UpdateProperty(zzPropID, "i", zzLE32(uint32(z))) == nil, "invalid-racing/earlier-write-ok")
	mark := len(st.sentMessages())
	x, y := sym.I32("valid-value"), sym.I32("invalid-value")
	sym.Assume(x >= 0)
	sym.Assume(y < 0)
	var errValid, errInvalid error
	var readDuring []byte
	withReader := sym.Bool("a-client-reads-meanwhile")
	n := 2
	if withReader {
		n = 3
	}
	done := make(chan bool, 3)
	sym.Schedules(true)
	go func() { errValid = o.front.UpdateProperty(zzPropID, "i", zzLE32(uint32(x))); done <- true }()
	go func() { errInvalid = o.front.UpdateProperty(zzPropID, "i", zzLE32(uint32(y))); done <- true }()
	if withReader {
		go func() {
			if v, err := front.impl.Property(value.String("delay")); err == nil && v != nil {
				readDuring = zzValueBytes(v)
			}
			done <- true
		}()
	}
	for i := 0; i < n; i++ {
		<-done
	}
	sym.Schedules(false)
	sym.Quiesce()
	if withReader {
		// a read that overlaps the writes sees the earlier value or the accepted one, never the refused one
		sym.Assert(sym.Or(sym.EqBytes(readDuring, zzValueBytes(value.Int(z))), sym.EqBytes(readDuring, zzValueBytes(value.Int(x)))), "invalid-racing/read-saw-a-value-nobody-accepted")
	}
	final, err := front.impl.Property(value.String("delay"))
	sym.Assert(err == nil && final != nil, "invalid-racing/final-read-ok")
	if err == nil && final != nil {
		sym.Assert(sym.EqBytes(zzValueBytes(final), zzValueBytes(value.Int(x))), "invalid-racing/register-does-not-hold-the-accepted-write")
	}
	sym.Assert(errValid == nil, "invalid-racing/valid-write-refused")
	sym.Assert(errInvalid != nil, "invalid-racing/refused-value-accepted")
	evs := st.sentMessages()[mark:]
	sym.Assert(len(evs) == 1, "invalid-racing/event-count")
	for _, ev := range evs {
		sym.Assert(sym.EqBytes(ev.Payload, zzLE32(uint32(x))), "invalid-racing/refused-value-announced")
	}
	sym.Reach("invalid-racing-done")
}

// C14StatisticsAndSubscribers: method statistics are switched on (by a third connection) before or after a
// client subscribes to a property; writes then come from another connection, and from the subscriber's own
// connection: with or without statistics, every accepted write is announced once to the subscriber — on the
// subscriber's connection — and never to the writer.
func C14StatisticsAndSubscribers() {
	auth := &zzAuth{user: "u", token: "t"}
	l := newZZListener()
	srv, err := StandAloneServer(l, auth, PrivateNamespace())
	sym.Assert(err == nil, "server-started")
	o := zzPropObject(0)
	service, err := srv.NewService("props", o.front)
	sym.Assert(err == nil, "service-registered")
	sid := service.ServiceID()
	writer := zzAuthConn(l, 1)
	sub := zzAuthConn(l, 1)
	operator := zzAuthConn(l, 1)
	enable := func() {
		out := zzRoundTrip(operator, zzFrame(net.Call, sid, 1, 81, 90, []byte{1}))
		sym.Assert(len(out) == 1 && out[0].Header.Type == net.Reply, "stats-subscribers/enable-stats")
	}
	when := sym.Choose("statistics", 3) // never / before the subscription / after it
	if when == 1 {
		enable()
	}
	out := zzRoundTrip(sub, zzFrame(net.Call, sid, 1, 0, 5, zzRegisterPayload(1, zzPropID, 77)))
	sym.Assert(len(out) == 1 && out[0].Header.Type == net.Reply, "stats-subscribers/subscribed")
	if when == 2 {
		enable()
	}
	name := zzValueBytes(value.String("delay"))
	for i := 0; i < 2; i++ {
		from := writer
		if sym.Bool("write-comes-from-the-subscriber") {
			from = sub
		}
		x := sym.I32("new-value")
		sym.Assume(x >= 0)
		subMark, wMark := len(sub.sentMessages()), len(writer.sentMessages())
		out := zzRoundTrip(from, zzFrame(net.Call, sid, 1, 6, uint32(20+i), append(append([]byte{}, name...), zzValueBytes(value.Int(x))...)))
		replies := 0
		for _, f := range out { // (the subscriber's own write also brings it the event)
			if f.Header.Type == net.Reply {
				replies++
			} else {
				sym.Assert(f.Header.Type == net.Event, "stats-subscribers/valid-write-refused")
			}
		}
		sym.Assert(replies == 1, "stats-subscribers/write-not-answered-once")
		events := 0
		for _, f := range sub.sentMessages()[subMark:] {
			if f.Header.Type == net.Event {
				events++
				sym.Assert(sym.EqBytes(f.Payload, zzLE32(uint32(x))), "stats-subscribers/event-carries-new-value")
			}
		}
		sym.Assert(events == 1, "stats-subscribers/subscriber-event-count")
		for _, f := range writer.sentMessages()[wMark:] {
			sym.Assert(f.Header.Type != net.Event, "stats-subscribers/event-sent-to-a-connection-that-did-not-subscribe")
		}
	}
	sym.Reach("stats-subscribers-done")
}
