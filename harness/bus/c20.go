//go:build verif

package bus

import (
	"bytes"

	"github.com/lugu/qiloop/internal/zzverif/sym"
	"github.com/lugu/qiloop/type/encoding"
	"github.com/lugu/qiloop/type/object"
)

// zzCannedClient answers each method id with a canned payload.
type zzCannedClient struct {
	channel Channel
	replies map[uint32][]byte
}

func (c *zzCannedClient) Call(cancel <-chan struct{}, serviceID, objectID, methodID uint32, payload []byte) ([]byte, error) {
	return c.replies[methodID], nil
}
func (c *zzCannedClient) Subscribe(serviceID, objectID, actionID uint32) (func(), chan []byte, error) {
	return func() {}, nil, nil
}
func (c *zzCannedClient) OnDisconnect(cb func(error)) error      { return nil }
func (c *zzCannedClient) State(signal string, increment int) int { return 0 }
func (c *zzCannedClient) Channel() Channel                       { return c.channel }

func zzEncoded(x interface{}) []byte {
	var buf bytes.Buffer
	err := encoding.NewEncoder(DefaultCap(), &buf).Encode(x)
	sym.Assert(err == nil, "call2/encode")
	return buf.Bytes()
}

// C20Call2Overloads: where the conversion is used in earnest — Proxy.Call2 converting what the remote
// method returns into the type the caller expects. Two overloads of one method name return different
// types (int16 / int32, lists of them), the caller expects the wider int64: each answer is converted
// from ITS OWN remote type, in either call order and when the calls are repeated.
func C20Call2Overloads() {
	meta := object.MetaObject{Methods: map[uint32]object.MetaMethod{
		100: {Uid: 100, Name: "read", ParametersSignature: "(s)", ReturnSignature: "[w]"},
		101: {Uid: 101, Name: "read", ParametersSignature: "(i)", ReturnSignature: "[i]"},
		102: {Uid: 102, Name: "one", ParametersSignature: "(s)", ReturnSignature: "w"},
		103: {Uid: 103, Name: "one", ParametersSignature: "(i)", ReturnSignature: "i"},
	}}
	shorts := []int16{sym.I16("s0"), sym.I16("s1")}
	ints := []int32{sym.I32("i0"), sym.I32("i1")}
	client := &zzCannedClient{channel: NewContext(nil), replies: map[uint32][]byte{
		100: zzEncoded(shorts), 101: zzEncoded(ints), 102: zzEncoded(shorts[0]), 103: zzEncoded(ints[0]),
	}}
	p := NewProxy(client, meta, 1, 1)
	listCalls := sym.Bool("list-results")
	first := sym.Choose("first-overload", 2)
	for round := 0; round < 3; round++ {
		k := (first + round) % 2
		if listCalls {
			var got []int64
			var err error
			if k == 0 {
				err = p.Call2("read", NewParams("(s)", "key"), NewResponse("[l]", &got))
			} else {
				err = p.Call2("read", NewParams("(i)", int32(7)), NewResponse("[l]", &got))
			}
			sym.Assert(err == nil, "call2/list-call-failed")
			sym.Assert(len(got) == 2, "call2/list-length")
			if len(got) == 2 {
				if k == 0 {
					sym.Assert(sym.And(got[0] == int64(shorts[0]), got[1] == int64(shorts[1])), "call2/int16-list-converted-from-its-own-type")
				} else {
					sym.Assert(sym.And(got[0] == int64(ints[0]), got[1] == int64(ints[1])), "call2/int32-list-converted-from-its-own-type")
				}
			}
		} else {
			var got int64
			var err error
			if k == 0 {
				err = p.Call2("one", NewParams("(s)", "key"), NewResponse("l", &got))
			} else {
				err = p.Call2("one", NewParams("(i)", int32(7)), NewResponse("l", &got))
			}
			sym.Assert(err == nil, "call2/scalar-call-failed")
			if k == 0 {
				sym.Assert(got == int64(shorts[0]), "call2/int16-converted-from-its-own-type")
			} else {
				sym.Assert(got == int64(ints[0]), "call2/int32-converted-from-its-own-type")
			}
		}
	}
	sym.Reach("call2-done")
}
