//go:build verif

package bus

import (
	"github.com/lugu/qiloop/bus/net"
	"github.com/lugu/qiloop/internal/zzverif/sym"
	"github.com/lugu/qiloop/type/value"
)

// zzSymCapMap: a structured symbolic capability map: entries drawn from the interesting keys with
// values of symbolic kind and content (wrongly-typed credentials, forged state entries...).
// accepted reports whether it carries the accepted pair as strings.
func zzSymCapMap(auth *zzAuth, entries int) (CapabilityMap, bool) {
	m := CapabilityMap{}
	keys := []string{KeyUser, KeyToken, KeyState}
	for i := 0; i < entries; i++ {
		k := keys[sym.Choose("cap-key", len(keys))]
		var v value.Value
		switch sym.Choose("cap-kind", 3) {
		case 0:
			v = value.String(sym.Str("cap-str", 1))
		case 1:
			v = value.Uint(sym.U32("cap-uint"))
		default:
			v = value.Int(sym.I32("cap-int"))
		}
		m[k] = v
	}
	u, okU := m[KeyUser].(value.StringValue)
	t, okT := m[KeyToken].(value.StringValue)
	user, token := "", ""
	if okU {
		user = u.Value()
	}
	if okT {
		token = t.Value()
	}
	// absent entries count as empty strings (that is what the service passes to the authenticator)
	_, hasU := m[KeyUser]
	_, hasT := m[KeyToken]
	if (hasU && !okU) || (hasT && !okT) {
		return m, false
	}
	return m, sym.And(sym.EqStr(user, auth.user), sym.EqStr(token, auth.token))
}

// c06Gate: whatever an unauthenticated connection sends, no message reaches a service other than
// service 0 unless an earlier authenticate request on that connection carried accepted credentials.
func c06Gate(frames int, withOther bool) {
	// the accepted pair may have an empty user (token-only access policies)
	auth := &zzAuth{user: sym.Str("good-user", sym.Choose("good-user-len", 2)), token: sym.Str("good-token", 1)}
	l := newZZListener()
	srv, err := StandAloneServer(l, auth, PrivateNamespace())
	sym.Assert(err == nil, "server-started")
	probe := &zzProbe{}
	_, err = srv.NewService("probe", probe)
	sym.Assert(err == nil, "probe-registered")
	const probeID = 1

	if withOther {
		// another connection authenticates legitimately: that must grant nothing to connection A
		b := l.connect()
		good := CapabilityMap{KeyUser: value.String(auth.user), KeyToken: value.String(auth.token)}
		b.inject(zzFrame(net.Call, 0, 0, 8, 100, zzCapPayload(good)))
		sym.Quiesce()
		b.inject(zzFrame(net.Call, probeID, 1, 0, 101, nil))
		sym.Quiesce()
		sym.Assert(probe.count() == 1, "legitimate-connection-served")
	}
	base := probe.count()

	a := l.connect()
	authed := false
	closedExpected := false
	for i := 0; i < frames; i++ {
		typ := sym.U8("type")
		sym.Assume(typ >= 1)
		sym.Assume(typ <= 8)
		service := sym.U32("service")
		object := sym.U32("object")
		action := sym.U32("action")
		id := uint32(10 + i)
		var payload []byte
		accepted := false
		if i > 0 {
			// later frames: any header, no payload (the first frame carries the arbitrary payload; two
			// arbitrary payloads in a row are the inductive step's business, and cost its square)
		} else if sym.Bool("structured") {
			var m CapabilityMap
			m, accepted = zzSymCapMap(auth, sym.Choose("entries", 3))
			payload = zzCapPayload(m)
		} else {
			payload = sym.Bytes("raw", sym.Choose("rawlen", 5))
		}
		before := len(a.sentMessages())
		wasClosed := a.isClosed()
		a.inject(zzFrame(typ, service, object, action, id, payload))
		sym.Quiesce()

		// --- oracle ---
		if probe.count() > base {
			sym.Assert(authed, "unauthenticated-message-reached-service")
			base = probe.count()
		}
		consumed := typ == net.Call || typ == net.Post
		if !wasClosed && !closedExpected && consumed && !authed && service != 0 {
			// first unauthenticated frame to another service: error with its id, then the stream is closed
			out := a.sentMessages()
			sym.Assert(len(out) == before+1, "unauthenticated-frame-not-answered")
			if len(out) == before+1 {
				r := out[before]
				sym.Assert(sym.And(r.Header.Type == net.Error, r.Header.ID == id), "unauthenticated-frame-wrong-answer")
			}
			sym.Assert(a.isClosed(), "connection-not-closed-after-unauthenticated-frame")
			closedExpected = true
		}
		if !wasClosed && !closedExpected && service == 0 && action == 8 && accepted {
			authed = true
		}
	}
	sym.Reach("gate-done")
}

func C06GateDeep() { c06Gate(2, true) }

// zzContextOf returns the server-side channel of the only connection opened so far.
func zzContextOf(srv Server, skip int) Channel {
	s := srv.(*server)
	s.contextsMutex.Lock()
	defer s.contextsMutex.Unlock()
	var found Channel
	n := 0
	for c := range s.contexts {
		n++
		found = c
	}
	if n != skip+1 {
		return nil
	}
	return found
}

func zzIsDefaultCap(m CapabilityMap) bool {
	def := DefaultCap()
	if len(m) != len(def) {
		return false
	}
	for k, v := range def {
		got, ok := m[k]
		if !ok || got != v {
			return false
		}
	}
	return true
}

// C06Step: the inductive step. Pre-state: a connection that has not authenticated (its server-side
// capability map is exactly the server's default map: the invariant re-established below). One
// arbitrary frame. Post: no service other than 0 was reached; the connection is authenticated only if
// the frame was an authenticate request with accepted credentials; otherwise its capability map is
// untouched (so the pre-state assumption holds again for the next frame: histories of any length).
func C06Step() {
	// the accepted pair may have an empty user (token-only access policies)
	auth := &zzAuth{user: sym.Str("good-user", sym.Choose("good-user-len", 2)), token: sym.Str("good-token", 1)}
	l := newZZListener()
	srv, err := StandAloneServer(l, auth, PrivateNamespace())
	sym.Assert(err == nil, "server-started")
	probe := &zzProbe{}
	_, err = srv.NewService("probe", probe)
	sym.Assert(err == nil, "probe-registered")
	a := l.connect()
	ctx := zzContextOf(srv, 0)
	sym.Assert(ctx != nil, "context-created")
	if ctx == nil {
		return
	}
	sym.Assert(!ctx.Authenticated(), "fresh-connection-authenticated")
	sym.Assert(zzIsDefaultCap(ctx.Cap()), "fresh-connection-cap")

	typ := sym.U8("type")
	sym.Assume(typ >= 1)
	sym.Assume(typ <= 8)
	service := sym.U32("service")
	object := sym.U32("object")
	action := sym.U32("action")
	id := sym.U32("id")
	var payload []byte
	accepted := false
	if sym.Bool("structured") {
		var m CapabilityMap
		m, accepted = zzSymCapMap(auth, sym.Choose("entries", 3))
		payload = zzCapPayload(m)
	} else {
		payload = sym.Bytes("raw", sym.Choose("rawlen", 5))
	}
	a.inject(zzFrame(typ, service, object, action, id, payload))
	sym.Quiesce()

	sym.Assert(probe.count() == 0, "unauthenticated-message-reached-service")
	// requests are calls and posts; what the server does with other message types addressed to a
	// service is not constrained here beyond "no service reached, nothing authenticated, state untouched"
	consumed := typ == net.Call || typ == net.Post
	if ctx.Authenticated() {
		sym.Assert(service == 0 && action == 8, "authenticated-without-authenticate-request")
		sym.Assert(accepted, "authenticated-without-accepted-credentials")
		sym.Reach("authenticated")
	} else {
		sym.Assert(zzIsDefaultCap(ctx.Cap()), "capability-map-changed-by-client")
		sym.Reach("still-unauthenticated")
	}
	if consumed && service != 0 {
		out := a.sentMessages()
		sym.Assert(len(out) == 1, "unauthenticated-frame-not-answered")
		if len(out) == 1 {
			sym.Assert(sym.And(out[0].Header.Type == net.Error, out[0].Header.ID == id), "unauthenticated-frame-wrong-answer")
		}
		sym.Assert(a.isClosed(), "connection-not-closed-after-unauthenticated-frame")
		sym.Reach("refused-and-closed")
	}
}

// C06OtherConn: authenticating connection B grants nothing to connection A.
func C06OtherConn() {
	auth := &zzAuth{user: "u", token: "t"}
	l := newZZListener()
	srv, _ := StandAloneServer(l, auth, PrivateNamespace())
	probe := &zzProbe{}
	srv.NewService("probe", probe)
	b := l.connect()
	good := CapabilityMap{KeyUser: value.String("u"), KeyToken: value.String("t")}
	b.inject(zzFrame(net.Call, 0, 0, 8, 100, zzCapPayload(good)))
	sym.Quiesce()
	b.inject(zzFrame(net.Call, 1, 1, 0, 101, nil))
	sym.Quiesce()
	// (whether B got served is not this property's business: an authenticator may time out)
	base := probe.count()
	a := l.connect()
	typ := sym.U8("type")
	sym.Assume(typ >= 1)
	sym.Assume(typ <= 8)
	a.inject(zzFrame(typ, sym.U32("service"), sym.U32("object"), sym.U32("action"), sym.U32("id"), sym.Bytes("raw", sym.Choose("rawlen", 3))))
	sym.Quiesce()
	sym.Assert(probe.count() == base, "other-connection-authentication-leaked")
	// and B still works
	b.inject(zzFrame(net.Call, 1, 1, 0, 102, nil))
	sym.Quiesce()
	if base == 1 {
		sym.Assert(probe.count() == 2, "legitimate-connection-disturbed")
	}
	sym.Reach("other-conn-done")
}

// C06Sequence: explicit two-frame histories: a failed authentication (wrong or wrongly-typed
// credentials, forged state entry) followed by an arbitrary frame addressed to the probe service.
func C06Sequence() {
	// the accepted pair may have an empty user (token-only access policies)
	auth := &zzAuth{user: sym.Str("good-user", sym.Choose("good-user-len", 2)), token: sym.Str("good-token", 1)}
	l := newZZListener()
	srv, _ := StandAloneServer(l, auth, PrivateNamespace())
	probe := &zzProbe{}
	srv.NewService("probe", probe)
	a := l.connect()
	m, accepted := zzSymCapMap(auth, 2)
	sym.Assume(!accepted)
	typ1 := sym.U8("type1")
	sym.Assume(typ1 >= 1)
	sym.Assume(typ1 <= 8)
	id1 := sym.U32("id1")
	a.inject(zzFrame(typ1, 0, sym.U32("object1"), 8, id1, zzCapPayload(m)))
	sym.Quiesce()
	typ2 := sym.U8("type2")
	sym.Assume(typ2 >= 1)
	sym.Assume(typ2 <= 8)
	// the second frame may carry the same id as the first (e.g. a cancel aimed at it)
	id2 := id1
	if sym.Bool("second-frame-has-another-id") {
		id2 = sym.U32("id2")
	}
	a.inject(zzFrame(typ2, 1, sym.U32("object2"), sym.U32("action2"), id2, nil))
	sym.Quiesce()
	sym.Assert(probe.count() == 0, "unauthenticated-message-reached-service")
	sym.Reach("sequence-done")
}

// C06History: what an earlier, legitimately authenticated connection leaves behind must not help a
// later one: (a) after B authenticated with (U,T), connection A presents a DIFFERENT pair (symbolic
// strings of 1..3 bytes, so every way of splitting or joining the two is covered); (b) B authenticates,
// is served and goes away, then a new connection talks to the probe service without authenticating.
func C06History() {
	goodU := sym.Str("good-user", 1+sym.Choose("good-user-len", 3))
	goodT := sym.Str("good-token", 1+sym.Choose("good-token-len", 3))
	auth := &zzAuth{user: goodU, token: goodT}
	l := newZZListener()
	srv, _ := StandAloneServer(l, auth, PrivateNamespace())
	probe := &zzProbe{}
	srv.NewService("probe", probe)
	b := l.connect()
	good := CapabilityMap{KeyUser: value.String(goodU), KeyToken: value.String(goodT)}
	b.inject(zzFrame(net.Call, 0, 0, 8, 100, zzCapPayload(good)))
	sym.Quiesce()
	b.inject(zzFrame(net.Call, 1, 1, 0, 101, nil))
	sym.Quiesce()
	base := probe.count() // (whether B got served is not this property's business)
	if sym.Bool("first-connection-goes-away") {
		b.peerClose()
		sym.Quiesce()
	}
	a := l.connect()
	switch sym.Choose("what-the-later-connection-presents", 5) {
	case 1:
		u := sym.Str("user", 1+sym.Choose("user-len", 3))
		t := sym.Str("token", 1+sym.Choose("token-len", 3))
		sym.Assume(sym.Not(sym.And(sym.EqStr(u, goodU), sym.EqStr(t, goodT))))
		other := CapabilityMap{KeyUser: value.String(u), KeyToken: value.String(t)}
		a.inject(zzFrame(net.Call, 0, 0, 8, 5, zzCapPayload(other)))
		sym.Quiesce()
	case 2:
		// an authenticate request carrying NO credentials at all (an empty map)
		a.inject(zzFrame(net.Call, 0, 0, 8, 5, zzCapPayload(CapabilityMap{})))
		sym.Quiesce()
	case 3:
		// half of the accepted pair only
		half := CapabilityMap{KeyUser: value.String(goodU)}
		if sym.Bool("token-only") {
			half = CapabilityMap{KeyToken: value.String(goodT)}
		}
		a.inject(zzFrame(net.Call, 0, 0, 8, 5, zzCapPayload(half)))
		sym.Quiesce()
	case 4:
		// an unrelated capability only
		a.inject(zzFrame(net.Call, 0, 0, 8, 5, zzCapPayload(CapabilityMap{"ClientServerSocket": value.Bool(true)})))
		sym.Quiesce()
	}
	a.inject(zzFrame(net.Call, 1, 1, 0, 6, nil))
	sym.Quiesce()
	sym.Assert(probe.count() == base, "earlier-connection-authentication-leaked")
	sym.Reach("history-done")
}

// C06Pipelined: the client does not wait for the answer to its authenticate request: the request and
// one or two further frames arrive back to back. The gate still holds for whatever is decided first,
// and the connection's state is never accessed by two goroutines without synchronisation (the engine
// reports unordered accesses to the capability map: the runtime kills the process when they overlap).
func C06Pipelined() {
	auth := &zzAuth{user: "u", token: "t"}
	l := newZZListener()
	srv, _ := StandAloneServer(l, auth, PrivateNamespace())
	probe := &zzProbe{}
	srv.NewService("probe", probe)
	a := l.connect()
	good := sym.Bool("good-credentials")
	creds := CapabilityMap{KeyUser: value.String("u"), KeyToken: value.String("x")}
	if good {
		creds[KeyToken] = value.String("t")
	}
	n := 1 + sym.Choose("pipelined-frames", 2)
	a.inject(zzFrame(net.Call, 0, 0, 8, 1, zzCapPayload(creds)))
	for i := 0; i < n; i++ {
		a.inject(zzFrame(net.Call, 1, 1, 1, uint32(2+i), nil))
	}
	sym.Quiesce()
	if !good {
		sym.Assert(probe.count() == 0, "unauthenticated-message-reached-service")
	}
	sym.Reach("pipelined-done")
}
