//go:build verif

package bus

import (
	"bytes"

	"github.com/lugu/qiloop/internal/zzverif/sym"
	"github.com/lugu/qiloop/type/value"
)

func zzCapValue(label string) value.Value {
	switch sym.Choose(label+"-kind", 4) {
	case 0:
		return value.String(sym.Str(label+"-s", sym.Choose(label+"-slen", 3)))
	case 1:
		return value.Uint(sym.U32(label + "-u"))
	case 2:
		return value.Int(sym.I32(label + "-i"))
	default:
		return value.Bool(sym.Bool(label + "-b"))
	}
}

// zzCapValueWide: the basic kinds and values of composite signatures (a list of dynamic values, an
// opaque tuple, an opaque list of strings): capabilities are dynamic values of ANY type.
func zzCapValueWide(label string) value.Value {
	switch sym.Choose(label+"-composite", 4) {
	case 1:
		return value.List([]value.Value{value.Int(sym.I32(label + "-l0")), value.String(sym.Str(label+"-l1", 2))})
	case 2:
		return value.Opaque("(iI)", append(zzLE32(sym.U32(label+"-t0")), zzLE32(sym.U32(label+"-t1"))...))
	case 3:
		s := sym.Str(label+"-e0", 2)
		return value.Opaque("[s]", append(append(zzLE32(1), zzLE32(uint32(len(s)))...), []byte(s)...))
	}
	return zzCapValue(label)
}

// C08CapabilityMap: strict prefixes of an encoded capability map are refused.
func C08CapabilityMap() {
	m := CapabilityMap{}
	n := sym.Choose("entries", 3)
	keys := []string{KeyUser, "x"}
	for i := 0; i < n; i++ {
		m[keys[i]] = zzCapValueWide("v")
	}
	var buf bytes.Buffer
	sym.Assert(WriteCapabilityMap(m, &buf) == nil, "encode-ok")
	enc := buf.Bytes()
	full, err := ReadCapabilityMap(bytes.NewReader(enc))
	sym.Assert(err == nil, "full-decodes")
	sym.Assert(len(full) == n, "full-size")
	k := sym.Concrete(sym.Int("cut", 0, len(enc)-1))
	_, err = ReadCapabilityMap(bytes.NewReader(enc[:k]))
	sym.Assert(err != nil, "truncated-capabilitymap")
	sym.Reach("cut-checked")
}

func c07CapabilityMap(maxN int) {
	n := sym.Choose("n", maxN+1)
	in := sym.Bytes("in", n)
	sym.Bounded(16<<20+64*n, n+8, func() {
		_, err := ReadCapabilityMap(bytes.NewReader(in))
		if err == nil {
			sym.Reach("decoded")
		} else {
			sym.Reach("rejected")
		}
	})
}

// C07CapabilityMap: arbitrary bytes into the capability map decoder.
func C07CapabilityMap()     { c07CapabilityMap(12) }
func C07CapabilityMapDeep() { c07CapabilityMap(18) }

// zzCapAnyValue: a value of any kind a peer may put in a capability map, containers included.
func zzCapAnyValue(label string) value.Value {
	switch sym.Choose(label+"-kind", 7) {
	case 0:
		return value.String(sym.Str(label+"-s", 1))
	case 1:
		return value.Uint(sym.U32(label + "-u"))
	case 2:
		return value.Bool(sym.Bool(label + "-b"))
	case 3:
		return value.List([]value.Value{})
	case 4:
		return value.List([]value.Value{value.Int(sym.I32(label + "-e"))})
	case 5:
		return value.Raw([]byte{sym.U8(label + "-r")})
	default:
		return value.Void()
	}
}

// C07CapabilityMapStructured: a well-formed capability map whose entries are written by hand, so that
// the same key may appear twice (a Go map cannot express that) with values of any kind: the decoder
// answers with a map or an error, never a crash; a map it returns has at most as many entries as were sent.
func C07CapabilityMapStructured() {
	n := 1 + sym.Choose("entries", 2)
	keys := []string{KeyUser, KeyUser, "x"}
	var buf bytes.Buffer
	buf.Write([]byte{byte(n), 0, 0, 0})
	sameKey := sym.Bool("same-key-twice")
	for i := 0; i < n; i++ {
		k := keys[i]
		if !sameKey && i == 1 {
			k = keys[2]
		}
		buf.Write([]byte{byte(len(k)), 0, 0, 0})
		buf.WriteString(k)
		sym.Assert(zzCapAnyValue("v").Write(&buf) == nil, "structured/encode-ok")
	}
	in := buf.Bytes()
	sym.Bounded(16<<20+64*len(in), len(in)+8, func() {
		m, err := ReadCapabilityMap(bytes.NewReader(in))
		if err == nil {
			sym.Assert(len(m) <= n, "structured/more-entries-than-sent")
			sym.Reach("decoded")
		} else {
			sym.Reach("rejected")
		}
	})
}
