//go:build verif

package bus

import (
	"bytes"

	"github.com/lugu/qiloop/internal/zzverif/sym"
	"github.com/lugu/qiloop/type/value"
)

func zzCapValue(label string) value.Value {
	switch sym.Choose(label+"-kind", 4) {
	case 0:
		return value.String(sym.Str(label+"-s", sym.Choose(label+"-slen", 3)))
	case 1:
		return value.Uint(sym.U32(label + "-u"))
	case 2:
		return value.Int(sym.I32(label + "-i"))
	default:
		return value.Bool(sym.Bool(label + "-b"))
	}
}

// C08CapabilityMap: strict prefixes of an encoded capability map are refused.
func C08CapabilityMap() {
	m := CapabilityMap{}
	n := sym.Choose("entries", 3)
	keys := []string{KeyUser, "x"}
	for i := 0; i < n; i++ {
		m[keys[i]] = zzCapValue("v")
	}
	var buf bytes.Buffer
	sym.Assert(WriteCapabilityMap(m, &buf) == nil, "encode-ok")
	enc := buf.Bytes()
	full, err := ReadCapabilityMap(bytes.NewReader(enc))
	sym.Assert(err == nil, "full-decodes")
	sym.Assert(len(full) == n, "full-size")
	k := sym.Concrete(sym.Int("cut", 0, len(enc)-1))
	_, err = ReadCapabilityMap(bytes.NewReader(enc[:k]))
	sym.Assert(err != nil, "truncated-capabilitymap")
	sym.Reach("cut-checked")
}

func c07CapabilityMap(maxN int) {
	n := sym.Choose("n", maxN+1)
	in := sym.Bytes("in", n)
	sym.Bounded(16<<20+64*n, n+8, func() {
		_, err := ReadCapabilityMap(bytes.NewReader(in))
		if err == nil {
			sym.Reach("decoded")
		} else {
			sym.Reach("rejected")
		}
	})
}

// C07CapabilityMap: arbitrary bytes into the capability map decoder.
func C07CapabilityMap()     { c07CapabilityMap(12) }
func C07CapabilityMapDeep() { c07CapabilityMap(18) }
