//go:build verif

package bus

import (
	"github.com/lugu/qiloop/bus/net"
	"github.com/lugu/qiloop/internal/zzverif/sym"
	"github.com/lugu/qiloop/type/value"
)

func zzAuthConn(l *zzListener, id uint32) *zzStream {
	c := l.connect()
	good := CapabilityMap{KeyUser: value.String("u"), KeyToken: value.String("t")}
	out := zzRoundTrip(c, zzFrame(net.Call, 0, 0, 8, id, zzCapPayload(good)))
	sym.Assert(len(out) == 1 && out[0].Header.Type == net.Reply, "authentication-reply")
	return c
}

func zzRegisterPayload(objectID, signalID uint32, userID uint64) []byte {
	return append(append(zzLE32(objectID), zzLE32(signalID)...), zzLE64(userID)...)
}

// zzVictim: a server with one service/object that has nsub registered subscribers (each on its own
// connection, user ids symbolic) and a hostile authenticated connection.
type zzVictim struct {
	l       *zzListener
	srv     Server
	obj     *zzObj
	sid     uint32
	subs    []*zzStream
	subIDs  []uint64
	hostile *zzStream
	prober  *zzStream
}

func newZZVictim(nsub int) *zzVictim {
	v := &zzVictim{}
	auth := &zzAuth{user: "u", token: "t"}
	v.l = newZZListener()
	srv, err := StandAloneServer(v.l, auth, PrivateNamespace())
	sym.Assert(err == nil, "server-started")
	v.srv = srv
	v.obj = newZZObj()
	service, err := srv.NewService("victim", v.obj.front)
	sym.Assert(err == nil, "service-registered")
	v.sid = service.ServiceID()
	for i := 0; i < nsub; i++ {
		c := zzAuthConn(v.l, 1)
		uid := sym.U64("existing-user-id")
		out := zzRoundTrip(c, zzFrame(net.Call, v.sid, 1, 0, 2, zzRegisterPayload(1, 0x60, uid)))
		sym.Assert(len(out) == 1, "subscriber-registration-answered")
		v.subs = append(v.subs, c)
		v.subIDs = append(v.subIDs, uid)
	}
	v.prober = zzAuthConn(v.l, 1)
	v.hostile = zzAuthConn(v.l, 1)
	return v
}

// probe: a call from a different connection is still answered.
func (v *zzVictim) probe(label string) {
	out := zzRoundTrip(v.prober, zzFrame(net.Call, v.sid, 1, 2, 900, zzLE32(1)))
	sym.Assert(len(out) == 1, label+"/object-no-longer-answers")
	if len(out) == 1 {
		sym.Assert(out[0].Header.Type == net.Reply, label+"/metaobject-call-failed")
	}
	// the user method too
	out = zzRoundTrip(v.prober, zzFrame(net.Call, v.sid, 1, 1000, 901, nil))
	sym.Assert(len(out) == 1 && out[0].Header.Type == net.Reply, label+"/method-no-longer-answers")
}

// c12Hostile: from a state with registered subscribers, ONE arbitrary request of a hostile client
// (any action of the generic object or of the user object, arbitrary payload bytes): the object keeps
// serving other clients. The documented removal request (terminate, action 3) is excluded.
func c12Hostile(nsub, maxPayload int) {
	v := newZZVictim(nsub)
	action := sym.U32("action")
	var payload []byte
	shape := sym.Choose("payload-shape", 6)
	if shape != 3 {
		sym.Assume(action != 3) // terminate naming THIS object is the documented way to remove it
	}
	switch shape {
	case 5:
		// a dynamic value whose signature is grammatical but inconsistent (structure annotations with more
		// or fewer names than members), or is not a signature at all, followed by arbitrary bytes
		sigs := []string{"(i)<S,a,b>", "()<S,a>", "[(s)<T,x,y>]", "(ii)<S,a>", "(i)<S>", "{i(i)<S,a,b>}", "(", "[", "(i"}
		sig := sigs[sym.Choose("p-odd-signature", len(sigs))]
		payload = append(append(zzLE32(uint32(len(sig))), []byte(sig)...), sym.Bytes("p-odd-body", 4)...)
		sym.Assume(action == 5 || action == 6) // property / setProperty take values
	case 4:
		// a dynamic value that is a list or map of zero-width elements: the count field is all there is
		sigs := []string{"[v]", "[()]", "[(v)]", "{vv}", "[[()]]", "{v()}"}
		sig := sigs[sym.Choose("p-zero-width-signature", len(sigs))]
		payload = append(append(zzLE32(uint32(len(sig))), []byte(sig)...), zzLE32(sym.U32("p-count"))...)
		sym.Assume(action == 5 || action == 6) // property / setProperty take values
	case 3:
		// terminate naming ANOTHER object (any id but this object's own, 0 standing for "self"): refused
		other := sym.U32("p-terminate-id")
		sym.Assume(other != 0)
		sym.Assume(other != 1)
		sym.Assume(action == 3)
		payload = zzLE32(other)
	case 0:
		// a well-formed (un)registration with arbitrary ids: conflicts with existing users included
		payload = zzRegisterPayload(sym.U32("p-object"), sym.U32("p-signal"), sym.U64("p-user"))
		sym.Assume(action <= 1) // (un)registerEvent; other actions get raw bytes / values below
	case 1:
		payload = sym.Bytes("p-raw", sym.Choose("p-len", maxPayload+1))
	default:
		// a dynamic value as used by property/setProperty
		var m CapabilityMap = CapabilityMap{}
		m["k"] = value.Uint(sym.U32("p-val"))
		payload = zzCapPayload(m)[4:]
		sym.Assume(action == 5 || action == 6) // property / setProperty take values
	}
	v.hostile.inject(zzFrame(net.Call, v.sid, 1, action, 50, payload))
	sym.Quiesce()
	v.probe("after-hostile-request")
	sym.Reach("hostile-done")
}

func C12Hostile()     { c12Hostile(1, 8) }
func C12HostileDeep() { c12Hostile(2, 12) }

// C12Misaddressed: posts and calls to wrong object / service ids with arbitrary payloads.
func C12Misaddressed() {
	v := newZZVictim(0)
	typ := uint8(net.Call)
	if sym.Bool("post") {
		typ = net.Post
	}
	v.hostile.inject(zzFrame(typ, sym.U32("service"), sym.U32("object"), sym.U32("action"), 50, sym.Bytes("p-raw", sym.Choose("p-len", 3))))
	sym.Quiesce()
	v.probe("after-misaddressed-request")
	sym.Reach("misaddressed-done")
}

// C12Disconnect: a hostile client subscribes (possibly with a user id that collides with an existing
// subscriber's) and then vanishes: cleanly, in the middle of a frame, or right after sending a request
// whose answer can no longer be delivered.
func C12Disconnect() {
	v := newZZVictim(1)
	uid := sym.U64("hostile-user-id")
	v.hostile.inject(zzFrame(net.Call, v.sid, 1, 0, 50, zzRegisterPayload(1, 0x60, uid)))
	sym.Quiesce()
	switch sym.Choose("how", 3) {
	case 0:
		v.hostile.peerClose()
	case 1:
		v.hostile.in <- []byte{0x42, 0xde, 0xad}
		v.hostile.peerClose()
	default:
		// request followed immediately by the close: the reply hits a dead connection
		v.hostile.inject(zzFrame(net.Call, v.sid, 1, 2, 51, zzLE32(1)))
		v.hostile.peerClose()
	}
	sym.Quiesce()
	v.probe("after-hostile-disconnect")
	// the surviving subscriber can still unsubscribe
	out := zzRoundTrip(v.subs[0], zzFrame(net.Call, v.sid, 1, 1, 3, zzRegisterPayload(1, 0x60, v.subIDs[0])))
	sym.Assert(len(out) == 1 && out[0].Header.Type == net.Reply, "other-subscriber-disturbed")
	sym.Reach("disconnect-done")
}

// C12Sequence: short hostile sequences from the initial state: repeated / conflicting
// subscriptions and unsubscriptions with colliding user ids.
func C12Sequence() {
	v := newZZVictim(0)
	for i := 0; i < 3; i++ {
		action := uint32(sym.Choose("action", 2)) // registerEvent / unregisterEvent
		uid := sym.U64("user")
		signal := uint32(0x60 + sym.Choose("signal", 2))
		v.hostile.inject(zzFrame(net.Call, v.sid, 1, action, uint32(60+i), zzRegisterPayload(1, signal, uid)))
		sym.Quiesce()
	}
	v.probe("after-hostile-sequence")
	sym.Reach("sequence-done")
}

// C12Flood: more calls than the connection queue holds, with nobody reading the answers: the
// reader never blocks, overflowing calls are answered with an error, other clients are served.
func C12Flood() {
	v := newZZVictim(0)
	n := 12 + sym.Choose("extra", 3)
	for i := 0; i < n; i++ {
		v.hostile.inject(zzFrame(net.Call, v.sid, 1, 1000, uint32(100+i), nil))
	}
	sym.Quiesce()
	v.probe("after-flood")
	sym.Reach("flood-done")
}

// C12FloodTerminate: a pipelined flood addressed to a sub-object whose method is slow, so that its
// mailbox fills up, with that sub-object's terminate queued behind the slow call: the sub-object may
// go away (that is what terminate is for) but the service keeps answering everybody else.
func C12FloodTerminate() {
	v := newZZVictim(0)
	sub := newZZObj()
	sub.gate = make(chan struct{})
	s := v.srv.(*server)
	s.Router.RLock()
	svc := s.Router.services[v.sid]
	s.Router.RUnlock()
	id, err := svc.Add(sub.front)
	sym.Assert(err == nil, "sub-object-added")
	// 1. a call that keeps the sub-object busy
	v.hostile.inject(zzFrame(net.Call, v.sid, id, 1000, 100, nil))
	sym.Quiesce()
	// 2. terminate (possibly sent twice in a row) + enough calls to fill the sub-object's mailbox (10 slots) and block the connection on it
	v.hostile.inject(zzFrame(net.Call, v.sid, id, 3, 101, zzLE32(id)))
	if sym.Bool("terminate-sent-twice") {
		v.hostile.inject(zzFrame(net.Call, v.sid, id, 3, 102, zzLE32(id)))
	}
	for i := 0; i < 10; i++ {
		v.hostile.inject(zzFrame(net.Call, v.sid, id, 1000, uint32(110+i), nil))
	}
	sym.Quiesce()
	// 3. a few more behind them
	for i := 0; i < 2; i++ {
		v.hostile.inject(zzFrame(net.Call, v.sid, id, 1000, uint32(130+i), nil))
	}
	// 4. the slow call finishes
	close(sub.gate)
	sym.Quiesce()
	v.probe("after-flood-with-terminate")
	sym.Reach("flood-terminate-done")
}

// c12FloodRequests: while the object is busy in a slow method, a hostile connection pipelines more
// subscription requests (calls or posts: a post is never answered, so nothing throttles it) than the
// connection queue and the object mailbox hold together; optionally it then vanishes with the requests
// still queued. When the slow method finishes the object works through the backlog and keeps
// answering everybody else.
func c12FloodRequests(leave bool) {
	v := newZZVictim(0)
	v.obj.gate = make(chan struct{})
	if leave {
		// the hostile client already holds a subscription
		out := zzRoundTrip(v.hostile, zzFrame(net.Call, v.sid, 1, 0, 99, zzRegisterPayload(1, 0x60, 999)))
		sym.Assert(len(out) == 1, "hostile-registration-answered")
	}
	v.hostile.inject(zzFrame(net.Call, v.sid, 1, 1000, 100, nil))
	sym.Quiesce()
	typ := []uint8{net.Post, net.Call}[sym.Choose("request-type", 2)]
	action := uint32(sym.Choose("request-action", 2)) // registerEvent / unregisterEvent
	for i := 0; i < 24; i++ {
		v.hostile.inject(zzFrame(typ, v.sid, 1, action, uint32(200+i), zzRegisterPayload(1, 0x60, uint64(1000+i))))
	}
	sym.Quiesce()
	if leave {
		// no quiescence here: the object resumes while the connection is being torn down
		v.hostile.peerClose()
	}
	close(v.obj.gate)
	sym.Quiesce()
	v.probe("after-request-flood")
	sym.Reach("request-flood-done")
}

func C12FloodRequests()      { c12FloodRequests(false) }
func C12FloodRequestsLeave() { c12FloodRequests(true) }

// C12LeaveWithQueued: a hostile client that holds a subscription queues a few more subscription
// requests while the object is busy, then disconnects; the object resumes while the connection is
// being torn down (all interleavings within the delay budget). The object keeps answering others.
func C12LeaveWithQueued() {
	sym.Schedules(false) // the set-up runs under the default schedule
	v := newZZVictim(0)
	if sym.Choose("object-created-after-the-connection", 2) == 1 {
		// the same scenario on an object that is younger than the hostile connection (in the
		// engine's default round-robin order its mailbox then runs after the connection's reader)
		v.obj = newZZObj()
		service, err := v.srv.NewService("late", v.obj.front)
		sym.Assert(err == nil, "late-service-registered")
		v.sid = service.ServiceID()
	}
	v.obj.gate = make(chan struct{})
	out := zzRoundTrip(v.hostile, zzFrame(net.Call, v.sid, 1, 0, 99, zzRegisterPayload(1, 0x60, 999)))
	sym.Assert(len(out) == 1, "hostile-registration-answered")
	v.hostile.inject(zzFrame(net.Call, v.sid, 1, 1000, 100, nil))
	sym.Quiesce()
	n := 1 + sym.Choose("queued-requests", 3)
	for i := 0; i < n; i++ {
		v.hostile.inject(zzFrame(net.Post, v.sid, 1, 0, uint32(200+i), zzRegisterPayload(1, 0x60, uint64(1000+i))))
	}
	sym.Quiesce()
	sym.Schedules(true)
	v.hostile.peerClose()
	close(v.obj.gate)
	sym.Quiesce()
	sym.Schedules(false)
	v.probe("after-leave-with-queued-requests")
	sym.Reach("leave-queued-done")
}

// C12StalledReader: a client sends calls and stops READING (its receive window fills up: from some
// write on, the server's writes to that connection block until the connection goes away). Other
// clients must still be answered within bounded time.
func C12StalledReader() {
	v := newZZVictim(0)
	v.hostile.mu.Lock()
	v.hostile.blockWrites = v.hostile.writes + 1 + sym.Choose("answers-accepted-before-the-stall", 2)
	v.hostile.mu.Unlock()
	for i := 0; i < 3; i++ {
		v.hostile.inject(zzFrame(net.Call, v.sid, 1, 2, uint32(300+i), zzLE32(1)))
	}
	sym.Quiesce()
	sym.Reach("stalled-reader-probed")
	v.probe("after-stalled-reader")
}

// C12TraceThenSubscribe: the generic object's tracing feature, in both orders: a client enables traces
// (action 85) and subscribes to the trace signal (0x56), then a traced call is made: the object keeps
// answering everybody.
func C12TraceThenSubscribe() {
	v := newZZVictim(0)
	enable := zzFrame(net.Call, v.sid, 1, 85, 60, []byte{1})
	subscribe := zzFrame(net.Call, v.sid, 1, 0, 61, zzRegisterPayload(1, 0x56, sym.U64("trace-user-id")))
	if sym.Bool("enable-traces-first") {
		zzRoundTrip(v.hostile, enable)
		zzRoundTrip(v.hostile, subscribe)
	} else {
		zzRoundTrip(v.hostile, subscribe)
		zzRoundTrip(v.hostile, enable)
	}
	// a traced call from the hostile connection itself
	zzRoundTrip(v.hostile, zzFrame(net.Call, v.sid, 1, 1000, 62, nil))
	v.probe("after-trace-subscription")
	sym.Reach("trace-done")
}

// C12GenericActions: every sequence of three well-formed requests over the housekeeping actions every
// object answers (statistics on/off/read/clear, traces on/off/read), with symbolic boolean arguments:
// whatever the order, the service keeps answering everybody.
func C12GenericActions() {
	v := newZZVictim(0)
	actions := []uint32{80, 81, 82, 83, 84, 85}
	for i := 0; i < 3; i++ {
		a := actions[sym.Choose("action", len(actions))]
		var payload []byte
		if a == 81 || a == 85 {
			payload = []byte{sym.U8("flag") & 1}
		}
		v.hostile.inject(zzFrame(net.Call, v.sid, 1, a, uint32(60+i), payload))
		sym.Quiesce()
	}
	v.probe("after-housekeeping-sequence")
	sym.Reach("generic-actions-done")
}

// C12ConcurrentValues: two objects of one service (two mailboxes, so two goroutines) each receive, from one
// connection, a property request whose argument is a dynamic value of a structure signature the process has
// not seen before (the second request may reuse the first one's signature). Whatever the server keeps
// between decodes is used from both goroutines at once: no crash, and the service keeps answering.
func C12ConcurrentValues() {
	v := newZZVictim(0)
	sub := newZZObj()
	s := v.srv.(*server)
	s.Router.RLock()
	svc := s.Router.services[v.sid]
	s.Router.RUnlock()
	id, err := svc.Add(sub.front)
	sym.Assert(err == nil, "sub-object-added")
	sigs := []string{"(i)<Fresh1,a>", "(i)<Fresh2,a>", "[(i)<Fresh3,a>]"}
	val := func(sig string) []byte {
		body := zzLE32(sym.U32("member"))
		if sig[0] == '[' {
			body = append(zzLE32(1), body...)
		}
		return append(append(zzLE32(uint32(len(sig))), sig...), body...)
	}
	first := sigs[sym.Choose("first-signature", 2)]
	second := sigs[sym.Choose("second-signature", 3)]
	// pipelined: both are in flight before either is answered
	v.hostile.inject(zzFrame(net.Call, v.sid, 1, 5, 100, val(first)))
	v.hostile.inject(zzFrame(net.Call, v.sid, id, 5, 101, val(second)))
	sym.Quiesce()
	v.probe("after-concurrent-values")
	sym.Reach("concurrent-values-done")
}
