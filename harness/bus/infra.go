//go:build verif

package bus

import (
	"bytes"
	"errors"
	"sync/atomic"

	"github.com/lugu/qiloop/bus/net"
	"github.com/lugu/qiloop/internal/zzverif/sym"
	"github.com/lugu/qiloop/type/value"
)

// zzListener hands harness streams to the real server.run/handle path.
type zzListener struct {
	conns  chan net.Stream
	closed chan struct{}
}

func newZZListener() *zzListener {
	return &zzListener{conns: make(chan net.Stream, 4), closed: make(chan struct{})}
}

func (l *zzListener) Accept() (net.Stream, error) {
	select {
	case s := <-l.conns:
		return s, nil
	case <-l.closed:
		return nil, errors.New("listener closed")
	}
}

func (l *zzListener) Close() error {
	select {
	case <-l.closed:
	default:
		close(l.closed)
	}
	return nil
}

// connect opens a new connection to the server and waits until it is being served.
func (l *zzListener) connect() *zzStream {
	s := newZZStream()
	l.conns <- s
	sym.Quiesce()
	return s
}

// zzProbe is a service whose only "method" counts its executions.
type zzProbe struct {
	calls    int32
	lastType uint8
	lastID   uint32
	payload  []byte
}

func (p *zzProbe) Receive(m *net.Message, from Channel) error {
	atomic.AddInt32(&p.calls, 1)
	p.lastType = m.Header.Type
	p.lastID = m.Header.ID
	p.payload = m.Payload
	if m.Header.Type == net.Call {
		return from.SendReply(m, append([]byte{0x2a}, m.Payload...))
	}
	return nil
}
func (p *zzProbe) Activate(a Activation) error { return nil }
func (p *zzProbe) OnTerminate()                {}
func (p *zzProbe) count() int                  { return int(atomic.LoadInt32(&p.calls)) }

// zzAuth accepts exactly one (user, token) pair and counts how often it is consulted.
type zzAuth struct {
	user, token string
	asked       int32
}

func (a *zzAuth) Authenticate(user, token string) bool {
	atomic.AddInt32(&a.asked, 1)
	return sym.And(sym.EqStr(user, a.user), sym.EqStr(token, a.token))
}

func zzFrame(typ uint8, service, object, action, id uint32, payload []byte) net.Message {
	return net.NewMessage(net.NewHeader(typ, service, object, action, id), payload)
}

func zzCapPayload(m CapabilityMap) []byte {
	var buf bytes.Buffer
	WriteCapabilityMap(m, &buf)
	return buf.Bytes()
}

// zzErrorText extracts the text of an Error frame ("" if malformed).
func zzErrorText(m net.Message) string {
	v, err := value.NewValue(bytes.NewReader(m.Payload))
	if err != nil {
		return ""
	}
	s, ok := v.(value.StringValue)
	if !ok {
		return ""
	}
	return s.Value()
}

// zzChannel captures what a service sends back when it is driven directly (no connection).
type zzChannel struct {
	cap      CapabilityMap
	ep       net.EndPoint
	sent     []net.Message
	authDone bool
}

func newZZChannel() *zzChannel {
	s := newZZStream()
	return &zzChannel{cap: DefaultCap(), ep: net.NewEndPoint(s)}
}
func (c *zzChannel) Cap() CapabilityMap     { return c.cap }
func (c *zzChannel) EndPoint() net.EndPoint { return c.ep }
func (c *zzChannel) Send(msg *net.Message) error {
	c.sent = append(c.sent, *msg)
	return nil
}
func (c *zzChannel) SendError(msg *net.Message, err error) error {
	hdr := net.NewHeader(net.Error, msg.Header.Service, msg.Header.Object, msg.Header.Action, msg.Header.ID)
	m := net.NewMessage(hdr, errorPaylad(err))
	return c.Send(&m)
}
func (c *zzChannel) SendReply(msg *net.Message, response []byte) error {
	hdr := msg.Header
	hdr.Type = net.Reply
	m := net.NewMessage(hdr, response)
	return c.Send(&m)
}
func (c *zzChannel) Authenticate() error { return nil }
func (c *zzChannel) Authenticated() bool { return c.cap.Authenticated() }
func (c *zzChannel) SetAuthenticated()   { c.cap.SetAuthenticated() }
