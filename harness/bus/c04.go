//go:build verif

package bus

import (
	"bytes"
	"sync"

	"github.com/lugu/qiloop/bus/net"
	"github.com/lugu/qiloop/internal/zzverif/sym"
	"github.com/lugu/qiloop/type/value"
)

type zzCallRes struct {
	payload []byte
	err     error
}

// c04Routing (L1): concurrent callers on one client; the peer answers with frames aimed at one of
// the calls but with one header field (service, object, action or id) replaced by a solver-chosen
// value, in solver-chosen order. A caller may only ever get the payload of a Reply carrying its own
// (service, object, action, id); every caller returns exactly once.
func c04Routing(responses int) {
	s := newZZStream()
	e := net.NewEndPoint(s)
	c := NewClient(NewChannel(e, DefaultCap()))
	const n = 2
	svc := make([]uint32, n)
	obj := make([]uint32, n)
	act := make([]uint32, n)
	arg := [][]byte{{0xA0}, {0xA1}}
	res := make([]chan zzCallRes, n)
	for i := 0; i < n; i++ {
		svc[i], obj[i], act[i] = sym.U32("service"), sym.U32("object"), sym.U32("action")
		res[i] = make(chan zzCallRes, 1)
		go func(i int) {
			p, err := c.Call(nil, svc[i], obj[i], act[i], arg[i])
			res[i] <- zzCallRes{p, err}
		}(i)
	}
	sym.Quiesce()
	calls := s.sentMessages()
	sym.Assert(len(calls) == n, "call-frames-sent")
	if len(calls) != n {
		return
	}
	sym.Assert(calls[0].Header.ID != calls[1].Header.ID, "message-ids-distinct")
	idOf := make([]uint32, n)
	for i := 0; i < n; i++ {
		found := false
		for _, f := range calls {
			if len(f.Payload) == 1 && f.Payload[0] == arg[i][0] {
				found = true
				idOf[i] = f.Header.ID
				sym.Assert(sym.And(sym.And(f.Header.Type == net.Call, f.Header.Service == svc[i]),
					sym.And(f.Header.Object == obj[i], f.Header.Action == act[i])), "call-frame-altered")
			}
		}
		sym.Assert(found, "call-frame-missing")
	}
	type answer struct {
		h       net.Header
		payload []byte
	}
	var answers []answer
	for k := 0; k < responses; k++ {
		j := sym.Choose("answer-target", n)
		h := net.NewHeader(net.Error, svc[j], obj[j], act[j], idOf[j])
		switch sym.Choose("answer-perturb", 5) {
		case 1:
			h.Service = sym.U32("other-service")
		case 2:
			h.Object = sym.U32("other-object")
		case 3:
			h.Action = sym.U32("other-action")
		case 4:
			h.ID = sym.U32("other-id")
		}
		var payload []byte
		if sym.Bool("answer-is-reply") {
			h.Type = net.Reply
			payload = sym.Bytes("r-payload", 1)
		} else {
			var buf bytes.Buffer
			value.String("E").Write(&buf)
			payload = buf.Bytes()
		}
		answers = append(answers, answer{h, payload})
		s.inject(net.NewMessage(h, payload))
		sym.Quiesce()
	}
	s.peerClose()
	sym.Quiesce()
	for i := 0; i < n; i++ {
		r := <-res[i] // a caller that never returns is a deadlock finding
		first := -1
		for k, a := range answers {
			m := sym.And(sym.And(a.h.Service == svc[i], a.h.Object == obj[i]), sym.And(a.h.Action == act[i], a.h.ID == idOf[i]))
			if first < 0 && m {
				first = k
			}
		}
		if first >= 0 && answers[first].h.Type == net.Reply {
			sym.Assert(r.err == nil, "own-reply-not-delivered")
			sym.Assert(sym.EqBytes(r.payload, answers[first].payload), "reply-payload-altered")
		} else {
			sym.Assert(r.err != nil, "result-without-own-reply")
		}
	}
	sym.Reach("routing-done")
}

func C04Routing()     { c04Routing(1) }
func C04RoutingDeep() { c04Routing(2) }

// zzAuthedServer: a real server, a probe service (id 1, object 1) and one authenticated connection.
func zzAuthedServer() (Server, *zzProbe, *zzAuth, *zzStream) {
	auth := &zzAuth{user: "u", token: "t"}
	l := newZZListener()
	srv, err := StandAloneServer(l, auth, PrivateNamespace())
	sym.Assert(err == nil, "server-started")
	probe := &zzProbe{}
	_, err = srv.NewService("probe", probe)
	sym.Assert(err == nil, "probe-registered")
	a := l.connect()
	good := CapabilityMap{KeyUser: value.String("u"), KeyToken: value.String("t")}
	a.inject(zzFrame(net.Call, 0, 0, 8, 1, zzCapPayload(good)))
	sym.Quiesce()
	out := a.sentMessages()
	sym.Assert(len(out) == 1 && out[0].Header.Type == net.Reply, "authentication-reply")
	return srv, probe, auth, a
}

// C04ServerTypes (L3): one message of ANY type addressed to a live service method: the method
// runs only for Call and Post, at most once; a Call gets exactly one reply-or-error carrying its
// id/service/object/action; a Post gets nothing; any other type (cancel, capability, reply, error,
// event, cancelled) never runs the method.
func C04ServerTypes() {
	_, probe, auth, a := zzAuthedServer()
	typ := sym.U8("type")
	sym.Assume(typ >= 1)
	sym.Assume(typ <= 8)
	id := sym.U32("id")
	action := sym.U32("action")
	toZero := sym.Bool("to-service-zero")
	askedBefore := auth.asked
	before := len(a.sentMessages())
	var frame net.Message
	if toZero {
		good := CapabilityMap{KeyUser: value.String("u"), KeyToken: value.String("t")}
		frame = zzFrame(typ, 0, 0, 8, id, zzCapPayload(good))
	} else {
		frame = zzFrame(typ, 1, 1, action, id, sym.Bytes("arg", 1))
	}
	a.inject(frame)
	sym.Quiesce()
	runs := probe.count()
	if toZero {
		runs = int(auth.asked - askedBefore)
	}
	out := a.sentMessages()[before:]
	sym.Assert(runs <= 1, "method-ran-more-than-once")
	switch typ {
	case net.Call:
		sym.Assert(runs == 1, "call-did-not-run")
		sym.Assert(len(out) == 1, "call-answer-count")
		if len(out) == 1 {
			h := out[0].Header
			sym.Assert(h.Type == net.Reply || h.Type == net.Error, "call-answer-type")
			sym.Assert(sym.And(sym.And(h.ID == id, h.Service == frame.Header.Service),
				sym.And(h.Object == frame.Header.Object, h.Action == frame.Header.Action)), "call-answer-header")
		}
		sym.Reach("call")
	case net.Post:
		sym.Assert(len(out) == 0, "post-answered")
		sym.Reach("post")
	default:
		// label names the message type: a finding is keyed by it
		sym.Assert(runs == 0, "method-ran-for-message-type-"+zzTypeName(typ))
		sym.Reach("other-type")
	}
}

func zzTypeName(t uint8) string {
	return []string{"unknown", "call", "reply", "error", "post", "event", "capability", "cancel", "cancelled"}[t]
}

// C04CancelAfterCall: the client's own cancellation path: a call followed by the cancel message the
// client sends for it must not execute the method a second time.
func C04CancelAfterCall() {
	_, probe, _, a := zzAuthedServer()
	id := sym.U32("id")
	action := sym.U32("action")
	a.inject(zzFrame(net.Call, 1, 1, action, id, []byte{7}))
	sym.Quiesce()
	sym.Assert(probe.count() == 1, "call-ran-once")
	a.inject(zzFrame(net.Cancel, 1, 1, action, id, []byte{}))
	sym.Quiesce()
	sym.Assert(probe.count() == 1, "cancel-executed-the-method-again")
	sym.Reach("cancel-done")
}

// C04ReplyHeader (L4): SendReply/SendError answer with the request's own id/service/object/action
// for a fully symbolic request header.
func C04ReplyHeader() {
	s := newZZStream()
	ch := NewChannel(net.NewEndPoint(s), DefaultCap())
	h := net.NewHeader(sym.U8("type"), sym.U32("service"), sym.U32("object"), sym.U32("action"), sym.U32("id"))
	sym.Assume(h.Type >= 1)
	sym.Assume(h.Type <= 8)
	h.Flags = sym.U8("flags")
	req := net.NewMessage(h, sym.Bytes("req", 1))
	resp := sym.Bytes("resp", 2)
	sym.Assert(ch.SendReply(&req, resp) == nil, "send-reply-ok")
	sym.Assert(ch.SendError(&req, ErrActionNotFound) == nil, "send-error-ok")
	out := s.sentMessages()
	sym.Assert(len(out) == 2, "two-frames")
	if len(out) != 2 {
		return
	}
	same := func(x net.Header) bool {
		return sym.And(sym.And(x.ID == h.ID, x.Service == h.Service), sym.And(x.Object == h.Object, x.Action == h.Action))
	}
	sym.Assert(sym.And(out[0].Header.Type == net.Reply, same(out[0].Header)), "reply-header")
	sym.Assert(sym.EqBytes(out[0].Payload, resp), "reply-payload")
	sym.Assert(sym.And(out[1].Header.Type == net.Error, same(out[1].Header)), "error-header")
	sym.Assert(zzErrorText(out[1]) == ErrActionNotFound.Error(), "error-text")
	sym.Reach("reply-header-done")
}

// C04LargeArgs: two concurrent callers with large (5000-byte) argument payloads: each call frame on
// the wire is intact, so each method would see exactly its caller's arguments.
func C04LargeArgs() {
	sym.SetMaxMaterialise(1 << 16)
	s := newZZStream()
	e := net.NewEndPoint(s)
	c := NewClient(NewChannel(e, DefaultCap()))
	args := make([][]byte, 2)
	for i := range args {
		args[i] = make([]byte, 5000)
		args[i][0], args[i][4999] = sym.U8("first"), sym.U8("last")
		args[i][1] = byte(0xA0 + i)
		go func(i int) { c.Call(nil, 1, 1, uint32(10+i), args[i]) }(i)
	}
	sym.Quiesce()
	frames := s.sentMessages()
	sym.Assert(len(frames) == 2, "call-frames-intact")
	for _, f := range frames {
		if len(f.Payload) != 5000 {
			sym.Fail("call-frame-corrupted")
			continue
		}
		i := int(f.Payload[1]) - 0xA0
		if i < 0 || i > 1 {
			sym.Fail("call-frame-corrupted")
			continue
		}
		sym.Assert(f.Header.Action == uint32(10+i), "arguments-reached-another-method")
		sym.Assert(sym.And(f.Payload[0] == args[i][0], f.Payload[4999] == args[i][4999]), "arguments-altered")
	}
	s.peerClose()
	sym.Quiesce()
	sym.Reach("large-args-done")
}

// C04BusyObject: requests pile up behind a slow call on one object of a service. (a) calls: every one
// of them gets exactly one answer (reply or error), also when the object is REMOVED while they are
// queued; (b) posts: none of them ever produces a response frame, not even when the queues overflow.
func C04BusyObject() {
	v := newZZVictim(0)
	sub := newZZObj()
	sub.gate = make(chan struct{})
	s := v.srv.(*server)
	s.Router.RLock()
	svc := s.Router.services[v.sid]
	s.Router.RUnlock()
	id, err := svc.Add(sub.front)
	sym.Assert(err == nil, "sub-object-added")
	// the slow call
	v.hostile.inject(zzFrame(net.Call, v.sid, id, 1000, 100, nil))
	sym.Quiesce()
	before := len(v.hostile.sentMessages())
	posts := sym.Choose("queued-are-posts", 2) == 1
	n := []int{3, 14}[sym.Choose("queued-calls", 2)] // 14: the mailbox (10 slots) is full and the connection is waiting on it
	if posts {
		n = 24 // more than connection queue (10) + mailbox (10) hold
	}
	typ := uint8(net.Call)
	if posts {
		typ = net.Post
	}
	for i := 0; i < n; i++ {
		v.hostile.inject(zzFrame(typ, v.sid, id, 1000, uint32(200+i), nil))
		if !posts && i == 9 {
			// first wave: the mailbox is now full; the second wave finds the connection waiting on it
			sym.Quiesce()
		}
	}
	sym.Quiesce()
	removed := false
	if !posts && sym.Choose("object-removed-while-queued", 2) == 1 {
		sym.Assert(svc.Remove(id) == nil, "remove-ok")
		removed = true
	}
	close(sub.gate)
	sym.Quiesce()
	out := v.hostile.sentMessages()[before:]
	answers := map[uint32]int{}
	for _, m := range out {
		answers[m.Header.ID]++
		sym.Assert(m.Header.Type == net.Reply || m.Header.Type == net.Error, "busy/unexpected-frame-type")
	}
	sym.Assert(answers[100] == 1, "busy/slow-call-answer-count")
	for i := 0; i < n; i++ {
		if posts {
			sym.Assert(answers[uint32(200+i)] == 0, "busy/post-produced-a-response")
		} else {
			sym.Assert(answers[uint32(200+i)] == 1, "busy/queued-call-answer-count")
		}
	}
	_ = removed
	sym.Reach("busy-done")
}

// C04LargeArgsInFlight: two calls with large (70000 / 69000-byte) arguments on one connection, the
// first still executing when the second is read: what the first method was given is still ITS
// arguments (nothing the connection reads later may alter them), and the second gets its own.
func C04LargeArgsInFlight() {
	sym.SetMaxMaterialise(1 << 18)
	v := newZZVictim(0)
	v.obj.gate = make(chan struct{})
	argA := make([]byte, 70000)
	argB := make([]byte, 69000)
	argA[0], argA[68999], argA[69999] = sym.U8("a-first"), sym.U8("a-middle"), sym.U8("a-last")
	argB[0], argB[68999] = sym.U8("b-first"), sym.U8("b-last")
	v.hostile.inject(zzFrame(net.Call, v.sid, 1, 1000, 100, argA))
	sym.Quiesce()
	v.hostile.inject(zzFrame(net.Call, v.sid, 1, 1000, 101, argB))
	sym.Quiesce()
	v.obj.seenMu.Lock()
	seen := append([]*net.Message(nil), v.obj.seen...)
	v.obj.seenMu.Unlock()
	sym.Assert(len(seen) >= 1, "large-in-flight/first-call-reached-the-method")
	if len(seen) >= 1 {
		p := seen[0].Payload
		sym.Assert(len(p) == 70000, "large-in-flight/first-arguments-length")
		if len(p) == 70000 {
			sym.Assert(sym.And(p[0] == argA[0], sym.And(p[68999] == argA[68999], p[69999] == argA[69999])), "large-in-flight/first-arguments-altered-while-executing")
		}
	}
	close(v.obj.gate)
	sym.Quiesce()
	v.obj.seenMu.Lock()
	seen = append([]*net.Message(nil), v.obj.seen...)
	v.obj.seenMu.Unlock()
	sym.Assert(len(seen) == 2, "large-in-flight/both-calls-executed")
	if len(seen) == 2 && len(seen[1].Payload) == 69000 {
		sym.Assert(sym.And(seen[1].Payload[0] == argB[0], seen[1].Payload[68999] == argB[68999]), "large-in-flight/second-arguments")
	}
	sym.Reach("large-in-flight-done")
}

// C04Overlapping: calls that overlap partially on one connection: A and B are pending, one of them
// (solver's choice) completes, and while the other is still pending two more calls C and D are issued;
// the remaining replies come back in a solver-chosen order. Every call returns once, with the reply
// carrying its own id (a reply slot that is re-used must not take a pending call's place).
func C04Overlapping() {
	s := newZZStream()
	c := NewClient(NewChannel(net.NewEndPoint(s), DefaultCap()))
	const n = 4
	res := make([]chan zzCallRes, n)
	issue := func(i int) {
		res[i] = make(chan zzCallRes, 1)
		go func() {
			p, err := c.Call(nil, 1, 1, 100, []byte{byte(0xA0 + i)})
			res[i] <- zzCallRes{p, err}
		}()
	}
	answered := make([]bool, n)
	answer := func(i int) {
		for _, f := range s.sentMessages() {
			if len(f.Payload) == 1 && f.Payload[0] == byte(0xA0+i) {
				h := f.Header
				h.Type = net.Reply
				s.inject(net.NewMessage(h, []byte{byte(0xB0 + i)}))
				answered[i] = true
			}
		}
		sym.Quiesce()
	}
	issue(0)
	sym.Quiesce()
	issue(1)
	sym.Quiesce()
	first := sym.Choose("completes-first", 2)
	answer(first)
	r := <-res[first]
	sym.Assert(r.err == nil && len(r.payload) == 1 && r.payload[0] == byte(0xB0+first), "overlapping/first-completed-call")
	issue(2)
	sym.Quiesce()
	issue(3)
	sym.Quiesce()
	sym.Assert(len(s.sentMessages()) == n, "overlapping/call-frames-sent")
	// the three pending calls are answered in a solver-chosen order
	for k := 0; k < 3; k++ {
		j := sym.Choose("answer-next", n)
		if answered[j] {
			for j = 0; j < n && answered[j]; j++ {
			}
		}
		answer(j)
	}
	for i := 0; i < n; i++ {
		if i == first {
			continue
		}
		r := <-res[i] // a caller that never returns is a deadlock finding
		sym.Assert(r.err == nil, "overlapping/pending-call-failed")
		sym.Assert(len(r.payload) == 1 && r.payload[0] == byte(0xB0+i), "overlapping/answer-of-another-call")
	}
	sym.Reach("overlapping-done")
}

// C04CallerLeaves: the connection of a caller goes away while its method is executing (the peer hangs
// up, or every further write on it fails): the answer cannot be delivered, but that is this caller's
// problem alone: the next calls to the same object, from another connection, get their outcome.
func C04CallerLeaves() {
	v := newZZVictim(0)
	v.obj.gate = make(chan struct{})
	generic := sym.Bool("call-to-a-generic-action")
	if generic {
		v.obj.gate = nil
	}
	how := sym.Choose("how-the-caller-leaves", 2)
	if generic {
		// nothing to hold a generic action with: the connection is already broken when the call arrives
		v.hostile.mu.Lock()
		v.hostile.failFrom = v.hostile.writes + 1
		v.hostile.mu.Unlock()
		v.hostile.inject(zzFrame(net.Call, v.sid, 1, 2, 100, zzLE32(1)))
		sym.Quiesce()
	} else {
		v.hostile.inject(zzFrame(net.Call, v.sid, 1, 1000, 100, []byte{1}))
		sym.Quiesce()
		if how == 0 {
			v.hostile.peerClose()
		} else {
			v.hostile.mu.Lock()
			v.hostile.failFrom = v.hostile.writes + 1
			v.hostile.mu.Unlock()
		}
		sym.Quiesce()
		close(v.obj.gate)
		sym.Quiesce()
	}
	v.probe("after-the-caller-left")
	v.probe("after-the-caller-left-again")
	sym.Reach("caller-leaves-done")
}

// C04TracedObject: with the object's tracing switched on (every call goes through the tracing
// wrapper of the connection), calls of any id that succeed or fail — a user method, a generic
// action without its arguments, an unknown property — are still answered exactly once, with a frame of the right type
// carrying the call's own id.
func C04TracedObject() {
	v := newZZVictim(0)
	if sym.Bool("traces-enabled") {
		out := zzRoundTrip(v.hostile, zzFrame(net.Call, v.sid, 1, 85, 60, []byte{1}))
		sym.Assert(len(out) == 1 && out[0].Header.Type == net.Reply, "traced/enable-trace")
	}
	if sym.Bool("statistics-enabled") {
		// with method statistics on, every call goes through the measuring wrapper of ITS connection; the
		// calls below come from this connection, the probes at the end from another one (both connections
		// look alike: same kind of transport, same textual address)
		out := zzRoundTrip(v.hostile, zzFrame(net.Call, v.sid, 1, 81, 61, []byte{1}))
		sym.Assert(len(out) == 1 && out[0].Header.Type == net.Reply, "traced/enable-stats")
	}
	for i := 0; i < 2; i++ {
		id := sym.U32("call-id")
		action := uint32(1000)
		wantType := uint8(net.Reply)
		var payload []byte
		switch sym.Choose("call-kind", 3) {
		case 1:
			action, wantType = 0, net.Error // registerEvent without its arguments
		case 2:
			action, wantType = 5, net.Error // property(name) of a property that does not exist
			payload = zzValueBytes(value.String("nope"))
		}
		out := zzRoundTrip(v.hostile, zzFrame(net.Call, v.sid, 1, action, id, payload))
		sym.Assert(len(out) == 1, "traced/answer-count")
		if len(out) == 1 {
			sym.Assert(out[0].Header.Type == wantType, "traced/answer-type")
			sym.Assert(sym.And(out[0].Header.ID == id, sym.And(out[0].Header.Action == action, out[0].Header.Object == 1)), "traced/answer-carries-another-id")
		}
	}
	v.probe("after-traced-calls")
	sym.Reach("traced-done")
}

// zzIdleActor: an actor that does nothing (the router's service 0 in C04RouterConcurrent).
type zzIdleActor struct{}

func (zzIdleActor) Receive(m *net.Message, from Channel) error { return nil }
func (zzIdleActor) Activate(activation Activation) error       { return nil }
func (zzIdleActor) OnTerminate()                               {}

// zzRouted: a service that records which messages the router handed to it.
type zzRouted struct {
	id  uint32
	mu  sync.Mutex
	got []uint32 // the Service field of every message received
}

func (z *zzRouted) ServiceID() uint32            { return z.id }
func (z *zzRouted) Add(o Actor) (uint32, error)  { return 0, nil }
func (z *zzRouted) Remove(objectID uint32) error { return nil }
func (z *zzRouted) Terminate() error             { return nil }
func (z *zzRouted) Receive(m *net.Message, from Channel) error {
	z.mu.Lock()
	z.got = append(z.got, m.Header.Service)
	z.mu.Unlock()
	return nil
}

// C04RouterConcurrent: the router is entered by every connection's goroutine. Two connections address two
// different services at the same moment (every shared-memory access of the router is a scheduling point),
// then one more message is routed: each service only ever receives messages addressed to it — also the
// messages that follow the concurrent pair. (Cross-listed under C06: a message handed to another service
// than the one it names is how a service-0 request of an unauthenticated peer would get past the gate.)
func C04RouterConcurrent() {
	// the router comes from its constructor (service 0 is whatever the constructor makes of the actor)
	a, b := &zzRouted{id: 1}, &zzRouted{id: 2}
	r := NewRouter(zzIdleActor{}, nil, nil)
	sym.Assert(r.Add(1, a) == nil && r.Add(2, b) == nil, "router/services-added")
	st := newZZStream()
	ch := NewChannel(net.NewEndPoint(st), DefaultCap())
	// an earlier message (whatever the router remembers between messages is warm)
	warm := 1 + uint32(sym.Choose("earlier-message-to", 2))
	m0 := zzFrame(net.Call, warm, 1, 1, 1, nil)
	r.Receive(&m0, ch)
	done := make(chan bool, 2)
	sym.RacyScope("bus.Router") // from here on every shared-memory access of the router is a scheduling point
	go func() { m := zzFrame(net.Call, 1, 1, 1, 2, nil); r.Receive(&m, ch); done <- true }()
	go func() { m := zzFrame(net.Call, 2, 1, 1, 3, nil); r.Receive(&m, ch); done <- true }()
	<-done
	<-done
	last := 1 + uint32(sym.Choose("later-message-to", 2))
	m3 := zzFrame(net.Call, last, 1, 1, 4, nil)
	r.Receive(&m3, ch)
	for _, s := range a.got {
		sym.Assert(s == 1, "router/service-1-got-a-message-for-another-service")
	}
	for _, s := range b.got {
		sym.Assert(s == 2, "router/service-2-got-a-message-for-another-service")
	}
	sym.Assert(len(a.got)+len(b.got) == 4, "router/message-lost-or-duplicated")
	sym.Reach("router-concurrent-done")
}
