//go:build verif

package session

import (
	"errors"
	"sync/atomic"

	"github.com/lugu/qiloop/bus"
	"github.com/lugu/qiloop/bus/net"
	"github.com/lugu/qiloop/bus/services"
	"github.com/lugu/qiloop/internal/zzverif/sym"
)

// c19Shared: goroutines concurrently request clients from one session for services behind the
// same and different endpoints. bus.SelectEndPoint (the function that dials) is replaced by a
// harness function handing out fresh in-memory connections, yielding in the middle of the "dial".
func c19Shared(n int) {
	var dials int32
	var streams []*zzStream
	sym.Replace("github.com/lugu/qiloop/bus.SelectEndPoint", func(addrs []string, user, token string) (string, bus.Channel, error) {
		if len(addrs) == 0 {
			return "", nil, errors.New("empty address list")
		}
		atomic.AddInt32(&dials, 1)
		sym.Yield() // connecting takes time: other requests run meanwhile
		st := newZZStream()
		streams = append(streams, st)
		return addrs[0], bus.NewChannel(net.NewEndPoint(st), bus.DefaultCap()), nil
	})
	s := &Session{poll: map[string]bus.Client{}}
	infos := []services.ServiceInfo{
		{Name: "a", ServiceId: 2, Endpoints: []string{"tcp://one"}},
		{Name: "b", ServiceId: 3, Endpoints: []string{"tcp://one"}},
		{Name: "c", ServiceId: 4, Endpoints: []string{"tcp://two"}},
	}
	clients := make([]bus.Client, n)
	errs := make([]error, n)
	which := make([]int, n)
	done := make(chan bool, n)
	for i := 0; i < n; i++ {
		which[i] = sym.Choose("service", len(infos))
		go func(i int) {
			clients[i], errs[i] = s.client(infos[which[i]])
			done <- true
		}(i)
	}
	for i := 0; i < n; i++ {
		<-done
	}
	sym.Quiesce()
	for i := 0; i < n; i++ {
		sym.Assert(errs[i] == nil, "request-failed")
		sym.Assert(clients[i] != nil, "request-without-client")
	}
	// at most one connection per endpoint, shared by everybody who asked for it
	s.pollMutex.RLock()
	for i := 0; i < n; i++ {
		addr := infos[which[i]].Endpoints[0]
		held, ok := s.poll[addr]
		sym.Assert(ok, "session-holds-no-connection-for-endpoint")
		sym.Assert(held == clients[i], "proxies-do-not-share-the-session-connection")
	}
	sym.Assert(len(s.poll) <= 2, "more-connections-than-endpoints")
	s.pollMutex.RUnlock()
	// connections that lost the race are closed
	open := 0
	for _, st := range streams {
		if !st.isClosed() {
			open++
		}
	}
	sym.Assert(open == len(s.poll), "losing-connection-left-open")
	sym.Reach("shared-done")
}

func C19Shared()     { c19Shared(2) }
func C19SharedDeep() { c19Shared(3) }

// zzDir: a directory proxy whose list of services changes between two calls (an unrelated service
// disappears): only Services() is used by the session's refresh.
type zzDir struct {
	services.ServiceDirectoryProxy
	lists [][]services.ServiceInfo
	calls int
}

func (d *zzDir) Services() ([]services.ServiceInfo, error) {
	l := d.lists[d.calls%len(d.lists)]
	d.calls++
	return append([]services.ServiceInfo(nil), l...), nil
}

// C19LookupDuringRefresh: requests look services up (by name and by id) while the session refreshes
// its service list because an UNRELATED service was removed / added: a registered service is always
// found, with its own endpoints (every shared-memory access of bus/session is a scheduling point).
func C19LookupDuringRefresh() {
	sym.RacyScope("bus/session.")
	x := services.ServiceInfo{Name: "x", ServiceId: 2, Endpoints: []string{"tcp://x"}}
	a := services.ServiceInfo{Name: "a", ServiceId: 3, Endpoints: []string{"tcp://a"}}
	b := services.ServiceInfo{Name: "b", ServiceId: 4, Endpoints: []string{"tcp://b"}}
	orders := [][][]services.ServiceInfo{
		{{x, a, b}, {a, b}},         // x removed
		{{a, b}, {x, a, b}},         // x added
		{{x, a, b}, {b, a, x}},      // the directory lists them in another order
		{{x, a, b}, {a, b}, {b, a}}, // two refreshes
	}
	d := &zzDir{lists: orders[sym.Choose("refresh", len(orders))]}
	s := &Session{poll: map[string]bus.Client{}, Directory: d}
	s.updateServiceList()
	refreshes := len(d.lists) - 1
	done := make(chan bool, 3)
	var byName, byID services.ServiceInfo
	var errName, errID error
	go func() {
		for i := 0; i < refreshes; i++ {
			s.updateServiceList()
		}
		done <- true
	}()
	go func() { byName, errName = s.findServiceName("a"); done <- true }()
	go func() { byID, errID = s.findServiceID(4); done <- true }()
	<-done
	<-done
	<-done
	sym.Assert(errName == nil, "lookup-by-name/registered-service-not-found")
	sym.Assert(errID == nil, "lookup-by-id/registered-service-not-found")
	if errName == nil {
		sym.Assert(byName.Name == "a" && byName.ServiceId == 3 && len(byName.Endpoints) == 1 && byName.Endpoints[0] == "tcp://a", "lookup-by-name/wrong-service")
	}
	if errID == nil {
		sym.Assert(byID.Name == "b" && byID.ServiceId == 4 && len(byID.Endpoints) == 1 && byID.Endpoints[0] == "tcp://b", "lookup-by-id/wrong-service")
	}
	sym.Reach("lookup-refresh-done")
}
