//go:build verif

package session

import (
	"errors"
	"strconv"
	"strings"
	"sync/atomic"

	"github.com/lugu/qiloop/bus"
	"github.com/lugu/qiloop/bus/directory"
	"github.com/lugu/qiloop/bus/net"
	"github.com/lugu/qiloop/bus/services"
	"github.com/lugu/qiloop/bus/util"
	"github.com/lugu/qiloop/internal/zzverif/sym"
	"github.com/lugu/qiloop/type/object"
)

// c19Shared: goroutines concurrently request clients from one session for services behind the
// same and different endpoints. bus.SelectEndPoint (the function that dials) is replaced by a
// harness function handing out fresh in-memory connections, yielding in the middle of the "dial".
func c19Shared(n int) {
	var dials int32
	var streams []*zzStream
	sym.Replace("github.com/lugu/qiloop/bus.SelectEndPoint", func(addrs []string, user, token string) (string, bus.Channel, error) {
		if len(addrs) == 0 {
			return "", nil, errors.New("empty address list")
		}
		atomic.AddInt32(&dials, 1)
		sym.Yield() // connecting takes time: other requests run meanwhile
		st := newZZStream()
		streams = append(streams, st)
		return addrs[0], bus.NewChannel(net.NewEndPoint(st), bus.DefaultCap()), nil
	})
	s := &Session{poll: map[string]bus.Client{}}
	infos := []services.ServiceInfo{
		{Name: "a", ServiceId: 2, Endpoints: []string{"tcp://one"}},
		{Name: "b", ServiceId: 3, Endpoints: []string{"tcp://one"}},
		{Name: "c", ServiceId: 4, Endpoints: []string{"tcp://two"}},
	}
	clients := make([]bus.Client, n)
	errs := make([]error, n)
	which := make([]int, n)
	done := make(chan bool, n)
	for i := 0; i < n; i++ {
		which[i] = sym.Choose("service", len(infos))
		go func(i int) {
			clients[i], errs[i] = s.client(infos[which[i]])
			done <- true
		}(i)
	}
	for i := 0; i < n; i++ {
		<-done
	}
	sym.Quiesce()
	for i := 0; i < n; i++ {
		sym.Assert(errs[i] == nil, "request-failed")
		sym.Assert(clients[i] != nil, "request-without-client")
	}
	// at most one connection per endpoint, shared by everybody who asked for it
	s.pollMutex.RLock()
	for i := 0; i < n; i++ {
		addr := infos[which[i]].Endpoints[0]
		held, ok := s.poll[addr]
		sym.Assert(ok, "session-holds-no-connection-for-endpoint")
		sym.Assert(held == clients[i], "proxies-do-not-share-the-session-connection")
	}
	sym.Assert(len(s.poll) <= 2, "more-connections-than-endpoints")
	s.pollMutex.RUnlock()
	// connections that lost the race are closed
	open := 0
	for _, st := range streams {
		if !st.isClosed() {
			open++
		}
	}
	sym.Assert(open == len(s.poll), "losing-connection-left-open")
	sym.Reach("shared-done")
}

func C19Shared()     { c19Shared(2) }
func C19SharedDeep() { c19Shared(3) }

// zzDir: a directory proxy whose list of services changes between two calls (an unrelated service
// disappears): only Services() is used by the session's refresh.
type zzDir struct {
	services.ServiceDirectoryProxy
	lists [][]services.ServiceInfo
	calls int
}

func (d *zzDir) Services() ([]services.ServiceInfo, error) {
	l := d.lists[d.calls%len(d.lists)]
	d.calls++
	return append([]services.ServiceInfo(nil), l...), nil
}

// C19LookupDuringRefresh: requests look services up (by name and by id) while the session refreshes
// its service list because an UNRELATED service was removed / added: a registered service is always
// found, with its own endpoints (every shared-memory access of bus/session is a scheduling point).
func C19LookupDuringRefresh() {
	sym.RacyScope("bus/session.")
	x := services.ServiceInfo{Name: "x", ServiceId: 2, Endpoints: []string{"tcp://x"}}
	a := services.ServiceInfo{Name: "a", ServiceId: 3, Endpoints: []string{"tcp://a"}}
	b := services.ServiceInfo{Name: "b", ServiceId: 4, Endpoints: []string{"tcp://b"}}
	orders := [][][]services.ServiceInfo{
		{{x, a, b}, {a, b}},         // x removed
		{{a, b}, {x, a, b}},         // x added
		{{x, a, b}, {b, a, x}},      // the directory lists them in another order
		{{x, a, b}, {a, b}, {b, a}}, // two refreshes
	}
	d := &zzDir{lists: orders[sym.Choose("refresh", len(orders))]}
	s := &Session{poll: map[string]bus.Client{}, Directory: d}
	s.updateServiceList()
	refreshes := len(d.lists) - 1
	done := make(chan bool, 3)
	var byName, byID services.ServiceInfo
	var errName, errID error
	go func() {
		for i := 0; i < refreshes; i++ {
			s.updateServiceList()
		}
		done <- true
	}()
	go func() { byName, errName = s.findServiceName("a"); done <- true }()
	go func() { byID, errID = s.findServiceID(4); done <- true }()
	<-done
	<-done
	<-done
	sym.Assert(errName == nil, "lookup-by-name/registered-service-not-found")
	sym.Assert(errID == nil, "lookup-by-id/registered-service-not-found")
	if errName == nil {
		sym.Assert(byName.Name == "a" && byName.ServiceId == 3 && len(byName.Endpoints) == 1 && byName.Endpoints[0] == "tcp://a", "lookup-by-name/wrong-service")
	}
	if errID == nil {
		sym.Assert(byID.Name == "b" && byID.ServiceId == 4 && len(byID.Endpoints) == 1 && byID.Endpoints[0] == "tcp://b", "lookup-by-id/wrong-service")
	}
	sym.Reach("lookup-refresh-done")
}

// C19SharedCalls: two goroutines get a client for the same endpoint from the session (they share one
// connection) and call the same method with different arguments at the same time: the two call frames
// carry distinct message ids (replies are routed by id: with equal ids one caller would get the
// other's answer), and each caller gets the answer sent for its own frame.
func C19SharedCalls() {
	var streams []*zzStream
	sym.Replace("github.com/lugu/qiloop/bus.SelectEndPoint", func(addrs []string, user, token string) (string, bus.Channel, error) {
		st := newZZStream()
		streams = append(streams, st)
		return addrs[0], bus.NewChannel(net.NewEndPoint(st), bus.DefaultCap()), nil
	})
	s := &Session{poll: map[string]bus.Client{}}
	info := services.ServiceInfo{Name: "a", ServiceId: 2, Endpoints: []string{"tcp://one"}}
	type res struct {
		payload []byte
		err     error
	}
	out := make([]chan res, 2)
	for i := 0; i < 2; i++ {
		out[i] = make(chan res, 1)
		go func(i int) {
			c, err := s.client(info)
			if err != nil {
				out[i] <- res{nil, err}
				return
			}
			p, err := c.Call(nil, 2, 1, 100, []byte{byte(0xA0 + i)})
			out[i] <- res{p, err}
		}(i)
	}
	// the peer answers each call as soon as its frame is there (its own argument echoed): the first
	// caller may be back before the second has even registered for its reply
	answered := 0
	for round := 0; round < 4 && answered < 2; round++ {
		sym.Quiesce()
		if len(streams) == 0 {
			continue
		}
		st := streams[0]
		for _, x := range streams {
			if !x.isClosed() {
				st = x
			}
		}
		calls := st.sentMessages()
		for ; answered < len(calls) && answered < 2; answered++ {
			h := calls[answered].Header
			h.Type = net.Reply
			st.inject(net.NewMessage(h, calls[answered].Payload))
		}
	}
	sym.Quiesce()
	sym.Assert(len(streams) >= 1, "dialled")
	st := streams[0]
	for _, x := range streams {
		if !x.isClosed() {
			st = x
		}
	}
	calls := st.sentMessages()
	sym.Assert(len(calls) == 2, "shared-calls/frames-on-the-shared-connection")
	if len(calls) != 2 {
		return
	}
	sym.Assert(calls[0].Header.ID != calls[1].Header.ID, "shared-calls/message-ids-distinct")
	for i := 0; i < 2; i++ {
		r := <-out[i]
		sym.Assert(r.err == nil, "shared-calls/call-failed")
		sym.Assert(len(r.payload) == 1 && r.payload[0] == byte(0xA0+i), "shared-calls/answer-of-another-call")
	}
	sym.Reach("shared-calls-done")
}

// zzFullSession: a real directory server and a real session connected to it (NewAuthSession: meta
// object fetch, service list, signal subscriptions). Under the engine the listener and the dial
// function are in-memory (sym.Replace); natively the same code runs over a real unix socket.
// zzDialled: the client side of every connection the session dialled (zzFullSession).
var zzDialled []*zzStream

// zzOpenConnections: how many of them are still open.
func zzOpenConnections() int {
	n := 0
	for _, c := range zzDialled {
		if !c.isClosed() {
			n++
		}
	}
	return n
}

func zzFullSession() (bus.Server, *Session, *int32) {
	l := newZZListener()
	zzDialled = nil
	dials := new(int32)
	sym.Replace("github.com/lugu/qiloop/bus/net.Listen", func(addr string) (net.Listener, error) { return l, nil })
	// the REAL bus.SelectEndPoint runs (address selection, authentication handshake); only the dial
	// itself is in-memory under the engine
	sym.Replace("github.com/lugu/qiloop/bus/net.DialEndPoint", func(addr string) (net.EndPoint, error) {
		atomic.AddInt32(dials, 1)
		cs, ss := zzPipe()
		zzDialled = append(zzDialled, cs)
		l.conns <- ss
		sym.Yield() // connecting takes time: other requests run meanwhile
		return net.NewEndPoint(cs), nil
	})
	addr := util.NewUnixAddr()
	srv, err := directory.NewServer(addr, nil)
	sym.Assert(err == nil, "directory-server-started")
	if err != nil {
		return nil, nil, dials
	}
	sess, err := NewAuthSession(addr, "user", "token")
	sym.Assert(err == nil, "session-established")
	if err != nil {
		return srv, nil, dials
	}
	return srv, sess.(*Session), dials
}

// C19Full: goroutines concurrently ask one real session for proxies (by name) and for objects (by
// reference) of the directory service: every request succeeds with a proxy that works (a call through
// it is answered), the process does not crash (no unsynchronised map access), one connection is held.
func C19Full()       { c19Full(false, 2) }
func C19MultiHomed() { c19Full(true, 2) }

// C19ThreeRequests: three goroutines ask for the SAME proxy at the same moment (whatever the session does
// to spare duplicate work between simultaneous requests must wake every one of them).
func C19ThreeRequests() { c19Full(false, 3) }

func c19Full(multiHomed bool, n int) {
	sym.Schedules(false) // the set-up (server start, session establishment) runs under the default schedule
	srv, s, _ := zzFullSession()
	if s == nil {
		return
	}
	// a second service, advertised behind three addresses: two of the test range (never dialled) and
	// an alias of the server's own address (another pool key: the first request has to connect)
	multi := bus.NewBasicObject(zzNopActor{}, object.MetaObject{Description: "multi"}, func(string, []byte) error { return nil })
	_, err := srv.NewService("multi", multi)
	sym.Assert(err == nil, "full/multi-service-registered")
	info, err := s.Directory.Service("multi")
	sym.Assert(err == nil, "full/multi-service-listed")
	if err != nil || len(info.Endpoints) == 0 {
		return
	}
	alias := "unix:///" + strings.TrimPrefix(info.Endpoints[0], "unix://")
	info.Endpoints = []string{"tcp://198.18.0.1:9559", "tcp://198.18.0.2:9559", alias}
	sym.Assert(s.Directory.UpdateServiceInfo(info) == nil, "full/multi-service-updated")
	s.updateServiceList()
	sym.Schedules(true)
	proxies := make([]bus.Proxy, n)
	errs := make([]error, n)
	kinds := make([]int, n)
	done := make(chan bool, n)
	for i := 0; i < n; i++ {
		// C19Full: requests for the directory service by name / by reference; C19MultiHomed: both
		// goroutines ask for the multi-homed service (its first connection)
		kinds[i] = 2
		if !multiHomed {
			kinds[i] = 0
			if n == 2 {
				kinds[i] = sym.Choose("request-kind", 2)
			}
		}
		go func(i int) {
			switch kinds[i] {
			case 1:
				ref := object.ObjectReference{ServiceID: 1, ObjectID: 1, MetaObject: object.MetaObject{}}
				proxies[i], errs[i] = s.Object(ref)
			case 2:
				proxies[i], errs[i] = s.Proxy("multi", 1)
			default:
				proxies[i], errs[i] = s.Proxy("ServiceDirectory", 1)
			}
			done <- true
		}(i)
	}
	for i := 0; i < n; i++ {
		<-done
	}
	sym.Schedules(false)
	for i := 0; i < n; i++ {
		sym.Assert(errs[i] == nil, "full/request-failed")
		if errs[i] == nil {
			// a working proxy: the metaObject action of the directory answers through it
			resp, err := proxies[i].CallID(2, []byte{1, 0, 0, 0})
			sym.Assert(err == nil && len(resp) > 0, "full/proxy-does-not-work")
		}
	}
	want := 1
	if kinds[0] == 2 {
		want = 2 // the directory's address and the alias
	}
	s.pollMutex.RLock()
	sym.Assert(len(s.poll) == want, "full/connections-held")
	s.pollMutex.RUnlock()
	// a goroutine that lost the race for an address may have dialled too, but it closed what it dialled:
	// the connections still open are the pooled ones
	// (the dial function is only replaced under the engine: a native run goes over a real socket and
	// has no list of what was dialled)
	sym.Quiesce()
	if sym.Symbolic() {
		sym.Assert(zzOpenConnections() == want, "full/connections-left-open-outside-the-pool")
	}
	// the advertised addresses are what they were (nobody scrambled the shared list)
	after, err := s.findServiceName("multi")
	sym.Assert(err == nil && len(after.Endpoints) == 3, "full/multi-service-endpoints")
	if err == nil && len(after.Endpoints) == 3 {
		seen := map[string]int{}
		for _, e := range after.Endpoints {
			seen[e]++
		}
		sym.Assert(seen["tcp://198.18.0.1:9559"] == 1 && seen["tcp://198.18.0.2:9559"] == 1 && seen[alias] == 1, "full/multi-service-addresses-changed")
	}
	s.Terminate()
	srv.Terminate()
	sym.Reach("full-done")
}

// zzGrowingDir: a directory whose answer to Services() is the list as of the moment the request
// is received (one more service after every notification); the reply takes time to come back.
type zzGrowingDir struct {
	services.ServiceDirectoryProxy
	lists [][]services.ServiceInfo
	calls int32
}

func (d *zzGrowingDir) Services() ([]services.ServiceInfo, error) {
	k := int(atomic.AddInt32(&d.calls, 1)) - 1
	if k >= len(d.lists) {
		k = len(d.lists) - 1
	}
	l := append([]services.ServiceInfo(nil), d.lists[k]...)
	sym.Yield() // the round trip to the directory
	return l, nil
}

// C19RefreshOrder: two services are registered in quick succession; the session is told twice and
// refreshes its list: once things have settled, requests for the service registered LAST find it
// (the list the session ends up with is the most recent one it asked for).
func C19RefreshOrder() {
	a := services.ServiceInfo{Name: "a", ServiceId: 2, Endpoints: []string{"tcp://a"}}
	b := services.ServiceInfo{Name: "b", ServiceId: 3, Endpoints: []string{"tcp://b"}}
	c := services.ServiceInfo{Name: "c", ServiceId: 4, Endpoints: []string{"tcp://c"}}
	d := &zzGrowingDir{lists: [][]services.ServiceInfo{{a}, {a, b}, {a, b, c}}}
	s := &Session{poll: map[string]bus.Client{}, Directory: d,
		added: make(chan services.ServiceAdded, 4), removed: make(chan services.ServiceRemoved, 4)}
	s.updateServiceList() // initial list: {a}
	go s.updateLoop()
	s.added <- services.ServiceAdded{ServiceID: 3, Name: "b"}
	s.added <- services.ServiceAdded{ServiceID: 4, Name: "c"}
	sym.Quiesce()
	_, err := s.findServiceName("c")
	sym.Assert(err == nil, "refresh-order/last-registered-service-not-found")
	_, err = s.findServiceID(3)
	sym.Assert(err == nil, "refresh-order/registered-service-not-found")
	// an unrelated service goes away: while the session refreshes its list, requests for the services
	// that are still registered keep being resolved
	found := make(chan error, 1)
	s.removed <- services.ServiceRemoved{ServiceID: 9, Name: "x"}
	go func() { _, err := s.findServiceName("a"); found <- err }()
	sym.Quiesce()
	sym.Assert(<-found == nil, "refresh-order/registered-service-not-found-during-a-refresh")
	close(s.added)
	sym.Reach("refresh-order-done")
}

type zzNopActor struct{}

func (zzNopActor) Receive(m *net.Message, from bus.Channel) error {
	return from.SendError(m, bus.ErrActionNotFound)
}
func (zzNopActor) Activate(a bus.Activation) error { return nil }
func (zzNopActor) OnTerminate()                    {}

// C19StaggeredCalls: two goroutines share the session's connection; the second issues its call just
// when the first one's reply has been dispatched but the first caller has not returned yet (its
// reply slot on the connection is free again and gets re-used): both calls succeed with their own answers.
func C19StaggeredCalls() {
	var streams []*zzStream
	sym.Replace("github.com/lugu/qiloop/bus.SelectEndPoint", func(addrs []string, user, token string) (string, bus.Channel, error) {
		st := newZZStream()
		streams = append(streams, st)
		return addrs[0], bus.NewChannel(net.NewEndPoint(st), bus.DefaultCap()), nil
	})
	s := &Session{poll: map[string]bus.Client{}}
	info := services.ServiceInfo{Name: "a", ServiceId: 2, Endpoints: []string{"tcp://one"}}
	c, err := s.client(info)
	sym.Assert(err == nil && len(streams) == 1, "staggered/connected")
	if err != nil || len(streams) != 1 {
		return
	}
	st := streams[0]
	type res struct {
		payload []byte
		err     error
	}
	outA, outB := make(chan res, 1), make(chan res, 1)
	go func() {
		p, err := c.Call(nil, 2, 1, 100, []byte{0xA0})
		outA <- res{p, err}
	}()
	sym.Quiesce()
	calls := st.sentMessages()
	sym.Assert(len(calls) == 1, "staggered/first-call-sent")
	if len(calls) != 1 {
		return
	}
	h := calls[0].Header
	h.Type = net.Reply
	st.inject(net.NewMessage(h, []byte{0xA0}))
	// no quiescence: the second caller starts while the first reply is being delivered
	go func() {
		c2, err := s.client(info)
		if err != nil {
			outB <- res{nil, err}
			return
		}
		p, err := c2.Call(nil, 2, 1, 100, []byte{0xB0})
		outB <- res{p, err}
	}()
	sym.Quiesce()
	calls = st.sentMessages()
	for _, f := range calls[1:] {
		h := f.Header
		h.Type = net.Reply
		st.inject(net.NewMessage(h, f.Payload))
	}
	sym.Quiesce()
	ra, rb := <-outA, <-outB
	sym.Assert(ra.err == nil && len(ra.payload) == 1 && ra.payload[0] == 0xA0, "staggered/first-call")
	sym.Assert(rb.err == nil && len(rb.payload) == 1 && rb.payload[0] == 0xB0, "staggered/second-call-disturbed-by-the-first-one-returning")
	sym.Reach("staggered-done")
}

// C04SessionObjects: two proxies of the SAME remote object obtained from one session by reference
// (what generated code does with an object reference it receives) issue overlapping calls of the
// same method with different arguments over the pooled connection: each caller gets the answer
// computed from its own arguments (the two call frames must be told apart by their ids).
func C04SessionObjects() {
	var streams []*zzStream
	sym.Replace("github.com/lugu/qiloop/bus.SelectEndPoint", func(addrs []string, user, token string) (string, bus.Channel, error) {
		st := newZZStream()
		streams = append(streams, st)
		return addrs[0], bus.NewChannel(net.NewEndPoint(st), bus.DefaultCap()), nil
	})
	info := services.ServiceInfo{Name: "a", ServiceId: 2, Endpoints: []string{"tcp://one"}}
	s := &Session{poll: map[string]bus.Client{}, serviceList: []services.ServiceInfo{info}}
	ref := object.ObjectReference{ServiceID: 2, ObjectID: 7, MetaObject: object.MetaObject{}}
	type res struct {
		payload []byte
		err     error
	}
	out := make([]chan res, 2)
	for i := 0; i < 2; i++ {
		out[i] = make(chan res, 1)
		go func(i int) {
			p, err := s.Object(ref)
			if err != nil {
				out[i] <- res{nil, err}
				return
			}
			r, err := p.CallID(100, []byte{byte(0xA0 + i)})
			out[i] <- res{r, err}
		}(i)
	}
	sym.Quiesce()
	sym.Assert(len(streams) >= 1, "session-objects/dialled")
	if len(streams) == 0 {
		return
	}
	st := streams[0]
	for _, x := range streams {
		if !x.isClosed() {
			st = x
		}
	}
	calls := st.sentMessages()
	sym.Assert(len(calls) == 2, "session-objects/frames-on-the-pooled-connection")
	if len(calls) != 2 {
		return
	}
	sym.Assert(calls[0].Header.ID != calls[1].Header.ID, "session-objects/message-ids-distinct")
	for _, f := range calls {
		h := f.Header
		h.Type = net.Reply
		st.inject(net.NewMessage(h, f.Payload))
	}
	sym.Quiesce()
	for i := 0; i < 2; i++ {
		r := <-out[i]
		sym.Assert(r.err == nil, "session-objects/call-failed")
		sym.Assert(len(r.payload) == 1 && r.payload[0] == byte(0xA0+i), "session-objects/answer-of-another-call")
	}
	sym.Reach("session-objects-done")
}

// C19FailedRequest: one goroutine's request is answered by an error (an object the service does not
// host) while another asks for a registered service: the failure is the first goroutine's alone; the
// other request succeeds, the proxies handed out earlier keep working, the shared connection is kept
// (no new dial) and the session's directory proxy still answers.
func C19FailedRequest() {
	sym.Schedules(false)
	srv, s, dials := zzFullSession()
	if s == nil {
		return
	}
	earlier, err := s.Proxy("ServiceDirectory", 1)
	sym.Assert(err == nil, "failed-request/first-proxy")
	if err != nil {
		return
	}
	before := atomic.LoadInt32(dials)
	sym.Schedules(true)
	var bad, good bus.Proxy
	var badErr, goodErr error
	done := make(chan bool, 2)
	go func() { bad, badErr = s.Proxy("ServiceDirectory", 1234); done <- true }()
	go func() {
		if sym.Bool("second-request-by-reference") {
			good, goodErr = s.Object(object.ObjectReference{ServiceID: 1, ObjectID: 1, MetaObject: object.MetaObject{}})
		} else {
			good, goodErr = s.Proxy("ServiceDirectory", 1)
		}
		done <- true
	}()
	<-done
	<-done
	sym.Schedules(false)
	_ = bad
	sym.Assert(badErr != nil, "failed-request/unknown-object-accepted")
	sym.Assert(goodErr == nil, "failed-request/request-for-a-registered-service-failed")
	if goodErr == nil {
		resp, err := good.CallID(2, []byte{1, 0, 0, 0})
		sym.Assert(err == nil && len(resp) > 0, "failed-request/proxy-does-not-work")
	}
	resp, err := earlier.CallID(2, []byte{1, 0, 0, 0})
	sym.Assert(err == nil && len(resp) > 0, "failed-request/earlier-proxy-stopped-working")
	_, err = s.Directory.Services()
	sym.Assert(err == nil, "failed-request/directory-proxy-stopped-working")
	again, err := s.Proxy("ServiceDirectory", 1)
	sym.Assert(err == nil && again != nil, "failed-request/later-request-failed")
	sym.Assert(atomic.LoadInt32(dials) == before, "failed-request/new-connection-opened")
	s.pollMutex.RLock()
	sym.Assert(len(s.poll) == 1, "failed-request/connections-held")
	s.pollMutex.RUnlock()
	s.Terminate()
	srv.Terminate()
	sym.Reach("failed-request-done")
}

// C19LostRaces: five services behind five different addresses; for each of them, in turn, two goroutines
// ask the (real) session for a proxy at the same moment, and the dial takes long enough for both to have
// started one: one of the two loses the race for the address, every time. Whatever a request holds while it
// dials (a slot, a lock, a place in a table) is given back on that path too: all ten requests return, the
// pool holds one connection per address and nothing else stays open.
func C19LostRaces() {
	sym.Schedules(false) // one schedule (the default one makes both goroutines of a round dial): the subject is the accumulation over rounds
	srv, s, dials := zzFullSession()
	if s == nil {
		return
	}
	const rounds = 5
	for k := 0; k < rounds; k++ {
		name := "multi" + strconv.Itoa(k)
		o := bus.NewBasicObject(zzNopActor{}, object.MetaObject{Description: name}, func(string, []byte) error { return nil })
		_, err := srv.NewService(name, o)
		sym.Assert(err == nil, "lost-races/service-registered")
		info, err := s.Directory.Service(name)
		sym.Assert(err == nil && len(info.Endpoints) > 0, "lost-races/service-listed")
		if err != nil || len(info.Endpoints) == 0 {
			return
		}
		info.Endpoints = []string{"unix:///" + strings.Repeat("/", k) + strings.TrimPrefix(info.Endpoints[0], "unix://")}
		sym.Assert(s.Directory.UpdateServiceInfo(info) == nil, "lost-races/service-updated")
	}
	s.updateServiceList()
	before := atomic.LoadInt32(dials)
	for k := 0; k < rounds; k++ {
		name := "multi" + strconv.Itoa(k)
		errs := make([]error, 2)
		done := make(chan bool, 2)
		for i := 0; i < 2; i++ {
			go func(i int) {
				_, errs[i] = s.Proxy(name, 1)
				done <- true
			}(i)
		}
		<-done
		<-done
		sym.Assert(errs[0] == nil && errs[1] == nil, "lost-races/request-failed")
	}
	if sym.Symbolic() {
		// (under the engine the replaced dial yields, so both goroutines of a round dial; a native run over a
		// real socket may or may not have lost races)
		sym.Assert(atomic.LoadInt32(dials)-before == 2*rounds, "lost-races/scenario-has-no-lost-race")
	}
	s.pollMutex.RLock()
	sym.Assert(len(s.poll) == 1+rounds, "lost-races/connections-held")
	s.pollMutex.RUnlock()
	sym.Quiesce()
	if sym.Symbolic() {
		sym.Assert(zzOpenConnections() == 1+rounds, "lost-races/connections-left-open-outside-the-pool")
	}
	s.Terminate()
	srv.Terminate()
	sym.Reach("lost-races-done")
}
