//go:build verif

package session

import (
	"errors"
	"sync/atomic"

	"github.com/lugu/qiloop/bus"
	"github.com/lugu/qiloop/bus/net"
	"github.com/lugu/qiloop/bus/services"
	"github.com/lugu/qiloop/internal/zzverif/sym"
)

// c19Shared: goroutines concurrently request clients from one session for services behind the
// same and different endpoints. bus.SelectEndPoint (the function that dials) is replaced by a
// harness function handing out fresh in-memory connections, yielding in the middle of the "dial".
func c19Shared(n int) {
	var dials int32
	var streams []*zzStream
	sym.Replace("github.com/lugu/qiloop/bus.SelectEndPoint", func(addrs []string, user, token string) (string, bus.Channel, error) {
		if len(addrs) == 0 {
			return "", nil, errors.New("empty address list")
		}
		atomic.AddInt32(&dials, 1)
		sym.Yield() // connecting takes time: other requests run meanwhile
		st := newZZStream()
		streams = append(streams, st)
		return addrs[0], bus.NewChannel(net.NewEndPoint(st), bus.DefaultCap()), nil
	})
	s := &Session{poll: map[string]bus.Client{}}
	infos := []services.ServiceInfo{
		{Name: "a", ServiceId: 2, Endpoints: []string{"tcp://one"}},
		{Name: "b", ServiceId: 3, Endpoints: []string{"tcp://one"}},
		{Name: "c", ServiceId: 4, Endpoints: []string{"tcp://two"}},
	}
	clients := make([]bus.Client, n)
	errs := make([]error, n)
	which := make([]int, n)
	done := make(chan bool, n)
	for i := 0; i < n; i++ {
		which[i] = sym.Choose("service", len(infos))
		go func(i int) {
			clients[i], errs[i] = s.client(infos[which[i]])
			done <- true
		}(i)
	}
	for i := 0; i < n; i++ {
		<-done
	}
	sym.Quiesce()
	for i := 0; i < n; i++ {
		sym.Assert(errs[i] == nil, "request-failed")
		sym.Assert(clients[i] != nil, "request-without-client")
	}
	// at most one connection per endpoint, shared by everybody who asked for it
	s.pollMutex.RLock()
	for i := 0; i < n; i++ {
		addr := infos[which[i]].Endpoints[0]
		held, ok := s.poll[addr]
		sym.Assert(ok, "session-holds-no-connection-for-endpoint")
		sym.Assert(held == clients[i], "proxies-do-not-share-the-session-connection")
	}
	sym.Assert(len(s.poll) <= 2, "more-connections-than-endpoints")
	s.pollMutex.RUnlock()
	// connections that lost the race are closed
	open := 0
	for _, st := range streams {
		if !st.isClosed() {
			open++
		}
	}
	sym.Assert(open == len(s.poll), "losing-connection-left-open")
	sym.Reach("shared-done")
}

func C19Shared()     { c19Shared(2) }
func C19SharedDeep() { c19Shared(3) }
