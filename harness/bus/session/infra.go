//go:build verif

package session

import (
	"errors"

	"github.com/lugu/qiloop/bus/net"
)

// zzListener hands in-memory connections to a real server (under the engine net.Listen is replaced
// by a function returning it; natively the server listens on a real unix socket).
type zzListener struct {
	conns  chan net.Stream
	closed chan struct{}
}

func newZZListener() *zzListener {
	return &zzListener{conns: make(chan net.Stream, 4), closed: make(chan struct{})}
}

func (l *zzListener) Accept() (net.Stream, error) {
	select {
	case s := <-l.conns:
		return s, nil
	case <-l.closed:
		return nil, errors.New("listener closed")
	}
}

func (l *zzListener) Close() error {
	select {
	case <-l.closed:
	default:
		close(l.closed)
	}
	return nil
}

// zzPipe: two harness streams connected back to back (what one writes the other reads).
func zzPipe() (*zzStream, *zzStream) {
	a, b := newZZStream(), newZZStream()
	a.in = make(chan []byte, 64)
	b.in = make(chan []byte, 64)
	a.onWrite = func(p []byte) { b.in <- append([]byte{}, p...) }
	b.onWrite = func(p []byte) { a.in <- append([]byte{}, p...) }
	return a, b
}
