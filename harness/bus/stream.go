//go:build verif

package bus

import (
	"bytes"

	"context"
	"errors"
	"github.com/lugu/qiloop/bus/net"
	"io"
	"sync"
)

// zzStream is the harness side of a connection: an in-memory Stream honouring the net.Conn /
// io.Reader / io.Writer contracts. Incoming bytes are injected by the harness (chunk by chunk),
// outgoing bytes are captured per Write call.
type zzStream struct {
	in          chan []byte
	pending     []byte
	closed      chan struct{}
	once        sync.Once
	mu          sync.Mutex
	out         []byte
	writes      int
	failAt      int           // fail the k-th Write (1-based) when > 0
	failFrom    int           // fail the k-th Write and every later one (a broken pipe that was not noticed yet)
	wrote       chan struct{} // signalled (without blocking) after every successful Write
	eof         bool
	onWrite     func(p []byte) // called (outside the stream lock) before Write returns
	closeErr    bool           // Close reports an error (the connection is closed nevertheless)
	blockWrites int            // when > 0: the n-th Write (1-based) and later ones block until the stream is closed
}

var errZZClosed = errors.New("use of closed connection")

func newZZStream() *zzStream {
	return &zzStream{in: make(chan []byte, 16), closed: make(chan struct{}), wrote: make(chan struct{}, 64)}
}

func (s *zzStream) Read(p []byte) (int, error) {
	if s.eof {
		return 0, io.EOF
	}
	if len(s.pending) == 0 {
		select {
		case b := <-s.in:
			if b == nil {
				// end-of-stream marker queued by peerClose
				s.eof = true
				return 0, io.EOF
			}
			s.pending = b
		case <-s.closed:
			return 0, errZZClosed
		}
	}
	n := copy(p, s.pending)
	s.pending = s.pending[n:]
	return n, nil
}

func (s *zzStream) Write(p []byte) (int, error) {
	select {
	case <-s.closed:
		return 0, errZZClosed
	default:
	}
	s.mu.Lock()
	if s.blockWrites > 0 && s.writes+1 >= s.blockWrites {
		s.mu.Unlock()
		<-s.closed // a stalled peer: the write only returns when the connection is closed
		return 0, errZZClosed
	}
	s.writes++
	if s.failFrom > 0 && s.writes >= s.failFrom {
		s.mu.Unlock()
		return 0, errors.New("write: broken pipe")
	}
	if s.failAt > 0 && s.writes == s.failAt {
		s.mu.Unlock()
		return 0, errors.New("injected write failure")
	}
	s.out = append(s.out, p...)
	hook := s.onWrite
	s.mu.Unlock()
	select {
	case s.wrote <- struct{}{}:
	default:
	}
	if hook != nil {
		hook(p)
	}
	return len(p), nil
}

func (s *zzStream) Close() error {
	s.once.Do(func() { close(s.closed) })
	if s.closeErr {
		return errors.New("close: connection reset by peer")
	}
	return nil
}

func (s *zzStream) String() string           { return "zz://stream" }
func (s *zzStream) Context() context.Context { return context.TODO() }

func (s *zzStream) isClosed() bool {
	select {
	case <-s.closed:
		return true
	default:
		return false
	}
}

// peerClose: the remote side closes the connection after everything injected so far.
func (s *zzStream) peerClose() { s.in <- nil }

// sent returns a copy of everything written so far.
func (s *zzStream) sent() []byte {
	s.mu.Lock()
	defer s.mu.Unlock()
	return append([]byte{}, s.out...)
}

// inject queues one encoded message for the reader side.
func (s *zzStream) inject(m net.Message) {
	var buf bytes.Buffer
	m.Write(&buf)
	s.in <- buf.Bytes()
}

// sentMessages parses everything written so far into messages.
func (s *zzStream) sentMessages() []net.Message {
	r := bytes.NewReader(s.sent())
	var out []net.Message
	for r.Len() > 0 {
		var m net.Message
		if err := m.Read(r); err != nil {
			break
		}
		out = append(out, m)
	}
	return out
}

// waitSent blocks until at least n messages have been written to the stream (and no longer): what a
// client does when it waits for an answer before its next request.
func (s *zzStream) waitSent(n int) {
	for len(s.sentMessages()) < n {
		<-s.wrote
	}
}
