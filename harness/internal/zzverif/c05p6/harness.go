//go:build verif

package c05p6

import (
	"github.com/lugu/qiloop/bus"
	"github.com/lugu/qiloop/internal/zzverif/sym"
)

type zzImpl struct {
	which  int // which overload ran
	calls  int
	a, b   int32
	name   string
	ret32  int32
	retStr string
	ret64  int64
	levels []int32
}

func (z *zzImpl) Activate(activation bus.Activation, helper OverloadsSignalHelper) error { return nil }
func (z *zzImpl) OnTerminate()                                                           {}
func (z *zzImpl) Add(a int32) (int32, error) {
	z.calls++
	z.which, z.a = 0, a
	return z.ret32, nil
}
func (z *zzImpl) Add_0(name string) (string, error) {
	z.calls++
	z.which, z.name = 1, name
	return z.retStr, nil
}
func (z *zzImpl) Add_1(a int32, b int32) (int64, error) {
	z.calls++
	z.which, z.a, z.b = 2, a, b
	return z.ret64, nil
}
func (z *zzImpl) OnLevel_0Change(value int32) error {
	z.levels = append(z.levels, value)
	return nil
}

// C05Overloads: same-named methods (overloads) and a signal and a property sharing one name: each
// generated proxy method reaches its own implementation with its own arguments.
func C05Overloads() {
	im := &zzImpl{which: -1}
	p := MakeOverloads(nil, zzServe("Overloads", OverloadsObject(im), (&stubOverloads{}).metaObject()))
	switch sym.Choose("overload", 4) {
	case 0:
		a := sym.I32("a")
		im.ret32 = sym.I32("ret")
		got, err := p.Add(a)
		sym.Assert(err == nil, "add(int32)/call-ok")
		sym.Assert(im.which == 0, "add(int32)/wrong-overload-ran")
		sym.Assert(sym.And(im.a == a, got == im.ret32), "add(int32)/values")
	case 1:
		n := sym.Str("name", 2)
		im.retStr = sym.Str("ret", 1)
		got, err := p.Add_0(n)
		sym.Assert(err == nil, "add(str)/call-ok")
		sym.Assert(im.which == 1, "add(str)/wrong-overload-ran")
		sym.Assert(sym.And(sym.EqStr(im.name, n), sym.EqStr(got, im.retStr)), "add(str)/values")
	case 2:
		a, b := sym.I32("a"), sym.I32("b")
		im.ret64 = sym.I64("ret")
		got, err := p.Add_1(a, b)
		sym.Assert(err == nil, "add(int32,int32)/call-ok")
		sym.Assert(im.which == 2, "add(int32,int32)/wrong-overload-ran")
		sym.Assert(sym.And(sym.And(im.a == a, im.b == b), got == im.ret64), "add(int32,int32)/values")
	default:
		v := sym.I32("level")
		sym.Assert(p.SetLevel_0(v) == nil, "level/set-ok")
		got, err := p.GetLevel_0()
		sym.Assert(err == nil, "level/get-ok")
		sym.Assert(got == v, "level/get-returns-set-value")
		sym.Assert(len(im.levels) == 1, "level/validator-called-once")
	}
	sym.Assert(im.calls <= 1, "method-body-ran-more-than-once")
	sym.Reach("overloads-done")
}
