//go:build verif

package c05p7

import (
	"errors"

	"github.com/lugu/qiloop/bus"
	"github.com/lugu/qiloop/bus/net"
	"github.com/lugu/qiloop/internal/zzverif/sym"
	"github.com/lugu/qiloop/type/object"
)

type zzListener struct {
	conns  chan net.Stream
	closed chan struct{}
}

func newZZListener() *zzListener {
	return &zzListener{conns: make(chan net.Stream, 4), closed: make(chan struct{})}
}

func (l *zzListener) Accept() (net.Stream, error) {
	select {
	case s := <-l.conns:
		return s, nil
	case <-l.closed:
		return nil, errors.New("listener closed")
	}
}

func (l *zzListener) Close() error {
	select {
	case <-l.closed:
	default:
		close(l.closed)
	}
	return nil
}

// zzPipe: two harness streams connected back to back.
func zzPipe() (*zzStream, *zzStream) {
	a, b := newZZStream(), newZZStream()
	a.in = make(chan []byte, 64)
	b.in = make(chan []byte, 64)
	a.onWrite = func(p []byte) { b.in <- append([]byte{}, p...) }
	b.onWrite = func(p []byte) { a.in <- append([]byte{}, p...) }
	return a, b
}

// zzServe: a real server hosting obj as service `name`, and a raw proxy to it over an
// authenticated in-process connection (real client, real endpoint, real server path).
func zzServe(name string, obj bus.Actor, meta object.MetaObject) bus.Proxy {
	l := newZZListener()
	srv, err := bus.StandAloneServer(l, bus.Yes{}, bus.PrivateNamespace())
	sym.Assert(err == nil, "server-started")
	// an unrelated service first, so that the service under test does not have the same id as its
	// main object (1): a proxy that swaps the two is then visible
	_, err = srv.NewService("pad", obj)
	sym.Assert(err == nil, "pad-service-registered")
	service, err := srv.NewService(name, obj)
	sym.Assert(err == nil, "service-registered")
	sym.Assert(service.ServiceID() != 1, "service-id-differs-from-object-id")
	cs, ss := zzPipe()
	l.conns <- ss
	sym.Quiesce()
	ch := bus.NewChannel(net.NewEndPoint(cs), bus.ClientCap("u", "t"))
	sym.Assert(ch.Authenticate() == nil, "client-authenticated")
	return bus.NewProxy(bus.NewClient(ch), object.FullMetaObject(meta), service.ServiceID(), 1)
}
