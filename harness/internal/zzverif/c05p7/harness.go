//go:build verif

package c05p7

import (
	"github.com/lugu/qiloop/bus"
	"github.com/lugu/qiloop/internal/zzverif/sym"
)

type zzProbe struct{ v int32 }

func (p *zzProbe) Activate(a bus.Activation, h ProbeSignalHelper) error { return nil }
func (p *zzProbe) OnTerminate()                                         {}
func (p *zzProbe) Value() (int32, error)                                { return p.v, nil }

type zzHub struct{ calls int }

func (h *zzHub) Activate(a bus.Activation, s HubSignalHelper) error { return nil }
func (h *zzHub) OnTerminate()                                       {}

// Poke calls the object it was given back and returns what it answered.
func (h *zzHub) Poke(probe ProbeProxy) (int32, error) {
	h.calls++
	return probe.Value()
}
func (h *zzHub) PokeTwice(first ProbeProxy, second ProbeProxy) (int32, error) {
	h.calls++
	a, err := first.Value()
	if err != nil {
		return 0, err
	}
	b, err := second.Value()
	return a - b, err
}

// C05ObjectArguments: objects created on the client side (ids lent by the service reference: 2^31,
// 2^31+1, ...) are passed as arguments through the generated proxy; the generated stub must hand the
// implementation a proxy that reaches exactly that object: the implementation calls it back.
func C05ObjectArguments() {
	l := newZZListener()
	srv, err := bus.StandAloneServer(l, bus.Yes{}, bus.PrivateNamespace())
	sym.Assert(err == nil, "server-started")
	im := &zzHub{}
	_, err = srv.NewService("Hub", HubObject(im))
	sym.Assert(err == nil, "service-registered")
	session := srv.Session()
	hub, err := Hub(session)
	sym.Assert(err == nil, "hub-proxy")
	if err != nil {
		return
	}
	service := hub.Proxy().ProxyService(session)
	vals := []int32{sym.I32("v0"), sym.I32("v1"), sym.I32("v2")}
	probes := make([]ProbeProxy, 3)
	for i := range probes {
		probes[i], err = CreateProbe(session, service, &zzProbe{v: vals[i]})
		sym.Assert(err == nil, "client-object-created")
		if err != nil {
			return
		}
	}
	k := sym.Choose("which-client-object", 3)
	got, err := hub.Poke(probes[k])
	sym.Assert(err == nil, "poke/call-ok")
	sym.Assert(got == vals[k], "poke/called-back-another-object")
	got, err = hub.PokeTwice(probes[0], probes[2])
	sym.Assert(err == nil, "poke-twice/call-ok")
	sym.Assert(got == vals[0]-vals[2], "poke-twice/arguments-mixed-up")
	sym.Assert(im.calls == 2, "method-bodies-ran-once-each")
	sym.Reach("object-arguments-done")
}
