//go:build verif

package c05p10

// C05StringResultCompiles: compile-only program: the smallest interface there is — one method without
// arguments returning a string (nothing else in the package pulls in the imports the stub needs).
func C05StringResultCompiles() {}
