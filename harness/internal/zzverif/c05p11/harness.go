//go:build verif

package c05p11

// C05ObjParameterCompiles: compile-only program: a parameter of the built-in object type `obj`.
func C05ObjParameterCompiles() {}
