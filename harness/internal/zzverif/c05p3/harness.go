//go:build verif

package c05p3

import (
	"errors"
	"math"

	"github.com/lugu/qiloop/bus"
	"github.com/lugu/qiloop/internal/zzverif/sym"
)

type zzImpl struct {
	helper    StationSignalHelper
	resets    int
	code      uint32
	retBool   bool
	minThresh int32
	thresh    []int32
	names     []string
}

func (z *zzImpl) Activate(activation bus.Activation, helper StationSignalHelper) error {
	z.helper = helper
	return nil
}
func (z *zzImpl) OnTerminate() {}
func (z *zzImpl) Reset(code uint32) (bool, error) {
	z.resets++
	z.code = code
	return z.retBool, nil
}
func (z *zzImpl) OnThresholdChange(value int32) error {
	if value < z.minThresh {
		return errors.New("threshold too low")
	}
	z.thresh = append(z.thresh, value)
	return nil
}
func (z *zzImpl) OnNameChange(value string) error {
	z.names = append(z.names, value)
	return nil
}

// C05Events: signals emitted through the generated helper reach generated subscribers with equal
// payloads; property set/get round-trips through the generated proxy and stub (validator included).
func C05Events() {
	im := &zzImpl{minThresh: sym.I32("min-threshold")}
	p := MakeStation(nil, zzServe("Station", StationObject(im), (&stubStation{}).metaObject()))
	switch sym.Choose("scenario", 6) {
	case 5: // a burst of signals emitted before the subscriber reads any: all of them, in order
		cancel, ch, err := p.SubscribeAlarm()
		sym.Assert(err == nil, "burst/subscribe-ok")
		const burst = 24
		first, last := sym.I32("first-level"), sym.I32("last-level")
		for i := 0; i < burst; i++ {
			level := int32(i)
			if i == 0 {
				level = first
			} else if i == burst-1 {
				level = last
			}
			sym.Assert(im.helper.SignalAlarm(level, "w") == nil, "burst/emit-ok")
		}
		sym.Quiesce()
		for i := 0; i < burst; i++ {
			select {
			case ev := <-ch:
				switch i {
				case 0:
					sym.Assert(ev.Level == first, "burst/first-event")
				case burst - 1:
					sym.Assert(ev.Level == last, "burst/last-event")
				default:
					sym.Assert(ev.Level == int32(i), "burst/event-lost-or-out-of-order")
				}
			default:
				sym.Fail("burst/event-not-delivered")
				return
			}
			sym.Quiesce() // the generated goroutine forwards the next one
		}
		cancel()
	case 4: // service-side updates of both properties, then a signal, then both are read back
		v, n := sym.I32("threshold"), sym.Str("name", 2)
		sym.Assume(v >= im.minThresh)
		sym.Assert(im.helper.UpdateThreshold(v) == nil, "updates/threshold-ok")
		sym.Assert(im.helper.UpdateName(n) == nil, "updates/name-ok")
		sym.Assert(im.helper.SignalAlarm(sym.I32("level"), sym.Str("where", 3)) == nil, "updates/emit-ok")
		sym.Quiesce()
		gv, err := p.GetThreshold()
		sym.Assert(err == nil, "updates/get-threshold-ok")
		sym.Assert(gv == v, "updates/threshold-read-back")
		gn, err := p.GetName()
		sym.Assert(err == nil, "updates/get-name-ok")
		sym.Assert(sym.EqStr(gn, n), "updates/name-read-back")
	case 0: // signal with scalar + string payload
		cancel, ch, err := p.SubscribeAlarm()
		sym.Assert(err == nil, "alarm/subscribe-ok")
		level, where := sym.I32("level"), sym.Str("where", sym.Choose("wlen", 3))
		sym.Assert(im.helper.SignalAlarm(level, where) == nil, "alarm/emit-ok")
		sym.Quiesce()
		select {
		case ev := <-ch:
			sym.Assert(sym.And(ev.Level == level, sym.EqStr(ev.Where, where)), "alarm/payload")
		default:
			sym.Fail("alarm/event-not-delivered")
		}
		cancel()
	case 1: // signal carrying a struct with a float
		cancel, ch, err := p.SubscribeSample()
		sym.Assert(err == nil, "sample/subscribe-ok")
		bits := sym.F32("value")
		rd := Reading{Sensor: sym.Str("sensor", 1), Value: math.Float32frombits(bits)}
		sym.Assert(im.helper.SignalSample(rd) == nil, "sample/emit-ok")
		sym.Quiesce()
		select {
		case ev := <-ch:
			sym.Assert(sym.And(sym.EqStr(ev.Sensor, rd.Sensor), math.Float32bits(ev.Value) == bits), "sample/payload")
		default:
			sym.Fail("sample/event-not-delivered")
		}
		cancel()
	case 2: // property set (validated) then get
		v := sym.I32("new-threshold")
		err := p.SetThreshold(v)
		if v >= im.minThresh {
			sym.Assert(err == nil, "threshold/valid-set-refused")
			sym.Assert(len(im.thresh) == 1, "threshold/validator-called-once")
			if len(im.thresh) == 1 {
				sym.Assert(im.thresh[0] == v, "threshold/validator-argument")
			}
			got, err := p.GetThreshold()
			sym.Assert(err == nil, "threshold/get-ok")
			sym.Assert(got == v, "threshold/get-returns-set-value")
		} else {
			sym.Assert(err != nil, "threshold/invalid-set-accepted")
			_, err := p.GetThreshold()
			sym.Assert(err != nil, "threshold/get-after-rejected-set")
		}
	default: // service-side update of a string property, subscriber + get
		cancel, ch, err := p.SubscribeName()
		sym.Assert(err == nil, "name/subscribe-ok")
		n := sym.Str("name", sym.Choose("nlen", 3))
		sym.Assert(im.helper.UpdateName(n) == nil, "name/update-ok")
		sym.Quiesce()
		select {
		case ev := <-ch:
			sym.Assert(sym.EqStr(ev, n), "name/event-payload")
		default:
			sym.Fail("name/event-not-delivered")
		}
		got, err := p.GetName()
		sym.Assert(err == nil, "name/get-ok")
		sym.Assert(sym.EqStr(got, n), "name/get-returns-updated-value")
		cancel()
	}
	// and the method of the same interface
	im.retBool = sym.Bool("reset-ret")
	code := sym.U32("code")
	got, err := p.Reset(code)
	sym.Assert(err == nil, "reset/call-ok")
	sym.Assert(im.code == code && im.resets == 1, "reset/argument")
	sym.Assert(got == im.retBool, "reset/result")
	sym.Reach("events-done")
}
