//go:build verif

package c05p12

// C05TypeNamePrefixCompiles: compile-only program: a structure whose name begins with the name of a
// built-in type (`strategy` = `str` + `ategy`).
func C05TypeNamePrefixCompiles() {}
