//go:build verif

package c05p2

import (
	"github.com/lugu/qiloop/bus"
	"github.com/lugu/qiloop/internal/zzverif/sym"
	"github.com/lugu/qiloop/type/value"
)

type zzImpl struct {
	calls  int
	values []int32
	pt     Point
	dx     int32
	shape  Shape
	mp     map[string]int32
	val    value.Value
	vv     [][]uint16
	retSum int64
	retPt  Point
	retPts []Point
	retMap map[string]int32
	retVal value.Value
	retVV  [][]uint16
	gr     map[string][]int32
	retGr  map[string][]int32
}

func (z *zzImpl) Activate(activation bus.Activation, helper ContainersSignalHelper) error { return nil }
func (z *zzImpl) OnTerminate()                                                            {}
func (z *zzImpl) Sum(values []int32) (int64, error) {
	z.calls++
	z.values = values
	return z.retSum, nil
}
func (z *zzImpl) Move(pt Point, dx int32) (Point, error) {
	z.calls++
	z.pt, z.dx = pt, dx
	return z.retPt, nil
}
func (z *zzImpl) Outline(sh Shape) ([]Point, error) {
	z.calls++
	z.shape = sh
	return z.retPts, nil
}
func (z *zzImpl) Index(mp map[string]int32) (map[string]int32, error) {
	z.calls++
	z.mp = mp
	return z.retMap, nil
}
func (z *zzImpl) Wrap(val value.Value) (value.Value, error) {
	z.calls++
	z.val = val
	return z.retVal, nil
}
func (z *zzImpl) Groups(gr map[string][]int32) (map[string][]int32, error) {
	z.calls++
	z.gr = gr
	return z.retGr, nil
}
func (z *zzImpl) Nested(vv [][]uint16) ([][]uint16, error) {
	z.calls++
	z.vv = vv
	return z.retVV, nil
}

func zzPoint(label string) Point {
	return Point{Visible: sym.Bool(label + "-visible"), X: sym.I32(label + "-x"), Layer: sym.I8(label + "-layer"), Y: sym.I16(label + "-y"), Label: sym.Str(label+"-label", 1)}
}

func zzSamePoint(a, b Point) bool {
	return sym.And(sym.And(sym.And(a.X == b.X, a.Y == b.Y), sym.And(a.Visible == b.Visible, a.Layer == b.Layer)), sym.EqStr(a.Label, b.Label))
}

// C05Containers: lists, structs (shared between actions), maps, nested lists and dynamic values
// through the generated proxy and stub.
func C05Containers() {
	im := &zzImpl{}
	p := MakeContainers(nil, zzServe("Containers", ContainersObject(im), (&stubContainers{}).metaObject()))
	switch sym.Choose("method", 8) {
	case 7:
		// a long list argument (4100 elements: more than any fixed-size buffer or guard of the generated
		// reader): the implementation receives all of it and the result comes back
		const n = 4100
		sym.SetMaxMaterialise(1 << 16)
		vals := make([]int32, n)
		vals[0], vals[4095], vals[4096], vals[n-1] = sym.I32("v-first"), sym.I32("v-4095"), sym.I32("v-4096"), sym.I32("v-last")
		im.retSum = sym.I64("ret")
		got, err := p.Sum(vals)
		sym.Assert(err == nil, "long-sum/call-ok")
		sym.Assert(len(im.values) == n, "long-sum/argument-length")
		if len(im.values) == n {
			sym.Assert(sym.And(sym.And(im.values[0] == vals[0], im.values[4095] == vals[4095]),
				sym.And(im.values[4096] == vals[4096], im.values[n-1] == vals[n-1])), "long-sum/argument-element")
		}
		sym.Assert(got == im.retSum, "long-sum/result")
	case 5:
		// a map of lists, two entries with lists of the same length, as argument and as result
		gr := map[string][]int32{"a": {sym.I32("a0"), sym.I32("a1")}, "b": {sym.I32("b0"), sym.I32("b1")}}
		im.retGr = map[string][]int32{"c": {sym.I32("c0"), sym.I32("c1")}, "d": {sym.I32("d0"), sym.I32("d1")}}
		got, err := p.Groups(gr)
		sym.Assert(err == nil, "groups/call-ok")
		sym.Assert(len(im.gr) == 2 && len(im.gr["a"]) == 2 && len(im.gr["b"]) == 2, "groups/argument-shape")
		if len(im.gr["a"]) == 2 && len(im.gr["b"]) == 2 {
			sym.Assert(sym.And(sym.And(im.gr["a"][0] == gr["a"][0], im.gr["a"][1] == gr["a"][1]),
				sym.And(im.gr["b"][0] == gr["b"][0], im.gr["b"][1] == gr["b"][1])), "groups/argument")
		}
		sym.Assert(len(got) == 2 && len(got["c"]) == 2 && len(got["d"]) == 2, "groups/result-shape")
		if len(got["c"]) == 2 && len(got["d"]) == 2 {
			sym.Assert(sym.And(sym.And(got["c"][0] == im.retGr["c"][0], got["c"][1] == im.retGr["c"][1]),
				sym.And(got["d"][0] == im.retGr["d"][0], got["d"][1] == im.retGr["d"][1])), "groups/result")
		}
	case 0:
		n := sym.Choose("n", 3)
		vals := make([]int32, n)
		for i := range vals {
			vals[i] = sym.I32("v")
		}
		im.retSum = sym.I64("ret")
		got, err := p.Sum(vals)
		sym.Assert(err == nil, "sum/call-ok")
		sym.Assert(len(im.values) == n, "sum/argument-length")
		for i := 0; i < n && i < len(im.values); i++ {
			sym.Assert(im.values[i] == vals[i], "sum/argument-element")
		}
		sym.Assert(got == im.retSum, "sum/result")
	case 1:
		pt, dx := zzPoint("pt"), sym.I32("dx")
		im.retPt = zzPoint("ret")
		got, err := p.Move(pt, dx)
		sym.Assert(err == nil, "move/call-ok")
		sym.Assert(sym.And(zzSamePoint(im.pt, pt), im.dx == dx), "move/arguments")
		sym.Assert(zzSamePoint(got, im.retPt), "move/result")
	case 2:
		sh := Shape{Name: sym.Str("name", 1), Points: []Point{zzPoint("p0")}, Tags: map[string]uint8{"t": sym.U8("tag")}}
		im.retPts = []Point{zzPoint("r0"), zzPoint("r1")}
		got, err := p.Outline(sh)
		sym.Assert(err == nil, "outline/call-ok")
		sym.Assert(sym.EqStr(im.shape.Name, sh.Name), "outline/argument-name")
		sym.Assert(len(im.shape.Points) == 1 && len(im.shape.Tags) == 1, "outline/argument-shape")
		if len(im.shape.Points) == 1 {
			sym.Assert(zzSamePoint(im.shape.Points[0], sh.Points[0]), "outline/argument-point")
		}
		sym.Assert(im.shape.Tags["t"] == sh.Tags["t"], "outline/argument-tag")
		sym.Assert(len(got) == 2, "outline/result-length")
		if len(got) == 2 {
			sym.Assert(sym.And(zzSamePoint(got[0], im.retPts[0]), zzSamePoint(got[1], im.retPts[1])), "outline/result")
		}
	case 3:
		k := sym.Str("key", 1)
		mp := map[string]int32{k: sym.I32("val")}
		rk := sym.Str("rkey", 1)
		im.retMap = map[string]int32{rk: sym.I32("rval")}
		got, err := p.Index(mp)
		sym.Assert(err == nil, "index/call-ok")
		v, ok := im.mp[k]
		sym.Assert(len(im.mp) == 1 && ok, "index/argument-key")
		sym.Assert(v == mp[k], "index/argument-value")
		gv, gok := got[rk]
		sym.Assert(len(got) == 1 && gok, "index/result-key")
		sym.Assert(gv == im.retMap[rk], "index/result-value")
	case 4:
		x := sym.I32("x")
		s := sym.Str("s", 1)
		im.retVal = value.String(s)
		got, err := p.Wrap(value.Int(x))
		sym.Assert(err == nil, "wrap/call-ok")
		iv, ok := im.val.(value.IntValue)
		sym.Assert(ok, "wrap/argument-kind")
		if ok {
			sym.Assert(iv.Value() == x, "wrap/argument")
		}
		sv, ok := got.(value.StringValue)
		sym.Assert(ok, "wrap/result-kind")
		if ok {
			sym.Assert(sym.EqStr(sv.Value(), s), "wrap/result")
		}
	default:
		vv := [][]uint16{{sym.U16("a")}, {}, {sym.U16("b"), sym.U16("c")}}
		im.retVV = [][]uint16{{sym.U16("r00"), sym.U16("r01")}, {sym.U16("r10"), sym.U16("r11")}}
		got, err := p.Nested(vv)
		sym.Assert(err == nil, "nested/call-ok")
		sym.Assert(len(im.vv) == 3 && len(im.vv[0]) == 1 && len(im.vv[1]) == 0 && len(im.vv[2]) == 2, "nested/argument-shape")
		if len(im.vv) == 3 && len(im.vv[0]) == 1 && len(im.vv[2]) == 2 {
			sym.Assert(sym.And(im.vv[0][0] == vv[0][0], sym.And(im.vv[2][0] == vv[2][0], im.vv[2][1] == vv[2][1])), "nested/argument")
		}
		sym.Assert(len(got) == 2 && len(got[0]) == 2 && len(got[1]) == 2, "nested/result-shape")
		if len(got) == 2 && len(got[0]) == 2 && len(got[1]) == 2 {
			sym.Assert(sym.And(sym.And(got[0][0] == im.retVV[0][0], got[0][1] == im.retVV[0][1]),
				sym.And(got[1][0] == im.retVV[1][0], got[1][1] == im.retVV[1][1])), "nested/result")
		}
	}
	sym.Assert(im.calls == 1, "method-body-ran-exactly-once")
	sym.Reach("containers-done")
}
