//go:build verif

package c05p9

// C05ReferenceCyclesCompile: compile-only program: an interface whose methods return the interface
// itself, and two interfaces that refer to each other (object graphs: trees, factories).
func C05ReferenceCyclesCompile() {}
