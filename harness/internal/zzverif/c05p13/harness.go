//go:build verif

package c05p13

// C05MultiParameterPropertyCompiles: compile-only program: a property with two members.
func C05MultiParameterPropertyCompiles() {}
