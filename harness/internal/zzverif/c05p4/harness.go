//go:build verif

package c05p4

// C05HygieneCompiles: compile-only program: a parameter named like an identifier the generated
// stub uses itself ("c", the channel parameter).
func C05HygieneCompiles() {}
