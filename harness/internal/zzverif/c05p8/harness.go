//go:build verif

package c05p8

// C05ObjectPropertyCompiles: compile-only program: a property whose type is an interface (object reference).
func C05ObjectPropertyCompiles() {}
