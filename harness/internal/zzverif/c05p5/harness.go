//go:build verif

package c05p5

// C05KeywordCompiles: compile-only program: a parameter named like a Go keyword.
func C05KeywordCompiles() {}
