//go:build verif

package c05p1

import (
	"context"
	"math"

	"github.com/lugu/qiloop/bus"
	"github.com/lugu/qiloop/internal/zzverif/sym"
)

// zzImpl records what the generated stub hands to the implementation and answers with harness-chosen values.
type zzImpl struct {
	pairI, retI int32
	pairS, retS string
	calls       int
	a8          int8
	b8          uint8
	c16         int16
	d16         uint16
	a32         int32
	b32         uint32
	c64         int64
	d64         uint64
	flag        bool
	f32         float32
	f64         float64
	str         string
	ret8        int8
	ret64       uint64
	retStr      string
	retBool     bool
	retF64      float64
}

func (z *zzImpl) Activate(activation bus.Activation, helper ScalarsSignalHelper) error { return nil }
func (z *zzImpl) OnTerminate()                                                         {}
func (z *zzImpl) Small(a int8, b uint8, c int16, d uint16) (int8, error) {
	z.calls++
	z.a8, z.b8, z.c16, z.d16 = a, b, c, d
	return z.ret8, nil
}
func (z *zzImpl) Wide(a int32, b uint32, c int64, d uint64) (uint64, error) {
	z.calls++
	z.a32, z.b32, z.c64, z.d64 = a, b, c, d
	return z.ret64, nil
}
func (z *zzImpl) Misc(a bool, b float32, c float64, d string) (string, error) {
	z.calls++
	z.flag, z.f32, z.f64, z.str = a, b, c, d
	return z.retStr, nil
}
func (z *zzImpl) Nothing() error { z.calls++; return nil }
func (z *zzImpl) Flip(a bool) (bool, error) {
	z.calls++
	z.flag = a
	return z.retBool, nil
}
func (z *zzImpl) Pair(t struct {
	Param0 int32
	Param1 string
}) (struct {
	Param0 string
	Param1 int32
}, error) {
	z.calls++
	z.pairI, z.pairS = t.Param0, t.Param1
	return struct {
		Param0 string
		Param1 int32
	}{z.retS, z.retI}, nil
}
func (z *zzImpl) Half(a float32) (float64, error) {
	z.calls++
	z.f32 = a
	return z.retF64, nil
}

func zzNotNaN32(bits uint32) bool { return sym.Or(bits&0x7f800000 != 0x7f800000, bits&0x007fffff == 0) }

// C05Scalars: generated proxy -> real client/server stack -> generated stub -> implementation and
// back: the implementation sees the arguments passed, the caller sees the value returned, the method
// body runs exactly once; every scalar width, bool, floats, string.
func C05Scalars() {
	im := &zzImpl{}
	p := MakeScalars(nil, zzServe("Scalars", ScalarsObject(im), (&stubScalars{}).metaObject()))
	if sym.Bool("through-a-context-bound-proxy") {
		// the generated WithContext proxy must address the same service and object
		p = p.WithContext(context.Background())
	}
	switch sym.Choose("method", 7) {
	case 6:
		// a tuple (an unnamed struct in the generated code) as argument and as result, after a call
		// that returns nothing (another unnamed struct went through the codec first) or before one
		voidFirst := sym.Bool("void-call-first")
		if voidFirst {
			sym.Assert(p.Nothing() == nil, "pair/void-call-ok")
		}
		im.retS, im.retI = sym.Str("rs", 1), sym.I32("ri")
		var t struct {
			Param0 int32
			Param1 string
		}
		t.Param0, t.Param1 = sym.I32("ti"), sym.Str("ts", 2)
		got, err := p.Pair(t)
		sym.Assert(err == nil, "pair/call-ok")
		sym.Assert(sym.And(im.pairI == t.Param0, sym.EqStr(im.pairS, t.Param1)), "pair/arguments")
		sym.Assert(sym.And(sym.EqStr(got.Param0, im.retS), got.Param1 == im.retI), "pair/result")
		if !voidFirst {
			sym.Assert(p.Nothing() == nil, "pair/void-call-after-ok")
		}
		im.calls--
	case 0:
		a, b, c, d := sym.I8("a"), sym.U8("b"), sym.I16("c"), sym.U16("d")
		im.ret8 = sym.I8("ret")
		got, err := p.Small(a, b, c, d)
		sym.Assert(err == nil, "small/call-ok")
		sym.Assert(sym.And(sym.And(im.a8 == a, im.b8 == b), sym.And(im.c16 == c, im.d16 == d)), "small/arguments")
		sym.Assert(got == im.ret8, "small/result")
	case 1:
		a, b, c, d := sym.I32("a"), sym.U32("b"), sym.I64("c"), sym.U64("d")
		im.ret64 = sym.U64("ret")
		got, err := p.Wide(a, b, c, d)
		sym.Assert(err == nil, "wide/call-ok")
		sym.Assert(sym.And(sym.And(im.a32 == a, im.b32 == b), sym.And(im.c64 == c, im.d64 == d)), "wide/arguments")
		sym.Assert(got == im.ret64, "wide/result")
	case 2:
		a := sym.Bool("a")
		fb, fc := sym.F32("b"), sym.F64("c")
		d := sym.Str("d", sym.Choose("dlen", 3))
		im.retStr = sym.Str("ret", 2)
		got, err := p.Misc(a, math.Float32frombits(fb), math.Float64frombits(fc), d)
		sym.Assert(err == nil, "misc/call-ok")
		sym.Assert(sym.And(im.flag == a, sym.EqStr(im.str, d)), "misc/arguments")
		sym.Assert(sym.And(math.Float32bits(im.f32) == fb, math.Float64bits(im.f64) == fc), "misc/float-arguments")
		sym.Assert(sym.EqStr(got, im.retStr), "misc/result")
	case 3:
		sym.Assert(p.Nothing() == nil, "nothing/call-ok")
	case 4:
		a := sym.Bool("a")
		im.retBool = sym.Bool("ret")
		got, err := p.Flip(a)
		sym.Assert(err == nil, "flip/call-ok")
		sym.Assert(im.flag == a, "flip/arguments")
		sym.Assert(got == im.retBool, "flip/result")
	default:
		fa := sym.F32("a")
		fr := sym.F64("ret")
		im.retF64 = math.Float64frombits(fr)
		got, err := p.Half(math.Float32frombits(fa))
		sym.Assert(err == nil, "half/call-ok")
		sym.Assert(math.Float32bits(im.f32) == fa, "half/arguments")
		sym.Assert(math.Float64bits(got) == fr, "half/result")
	}
	sym.Assert(im.calls == 1, "method-body-ran-exactly-once")
	sym.Reach("scalars-done")
}
