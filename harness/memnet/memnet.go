// Package memnet is an in-memory stand-in for the socket calls of package net (Listen, Dial on
// "unix" and "tcp"), used ONLY by `symgo selftest` so that the repository's own tests which open
// real sockets can be executed by the interpreter: a listener is a channel of connections, a dial
// creates a net.Pipe pair and hands one end to the listener. Interpreted from this source.
package memnet

import (
	"errors"
	"net"
	"strings"
	"sync"
)

type listener struct {
	key    string
	conns  chan net.Conn
	closed chan struct{}
	once   sync.Once
}

type addr struct{ network, name string }

func (a addr) Network() string { return a.network }
func (a addr) String() string  { return a.name }

var (
	mu        sync.Mutex
	listeners = map[string]*listener{}
	nextPort  = 40000
)

func (l *listener) Accept() (net.Conn, error) {
	select {
	case c := <-l.conns:
		return c, nil
	case <-l.closed:
		return nil, errors.New("memnet: use of closed network connection")
	}
}

func (l *listener) Close() error {
	err := errors.New("memnet: use of closed network connection")
	l.once.Do(func() {
		mu.Lock()
		delete(listeners, l.key)
		mu.Unlock()
		close(l.closed)
		err = nil
	})
	return err
}

func (l *listener) Addr() net.Addr { return addr{"mem", l.key} }

// Listen stands in for net.Listen.
func Listen(network, address string) (net.Listener, error) {
	if network != "unix" && network != "tcp" {
		return nil, errors.New("memnet: unknown network " + network)
	}
	mu.Lock()
	defer mu.Unlock()
	key := network + ":" + address
	if _, ok := listeners[key]; ok {
		return nil, errors.New("memnet: listen " + key + ": address already in use")
	}
	if network == "tcp" {
		if _, _, err := net.SplitHostPort(address); err != nil {
			return nil, err
		}
	}
	if network == "unix" && !strings.HasPrefix(address, "/tmp/") {
		// the host file system is not modelled: socket files can be created under the temporary directory only
		// (the repository's tests expect "unix:///test" to be refused)
		return nil, errors.New("memnet: listen unix " + address + ": bind: permission denied")
	}
	// like the kernel's accept queue: a dial completes before the server calls Accept
	l := &listener{key: key, conns: make(chan net.Conn, 128), closed: make(chan struct{})}
	listeners[key] = l
	return l, nil
}

// Dial stands in for net.Dial.
func Dial(network, address string) (net.Conn, error) {
	if network == "tcp" {
		if _, _, err := net.SplitHostPort(address); err != nil {
			return nil, err
		}
	}
	mu.Lock()
	l := listeners[network+":"+address]
	mu.Unlock()
	if l == nil {
		return nil, errors.New("memnet: dial " + network + " " + address + ": connection refused")
	}
	a, b := net.Pipe()
	select {
	case l.conns <- b:
		return a, nil
	case <-l.closed:
		return nil, errors.New("memnet: dial " + network + " " + address + ": connection refused")
	}
}
