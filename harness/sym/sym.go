// Package sym is the harness API. Under the symbolic engine (symgo) every function here is an
// intrinsic: the bodies below are never interpreted. Compiled natively, the same functions read
// their values from the replay file named by VERIF_REPLAY, so the harness the solver reasoned
// about is the very test that replays a counterexample against the real build.
package sym

import (
	"bytes"
	"encoding/json"
	"fmt"
	"os"
	"runtime"
	"strconv"
	"sync"
	"time"
)

type input struct {
	Label string `json:"label"`
	W     int    `json:"w"`
	Val   uint64 `json:"val"`
}

type replayFile struct {
	Inputs []input `json:"inputs"`
}

var (
	mu     sync.Mutex
	loaded bool
	inputs []input
	pos    int
)

func load() {
	if loaded {
		return
	}
	loaded = true
	p := os.Getenv("VERIF_REPLAY")
	if p == "" {
		return
	}
	data, err := os.ReadFile(p)
	if err != nil {
		fmt.Fprintf(os.Stderr, "VERIF-REPLAY-ERROR %v\n", err)
		os.Exit(9)
	}
	var rf replayFile
	if err := json.Unmarshal(data, &rf); err != nil {
		fmt.Fprintf(os.Stderr, "VERIF-REPLAY-ERROR %v\n", err)
		os.Exit(9)
	}
	inputs = rf.Inputs
}

// Reset restarts consumption of the replay file (used by the replay test driver).
func Reset() { mu.Lock(); loaded = false; pos = 0; mu.Unlock() }

func next(label string, w int) uint64 {
	mu.Lock()
	defer mu.Unlock()
	load()
	// values the engine drew for its own nondeterminism models (math/rand...) cannot be forced natively
	for pos < len(inputs) && len(inputs[pos].Label) > 5 && inputs[pos].Label[:5] == "rand." {
		pos++
	}
	if pos >= len(inputs) {
		fmt.Fprintf(os.Stderr, "VERIF-REPLAY-EXHAUSTED at %s\n", label)
		return 0
	}
	in := inputs[pos]
	pos++
	if in.Label != label {
		fmt.Fprintf(os.Stderr, "VERIF-REPLAY-MISMATCH want %s have %s\n", label, in.Label)
	}
	return in.Val
}

func U8(label string) uint8   { return uint8(next(label, 8)) }
func U16(label string) uint16 { return uint16(next(label, 16)) }
func U32(label string) uint32 { return uint32(next(label, 32)) }
func U64(label string) uint64 { return next(label, 64) }
func I8(label string) int8    { return int8(next(label, 8)) }
func I16(label string) int16  { return int16(next(label, 16)) }
func I32(label string) int32  { return int32(next(label, 32)) }
func I64(label string) int64  { return int64(next(label, 64)) }

// F32 and F64 return arbitrary bit patterns.
func F32(label string) uint32 { return uint32(next(label, 32)) }
func F64(label string) uint64 { return next(label, 64) }

func Bool(label string) bool { return next(label, 8) != 0 }

// Int returns an arbitrary int in [lo,hi] (symbolic under the engine).
func Int(label string, lo, hi int) int {
	if lo == hi {
		return lo
	}
	return int(int64(next(label, 64)))
}

// Choose returns an arbitrary int in [0,n); under the engine the value is concrete on each path.
func Choose(label string, n int) int {
	if n <= 1 {
		return 0
	}
	return int(next(label, 64))
}

// Bytes returns n arbitrary bytes.
func Bytes(label string, n int) []byte {
	b := make([]byte, n)
	for i := range b {
		b[i] = byte(next(fmt.Sprintf("%s[%d]", label, i), 8))
	}
	return b
}

// Str returns an arbitrary string of exactly n bytes.
func Str(label string, n int) string { return string(Bytes(label, n)) }

func Assume(c bool) {
	if !c {
		fmt.Fprintf(os.Stderr, "VERIF-ASSUME-FALSE\n")
		os.Exit(8)
	}
}

func Assert(c bool, label string) {
	if !c {
		fmt.Fprintf(os.Stderr, "VERIF-ASSERT-FAIL %s\n", label)
		os.Exit(7)
	}
}

func Fail(label string) { Assert(false, label) }

func Reach(label string) { fmt.Fprintf(os.Stderr, "VERIF-REACH %s\n", label) }

func Observe(label string, v interface{}) { fmt.Fprintf(os.Stderr, "VERIF-OBS %s=%v\n", label, v) }

func And(a, b bool) bool     { return a && b }
func Or(a, b bool) bool      { return a || b }
func Not(a bool) bool        { return !a }
func Implies(a, b bool) bool { return !a || b }

func EqBytes(a, b []byte) bool { return bytes.Equal(a, b) }
func EqStr(a, b string) bool   { return a == b }

func IteU32(c bool, a, b uint32) uint32 {
	if c {
		return a
	}
	return b
}

// Concrete forces x to a concrete value on each path (identity natively).
func Concrete(x int) int { return x }

func Yield() { runtime.Gosched() }

// Quiesce lets all other goroutines run until none can make progress.
func Quiesce() {
	ms := 30
	if v, err := strconv.Atoi(os.Getenv("VERIF_QUIESCE_MS")); err == nil && v > 0 {
		ms = v
	}
	time.Sleep(time.Duration(ms) * time.Millisecond)
}

// Blocked is only meaningful under the engine.
func Blocked() int { return 0 }

// Symbolic reports whether the harness runs under the engine.
func Symbolic() bool { return false }

func SetMaxLen(n int)     {}
func SetLoopBudget(n int) {}

// SetMaxMaterialise raises the size of the largest slice the engine builds (default 8192 elements).
func SetMaxMaterialise(n int) {}
func SetAllocBudget(n int)    {}
func SetPreempt(n int)        {}
func CheckPanics(on bool)     {}
func CheckDeadlock(on bool)   {}
func MapOrderNondet(on bool)  {}

// Replace substitutes fn for the named function under the engine (no effect natively: harnesses
// using it are engine-only).
func Replace(name string, fn interface{}) {}

// Schedules(false) makes the engine follow its default schedule without spending the delay budget
// until Schedules(true): the budget is then spent on the window of the scenario that matters (the
// set-up before it runs under one schedule only, which is stated in the bounds). Native: no-op.
func Schedules(on bool) {}

// SymbolicClock(true): under the engine every later reading of the clock (time.Now, time.Since, time.Until)
// is an arbitrary instant no earlier than the previous reading — the time that passes between two steps of
// the scenario becomes a solver variable. Native: no-op (a counterexample that needs time to pass is
// reported as an engine trace).
func SymbolicClock(on bool) {}

// RacyScope makes every shared-memory access of functions whose name contains scope a scheduling
// point under the engine (no effect natively).
func RacyScope(scope string) {}

// Bounded runs f under a resource bound: at most allocBytes allocated and (under the engine) at
// most loop iterations of any input-controlled loop. Under the engine the bound is an obligation
// discharged by the solver at every allocation whose size is symbolic; natively the allocation
// volume and the running time are measured.
func Bounded(allocBytes int, loop int, f func()) {
	var before, after runtime.MemStats
	runtime.ReadMemStats(&before)
	t0 := time.Now()
	f()
	el := time.Since(t0)
	runtime.ReadMemStats(&after)
	if after.TotalAlloc-before.TotalAlloc > uint64(allocBytes)+(1<<20) {
		fmt.Fprintf(os.Stderr, "VERIF-ASSERT-FAIL bounded-alloc (%d bytes allocated, budget %d)\n", after.TotalAlloc-before.TotalAlloc, allocBytes)
		os.Exit(7)
	}
	if el > 5*time.Second {
		fmt.Fprintf(os.Stderr, "VERIF-ASSERT-FAIL bounded-loop (%v)\n", el)
		os.Exit(7)
	}
}

// Panics runs f and reports whether it panicked.
func Panics(f func()) (p bool) {
	defer func() {
		if r := recover(); r != nil {
			p = true
		}
	}()
	f()
	return false
}
